"""Reference macro expansion for C12: the C algorithm (Prosser's hide sets) over the word tokens of a case.
Returns ("ok", [non-blank tokens]) | ("err", reason) | ("outside", why) when the program leaves the subset in
which the property is stated (## operand that is a macro name / becomes one, # stringification, a line end between
a function-like macro name and its parenthesis) | ("empty-paste", ...) for a ## with an empty operand."""
import re


class Outside(Exception):
    pass


class RefError(Exception):
    pass


class EmptyPaste(Exception):
    pass


def is_ws(t):
    return t in ("~", "$")


def is_id(t):
    return re.match(r"^[A-Za-z_]\w*$", t) is not None


class Macro:
    def __init__(self, name, params, body):
        self.name, self.params, self.body = name, params, body   # params None for object-like


def parse_define(ws):
    i = 0
    while i < len(ws) and ws[i] == "~":
        i += 1
    if i >= len(ws) or not is_id(ws[i]):
        raise RefError("InvalidDefine")
    name = ws[i]
    i += 1
    params = None
    if i < len(ws) and ws[i] == "(":
        j = i + 1
        while j < len(ws) and ws[j] != ")":
            j += 1
        if j >= len(ws):
            raise RefError("InvalidDefine")
        pieces, cur = [], []
        for t in ws[i + 1:j]:
            if t == ",":
                pieces.append(cur)
                cur = []
            else:
                cur.append(t)
        pieces.append(cur)
        params = []
        for k, p in enumerate(pieces):
            p = [t for t in p if t != "~"]
            if len(p) == 1 and is_id(p[0]):
                params.append(p[0])
            elif not (len(p) == 0 and len(pieces) == 1):
                raise RefError("InvalidDefine")
        i = j + 1
    body = ws[i:]
    while body and body[0] == "~":
        body = body[1:]
    while body and body[-1] == "~":
        body = body[:-1]
    return Macro(name, params, body)


def expand(ts, macros, budget):
    """ts: list of (tok, frozenset hide). Prosser's expand."""
    out = []
    ts = list(ts)
    while ts:
        budget[0] -= 1
        if budget[0] < 0:
            raise RefError("reference did not terminate")
        t, hs = ts[0]
        rest = ts[1:]
        m = macros.get(t) if is_id(t) else None
        if m is None or t in hs:
            if m is not None:
                budget[3] = True     # a macro name kept unexpanded because of its hide set (a painted token)
            out.append((t, hs))
            ts = rest
            continue
        if m.params is None:
            ts = subst(m, [], hs | {t}, macros, budget) + rest
            continue
        # function-like: next non-blank token must be "("
        k = 0
        saw_endl = False
        while k < len(rest) and is_ws(rest[k][0]):
            saw_endl = saw_endl or rest[k][0] == "$"
            k += 1
        if k >= len(rest) or rest[k][0] != "(":
            if k < len(rest) and is_id(rest[k][0]) and rest[k][0] in macros and rest[k][0] not in rest[k][1]:
                budget[2] = True     # the name is looked at while a macro name follows it: no invocation in C
            out.append((t, hs))
            ts = rest
            continue
        # collect actuals
        depth, args, cur = 0, [], []
        j = k + 1
        close_hs = None
        while j < len(rest):
            x, xh = rest[j]
            if x == "(":
                depth += 1
                cur.append(rest[j])
            elif x == ")":
                if depth == 0:
                    close_hs = xh
                    break
                depth -= 1
                cur.append(rest[j])
            elif x == "," and depth == 0:
                args.append(cur)
                cur = []
            else:
                cur.append(rest[j])
            j += 1
        if close_hs is None:
            raise RefError("MacroArgumentsNeverEnd")
        args.append(cur)
        args = [trim(a) for a in args]
        n = len(m.params)
        if n == 0:
            if not (len(args) == 1 and len(args[0]) == 0):
                raise RefError("MacroExpectsDifferentNumberOfArguments")
            args = []
        elif len(args) != n:
            raise RefError("MacroExpectsDifferentNumberOfArguments")
        try:
            sub = subst(m, args, (hs & close_hs) | {t}, macros, budget)
        except Outside:
            if PROBE[0] > 0:
                out.append((t, hs))
                ts = rest
                continue
            raise
        ts = sub + rest[j + 1:]
    return out


def trim(a):
    a = list(a)
    while a and a[0][0] == "~":
        a = a[1:]
    while a and a[-1][0] == "~":
        a = a[:-1]
    return a


# When set, every actual argument is expanded whether the replacement list uses it or not, as the preprocessor under
# test does: an error inside an argument that C never looks at (a failing paste, a wrong argument count) then shows
EAGER = [False]
PROBE = [0]


def subst(m, args, hs, macros, budget):
    body = m.body
    params = m.params or []
    if EAGER[0]:
        # the expansion of an argument is only looked at for the errors and flags it raises; an invocation in it that
        # leaves the reference's subset is stepped over (its own arguments are then scanned like the rest)
        for a in args:
            PROBE[0] += 1
            try:
                expand(list(a), macros, budget)
            finally:
                PROBE[0] -= 1
    res = []
    i = 0
    n = len(body)

    def nb_next(i):
        j = i + 1
        while j < n and is_ws(body[j]):
            j += 1
        return j

    def actual(tok):
        return args[params.index(tok)] if tok in params else None

    def operand(tok):
        a = actual(tok)
        if a is None:
            if tok in macros:
                raise Outside("## operand is a macro name")
            return [(tok, frozenset())]
        for x, _ in a:
            if is_id(x) and x in macros:
                raise Outside("## operand contains a macro name")
        return list(a)

    while i < n:
        t = body[i]
        if t == "#":
            raise Outside("# stringification")
        j = nb_next(i)
        if t != "##" and not is_ws(t) and j < n and body[j] == "##":
            # t ## u [## v ...]
            left = operand(t)
            while j < n and body[j] == "##":
                k = nb_next(j)
                if k >= n:
                    raise RefError("ConcatMissingRightToken")
                right = operand(body[k])
                lnb = [x for x in left if not is_ws(x[0])]
                rnb = [x for x in right if not is_ws(x[0])]
                if not lnb or not rnb:
                    # C: a placemarker; the other operand is the result
                    budget[1] = True
                    left = left + right if lnb or rnb else []
                    j = nb_next(k)
                    i = k
                    continue
                # glue the last token of left with the first of right
                li = max(idx for idx, x in enumerate(left) if not is_ws(x[0]))
                ri = min(idx for idx, x in enumerate(right) if not is_ws(x[0]))
                glued = left[li][0] + right[ri][0]
                if not single_token(glued):
                    raise RefError("ConcatFailed")
                if is_id(glued) and glued in macros:
                    pass   # the pasted token may name a macro: it is rescanned, as in C
                left = left[:li] + [(glued, left[li][1] & right[ri][1])] + right[ri + 1:]
                j = nb_next(k)
                i = k
            res += left
            i += 1
            continue
        if t == "##":
            raise RefError("ConcatMissingLeftToken")
        a = actual(t)
        if a is not None:
            res += expand(a, macros, budget)
        else:
            res.append((t, frozenset()))
        i += 1
    return [(x, h | hs) for x, h in res]


# punctuation that is one token when glued (the lexer's multi-character symbols)
_PUNCT = {"++", "--", "<<", ">>", "<=", ">=", "==", "!=", "&&", "||", "+=", "-=", "*=", "/=", "%=", "&=", "|=", "^=", "<<=", ">>=", "::", "##"}


def single_token(s):
    return re.match(r"^([A-Za-z_]\w*|\d+)$", s) is not None or s in _PUNCT


def run_case_eager(case):
    EAGER[0] = True
    try:
        return run_case(case)
    finally:
        EAGER[0] = False


def run_case(case):
    parts = [p.split() for p in case.split(";")]
    parts = [p for p in parts if p]
    files, api, cur = {}, [], None
    order = []
    for p in parts:
        if p[0] == "A":
            api.append(("D", ["~", p[1], "~"] + p[2:]))
        elif p[0] == "F":
            cur = p[1]
            files[cur] = []
            order.append(cur)
        else:
            files[cur].append((p[0], p[1:]))
    macros, once, out = {}, set(), []
    budget = [200000, False, False, False]

    def flush(block):
        if block:
            out.extend(t for t, _ in expand([(t, frozenset()) for t in block], macros, budget))

    def run(name, depth):
        if depth > 40:
            raise RefError("include depth")
        if name not in files:
            raise RefError("FailedToFindFile")
        if name in once:
            return
        block = []
        for kind, ws in files[name]:
            if kind == "T":
                block += ws
                continue
            flush(block)
            block = []
            if kind == "D":
                m = parse_define(ws)
                macros.pop(m.name, None)
                macros[m.name] = m
            elif kind == "U":
                macros.pop(ws[0], None)
            elif kind == "O":
                once.add(name)
            elif kind == "I":
                run(ws[0], depth + 1)
        flush(block)

    try:
        for kind, ws in api:
            m = parse_define(ws)
            macros.pop(m.name, None)
            macros[m.name] = m
        run(order[0], 0)
    except Outside as e:
        return ("outside", str(e))
    except RefError as e:
        return ("err", str(e), budget[1], budget[2], budget[3])
    return ("ok", [t for t in out if not is_ws(t)], budget[1], budget[2], budget[3])


def paste_case(case):
    """The case with every I item replaced by the items of the included file (a #pragma once file only the
    first time), as one file; None when a file is missing or the nesting is too deep."""
    parts = [p.split() for p in case.split(";")]
    parts = [p for p in parts if p]
    files, order, api, cur = {}, [], [], None
    for p in parts:
        if p[0] == "A":
            api.append(p)
        elif p[0] == "F":
            cur = p[1]
            files[cur] = []
            order.append(cur)
        else:
            files[cur].append(p)
    once, out = set(), []

    def go(name, depth):
        if depth > 40 or name not in files:
            return False
        if name in once:
            return True
        for p in files[name]:
            if p[0] == "I":
                if not go(p[1], depth + 1):
                    return False
            elif p[0] == "O":
                once.add(name)
            else:
                out.append(p)
        return True

    if not order or not go(order[0], 0):
        return None
    return " ; ".join(" ".join(p) for p in api + [["F", order[0]]] + out)


def program_facts(case):
    """(has_cycle, malformed): a macro that can reach itself through replacement lists; an invocation-shaped
    token run `name (` of a function-like macro with the wrong number of arguments or no closing parenthesis."""
    parts = [p.split() for p in case.split(";")]
    parts = [p for p in parts if p]
    defs = []
    seqs = []
    for p in parts:
        if p[0] == "A":
            seqs.append(p[2:])
            defs.append(Macro(p[1], None, p[2:]))
        elif p[0] == "D":
            try:
                m = parse_define(p[1:])
                defs.append(m)
                seqs.append(m.body)
            except RefError:
                pass
        elif p[0] == "T":
            if seqs and seqs[-1] is not None and getattr(seqs[-1], "is_text", False):
                seqs[-1].extend(p[1:])
            else:
                s = TextSeq(p[1:])
                seqs.append(s)
        if p[0] != "T":
            seqs.append(None)
    seqs = [s for s in seqs if s is not None]
    names = {}
    for m in defs:
        names.setdefault(m.name, []).append(m)
    # cycle
    edges = {n: set() for n in names}
    for m in defs:
        for t in m.body:
            if t in names:
                edges[m.name].add(t)
    has_cycle = False
    for n in names:
        seen, stack = set(), list(edges[n])
        while stack:
            x = stack.pop()
            if x == n:
                has_cycle = True
                break
            if x not in seen:
                seen.add(x)
                stack.extend(edges[x])
    malformed = False
    for s in seqs:
        s = list(s)
        for i, t in enumerate(s):
            if t in names and any(m.params is not None for m in names[t]):
                j = i + 1
                while j < len(s) and s[j] == "~":
                    j += 1
                if j < len(s) and s[j] == "(":
                    depth, nargs, k, closed, empty = 0, 1, j + 1, False, True
                    while k < len(s):
                        if s[k] == "(":
                            depth += 1
                        elif s[k] == ")":
                            if depth == 0:
                                closed = True
                                break
                            depth -= 1
                        elif s[k] == "," and depth == 0:
                            nargs += 1
                        if s[k] not in ("~",):
                            empty = False
                        k += 1
                    if not closed:
                        malformed = True
                    else:
                        for m in names[t]:
                            if m.params is None:
                                continue
                            n = len(m.params)
                            if not ((n == 0 and nargs == 1 and empty) or (n > 0 and nargs == n)):
                                malformed = True
    return has_cycle, malformed


class TextSeq(list):
    is_text = True
