#!/bin/sh
# run every registered check at one tier and show only what needs attention plus the summary lines
tier=${1:-quick}
cd "$(dirname "$0")/.."
for i in 01 02 03 04 05 06 07 08 09 10 11 12 13 14 15 16 17 18 19; do
  ./check C$i --tier $tier > .cache/runall_C$i.log 2>&1; rc=$?
  grep -E "VIOLATION|broken|Traceback|Error" .cache/runall_C$i.log | cut -c1-300
  echo "rc=$rc $(grep '^\[check\] C' .cache/runall_C$i.log | tail -1)"
done
