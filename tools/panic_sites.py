"""Inventory of the places where the compiler can abort instead of returning an error (C08).

For every non-test source file of the workspace and every function in it: the number of `panic!`, `todo!`,
`unimplemented!`, `unreachable!`, `assert!` / `assert_eq!` / `assert_ne!`, `.unwrap()` and `.expect(..)` sites.
(`debug_assert*` is counted with the asserts: the checks run on debug builds.)  Rows are (file, function, kind, count).
The inventory is regenerated from the sources on every run and compared with the reviewed table in coq/props/C08.v; a
function that gains or loses a site needs a review (is the new site reachable from source text?)."""
import os
import re
import sys

sys.path.insert(0, os.path.dirname(os.path.abspath(__file__)))
from rsparse import strip_comments  # noqa
from inventory import rust_files, functions, enclosing, REPO  # noqa

KINDS = [
    ("panic", r"\bpanic!\s*\("),
    ("todo", r"\b(?:todo|unimplemented)!\s*\("),
    ("unreachable", r"\bunreachable!\s*\("),
    ("assert", r"\b(?:debug_)?assert(?:_eq|_ne)?!\s*\("),
    ("unwrap", r"\.\s*unwrap\s*\(\s*\)"),
    ("expect", r"\.\s*expect\s*\("),
]


def strip_strings(src):
    # string literals can contain the words; blank their contents
    return re.sub(r'"(?:[^"\\]|\\.)*"', lambda m: '"' + " " * (len(m.group(0)) - 2) + '"', src)


def sites():
    rows = {}
    for path in rust_files():
        src = strip_comments(open(path, encoding="utf-8").read())
        src = re.split(r"#\[cfg\(test\)\]", src)[0]
        src = strip_strings(src)
        funcs = functions(src)
        rel = os.path.relpath(path, REPO)
        for kind, pat in KINDS:
            for m in re.finditer(pat, src):
                fn = enclosing(funcs, m.start())
                key = (rel, fn[0] if fn else "?", kind)
                rows[key] = rows.get(key, 0) + 1
    return sorted((f, fn, k, n) for (f, fn, k), n in rows.items())


if __name__ == "__main__":
    rs = sites()
    tot = {}
    for f, fn, k, n in rs:
        tot[k] = tot.get(k, 0) + n
    print(len(rs), "rows", tot)
    if len(sys.argv) > 1:
        for r in rs:
            print(r)
