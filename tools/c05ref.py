"""C05 oracle: cross-check the reflection metadata against the text a pipeline was emitted as."""
import re

DTYPE_OF_HLSL = {
    "ConstantBuffer": "ConstantBuffer", "ByteAddressBuffer": "ByteBuffer", "RWByteAddressBuffer": "RwByteBuffer",
    "StructuredBuffer": "StructuredBuffer", "RWStructuredBuffer": "RwStructuredBuffer", "Buffer": "TexelBuffer",
    "RWBuffer": "RwTexelBuffer", "Texture2D": "Texture2d", "Texture2DArray": "Texture2dArray", "RWTexture2D": "RwTexture2d",
    "RWTexture2DArray": "RwTexture2dArray", "TextureCube": "TextureCube", "TextureCubeArray": "TextureCubeArray",
    "Texture3D": "Texture3d", "RWTexture3D": "RwTexture3d", "RaytracingAccelerationStructure": "RaytracingAccelerationStructure",
    "SamplerState": "SamplerState", "SamplerComparisonState": "SamplerComparisonState",
}
REG_CLASS = {"t": ("ByteBuffer", "StructuredBuffer", "TexelBuffer", "Texture2d", "Texture2dArray", "TextureCube", "TextureCubeArray",
                   "Texture3d", "RaytracingAccelerationStructure", "BufferAddress"),
             "u": ("RwByteBuffer", "RwStructuredBuffer", "RwTexelBuffer", "RwTexture2d", "RwTexture2dArray", "RwTexture3d", "RwBufferAddress"),
             "s": ("SamplerState", "SamplerComparisonState"), "b": ("ConstantBuffer", "PushConstants")}


def parse_metadata(text):
    """[{group, name, loc:('Index'|'InlineConstant', n), type, count, bindless, used, static}] and per-group inline info."""
    groups = []
    # split bind groups
    body = text[text.index("bind_groups: [") + len("bind_groups: ["):]
    entries = []
    gi = -1
    inline = {}
    for m in re.finditer(r"BindGroup \{ bindings: \[|DescriptorBinding \{ name: \"([^\"]*)\", api_binding: (Index|InlineConstant)\((\d+)\), descriptor_type: (\w+), descriptor_count: (None|Some\((\d+)\)), is_bindless: (true|false), is_used: (true|false), static_sampler: (None|Some)|inline_constants: (None|Some\(InlineConstantBuffer \{ api_location: (\d+), size_in_bytes: (\d+) \}\))", body):
        t = m.group(0)
        if t.startswith("BindGroup"):
            gi += 1
        elif t.startswith("DescriptorBinding"):
            entries.append(dict(group=gi, name=m.group(1), loc=(m.group(2), int(m.group(3))), type=m.group(4),
                                count=None if m.group(5) == "None" else int(m.group(6)), bindless=m.group(7) == "true",
                                used=m.group(8) == "true", static=m.group(9) == "Some"))
        else:
            if m.group(10) != "None":
                inline[gi] = (int(m.group(11)), int(m.group(12)))
    return entries, inline, gi + 1


def parse_hlsl(text):
    """externally bound declarations of an HLSL text: name -> dict(group, kind ('register'|'vk'|'inline'|'none'), slot, cls, type, count)"""
    decls = {}
    inline_structs = {}
    lines = text.split("\n")
    i = 0
    cur_struct = None
    depth = 0
    while i < len(lines):
        ln = lines[i].strip()
        if depth == 0:
            m = re.match(r"^struct (InlineDescriptor(\d+))$", ln)
            if m:
                cur_struct = int(m.group(2))
                inline_structs[cur_struct] = []
            m = re.match(r"^(\[\[vk::binding\((\d+)(?:, (\d+))?\)\]\] )?cbuffer (\w+)(?: : register\(b(\d+)(?:, space(\d+))?\))?$", ln)
            if m:
                if m.group(1):
                    decls[m.group(4)] = dict(kind="vk", slot=int(m.group(2)), group=int(m.group(3) or 0), type="ConstantBuffer", count=1, cls=None)
                elif m.group(5) is not None:
                    decls[m.group(4)] = dict(kind="register", slot=int(m.group(5)), group=int(m.group(6) or 0), type="ConstantBuffer", count=1, cls="b")
                else:
                    decls[m.group(4)] = dict(kind="none", slot=None, group=None, type="ConstantBuffer", count=1, cls=None)
            m = re.match(r"^(\[\[vk::binding\((\d+)(?:, (\d+))?\)\]\] )?((?:const |extern |static |groupshared )*)([A-Za-z_]\w*)(<[^;]*?>)? (\w+)(?:\[(\d*)\])?(?: : register\((\w)(\d+)(?:, space(\d+))?\))?( = [^;]*)?;$", ln)
            if m and not ln.startswith("return") and "(" not in m.group(7):
                vk, storage, ty, targs, name, arr, cls, slot, space, init = m.group(1), m.group(4), m.group(5), m.group(6), m.group(7), m.group(8), m.group(9), m.group(10), m.group(11), m.group(12)
                dtype = DTYPE_OF_HLSL.get(ty)
                count = None if arr == "" else (int(arr) if arr else 1)
                if "static" in storage or "groupshared" in storage:
                    if init and "g_inlineDescriptor" in init:
                        mm = re.match(r" = g_inlineDescriptor(\d+)\.(\w+)", init)
                        decls[name] = dict(kind="inline", slot=None, group=int(mm.group(1)), type="uint64_t", count=1, cls=None, member=mm.group(2))
                elif vk:
                    decls[name] = dict(kind="vk", slot=int(m.group(2)), group=int(m.group(3) or 0), type=dtype or ty, count=count, cls=None)
                elif cls:
                    decls[name] = dict(kind="register", slot=int(slot), group=int(space or 0), type=dtype or ty, count=count, cls=cls)
                elif dtype is not None or ty in ("uint", "uint64_t", "float", "int"):
                    decls[name] = dict(kind="none", slot=None, group=None, type=dtype or ty, count=count, cls=None)
        else:
            if cur_struct is not None:
                m = re.match(r"^\[\[vk::offset\((\d+)\)\]\] uint64_t (\w+);$", ln)
                if m:
                    inline_structs[cur_struct].append((m.group(2), int(m.group(1))))
        depth += ln.count("{") - ln.count("}")
        if depth == 0 and ln.startswith("}"):
            cur_struct = None
        i += 1
    return decls, inline_structs


def parse_msl(text):
    """argument buffer members: name -> (group, id, count, type text)"""
    out = {}
    for m in re.finditer(r"struct ArgumentBuffer(\d+)\n\{\n((?:[^\n]*\n)*?)\};", text):
        g = int(m.group(1))
        for ln in m.group(2).split("\n"):
            mm = re.match(r"^\s*\[\[id\((\d+)\)\]\] (.*?)\s*(\w+);$", ln)
            if mm:
                ty = mm.group(2)
                arr = re.search(r"metal::array<.*, (\d+)>", ty)
                out[mm.group(3)] = (g, int(mm.group(1)), int(arr.group(1)) if arr else 1, ty)
    return out


def msl_kinds(ty):
    """descriptor types a Metal argument buffer member of this declared type can stand for (None: not interpreted)"""
    t = re.sub(r"\bconst\b", "", ty)
    m = re.search(r"metal::array<(.*), \d+>", t)
    if m:
        t = m.group(1)
    t = t.strip().rstrip("&").strip()
    rw = "metal::access::read_write" in t
    for head, ro, wr in (("metal::texture_buffer<", "TexelBuffer", "RwTexelBuffer"), ("metal::texture2d_array<", "Texture2dArray", "RwTexture2dArray"),
                         ("metal::texture2d<", "Texture2d", "RwTexture2d"), ("metal::texturecube_array<", "TextureCubeArray", None),
                         ("metal::texturecube<", "TextureCube", None), ("metal::texture3d<", "Texture3d", "RwTexture3d")):
        if t.startswith(head):
            return {wr if rw else ro}
    if t.startswith("helper::ByteAddressBuffer"):
        return {"ByteBuffer", "BufferAddress"}
    if t.startswith("helper::RWByteAddressBuffer"):
        return {"RwByteBuffer", "RwBufferAddress"}
    if t.startswith("helper::StructuredBuffer<"):
        return {"StructuredBuffer"}
    if t.startswith("helper::RWStructuredBuffer<"):
        return {"RwStructuredBuffer"}
    if t.startswith("metal::sampler"):
        return {"SamplerState", "SamplerComparisonState"}
    if t.startswith("metal::raytracing::instance_acceleration_structure"):
        return {"RaytracingAccelerationStructure"}
    if t.startswith("constant "):
        return {"ConstantBuffer"}
    return None


def functions_defined(text):
    return set(re.findall(r"^\s*(?:\[\[[^\]]*\]\]\s*)*[\w:<>,\s\*&]+?\b(\w+)\s*\([^;{]*\)\s*(?::\s*\w+\s*)?\{", text, re.M))


RENAMED = ["vector", "matrix", "fragment", "device", "constant", "thread", "kernel", "vertex"]


def _gname(entry, i, decl_word, prev_word=""):
    """the declared name of global i (harness/src/c05.rs gname)"""
    if entry.endswith("+R") and i < len(RENAMED) and decl_word.startswith("o:"):
        return RENAMED[i]
    if entry.endswith("+N") and i % 2 == 1 and decl_word.startswith("o:") and prev_word.startswith("o:"):
        return "g%d" % (i - 1)
    return "g%d" % i


def _program_tg(entry, kind, tg):
    """the numthreads the generated program gives the stage (harness/src/c05.rs render)"""
    if entry.split("+")[0] == "TASKMESH" and kind == "Mesh":
        return (32, 1, 1)
    return tg


def check(case, impl):
    """None or a message."""
    w = case.split()
    target = w[0]
    mode = w[2]
    entry, tg = w[3], (int(w[4]), int(w[5]), int(w[6]))
    uses = set(int(x) for x in w[7][1:].split(",") if x)
    huses = set(int(x) for x in w[8][1:].split(",") if x)
    decl_words = w[9:]
    if not impl.startswith("OK ;; "):
        return None
    pipes = impl[6:].split(" ## ")
    for pi, p in enumerate(pipes):
        parts = p.split(" ;; ")
        if len(parts) != 3:
            return "unreadable result"
        text, meta, stages = parts[0].replace("\\n", "\n"), parts[1], parts[2]
        entries, inline, ngroups = parse_metadata(meta)
        names = [e["name"] for e in entries]
        if len(set(names)) != len(names):
            return "metadata lists a binding name twice: %r" % names
        # the namespace style gives two declarations one leaf name: what is reflected under that name cannot be
        # attributed to one of them, so those names are left out of the per-name rules
        all_names = [_gname(entry, k, w_, decl_words[k - 1] if k > 0 else "") for k, w_ in enumerate(decl_words)]
        shared = set(n for n in all_names if all_names.count(n) > 1)
        entries = [e for e in entries if e["name"] not in shared]
        by_name = dict((e["name"], e) for e in entries)
        is_main = not (mode == "all" and pi == 1)
        # the bindless flag: the program marks a resource array [[rssl::bindless]] exactly when it has 16 or more
        # elements or no bound (harness/src/c05.rs render); the emitted declaration keeps the array, the flag says how
        # it is bound
        for k, dw in enumerate(decl_words):
            f = dw.split(",")
            if len(f) != 5 or not f[0].startswith("o:"):
                continue
            e = by_name.get(all_names[k])
            if e is None or all_names[k] in shared:
                continue
            want_bindless = f[1] != "-" and (int(f[1]) >= 16 or int(f[1]) == 0)
            if e["bindless"] != want_bindless:
                return "%s is declared %s [[rssl::bindless]] (array length %s) but reported is_bindless=%s" % (all_names[k], "with" if want_bindless else "without", f[1], str(e["bindless"]).lower())
        if target.startswith("Hlsl"):
            decls, istructs = parse_hlsl(text)
            decls = dict((k, v) for k, v in decls.items() if k not in shared)
            for name, d in decls.items():
                if d["kind"] == "none":
                    if d["type"] in DTYPE_OF_HLSL.values() and name in by_name:
                        return "%s has a metadata entry but no binding annotation in the source" % name
                    if d["type"] in DTYPE_OF_HLSL.values() and not name.startswith("g_inline"):
                        return "resource %s is declared in the source without a binding annotation and without a metadata entry" % name
                    continue
                e = by_name.get(name)
                if d["kind"] == "inline":
                    if e is None:
                        return "inline constant %s has no metadata entry" % name
                    off = dict(istructs.get(d["group"], [])).get(d["member"])
                    if e["loc"] != ("InlineConstant", off) or e["group"] != d["group"]:
                        return "%s: metadata says group %d %s, the source reads g_inlineDescriptor%d.%s at offset %s" % (name, e["group"], e["loc"], d["group"], d["member"], off)
                    continue
                if name.startswith("g_inlineDescriptor"):
                    g = int(name[len("g_inlineDescriptor"):])
                    if g not in inline or inline[g][0] != d["slot"] or d["group"] != g:
                        return "inline descriptor buffer of group %d is bound at %s in the source, metadata says %s" % (g, d["slot"], inline.get(g))
                    size = 8 * len(istructs.get(g, []))
                    if inline[g][1] != size:
                        return "inline descriptor buffer of group %d has %d bytes of members, metadata says %d" % (g, size, inline[g][1])
                    continue
                if e is None:
                    return "declaration %s is bound in the source (%s %s, group %s) but has no metadata entry" % (name, d["kind"], d["slot"], d["group"])
                if e["loc"] != ("Index", d["slot"]) or e["group"] != d["group"]:
                    return "%s: metadata says group %d %s, the source says group %d slot %d" % (name, e["group"], e["loc"], d["group"], d["slot"])
                want_type = d["type"]
                if want_type == "uint64_t":
                    want_type = e["type"] if e["type"] in ("BufferAddress", "RwBufferAddress") else "uint64_t"
                mtype = e["type"]
                if mtype in ("BufferAddress", "RwBufferAddress") and d["type"] in ("ByteBuffer", "RwByteBuffer"):
                    want_type = mtype     # buffer addresses are lowered to byte buffers when addresses are off
                if mtype == "PushConstants":
                    want_type = mtype
                if mtype != want_type:
                    return "%s: metadata type %s, declared type %s" % (name, mtype, d["type"])
                if e["count"] != d["count"]:
                    return "%s: metadata count %s, declared array size %s" % (name, e["count"], d["count"])
                if d["cls"] and mtype not in REG_CLASS.get(d["cls"], ()):
                    return "%s: register class %s does not fit descriptor type %s" % (name, d["cls"], mtype)
            for e in entries:
                if e["name"] not in decls:
                    return "metadata entry %s has no declaration in the source" % e["name"]
            # stages
            if stages:
                defined = functions_defined(text)
                for st in re.split(r",(?=\w+/)", stages):
                    kind, fname, size = st.split("/", 2)
                    if fname not in defined:
                        return "stage %s names entry point %r, which the source does not define (defined: %s)" % (kind, fname, sorted(defined)[:8])
                    if is_main and kind in ("Compute", "Mesh", "Task"):
                        # the numthreads attribute in front of the entry point (other attributes may stand between)
                        m = re.search(r"\[numthreads\((\d+), (\d+), (\d+)\)\]\s*(?:\[[^\]]*\]\s*)*void %s\(" % re.escape(fname), text)
                        if not m:
                            return "entry point %s has no numthreads attribute in the source" % fname
                        got = tuple(int(x) for x in m.groups())
                        want = re.match(r"Some\(\((\d+), (\d+), (\d+)\)\)", size)
                        if not want or tuple(int(x) for x in want.groups()) != got:
                            return "stage %s reports thread group size %s, the source says %s" % (kind, size, got)
                        if got != _program_tg(entry, kind, tg):
                            return "thread group size %s of stage %s does not match the program's %s" % (got, kind, _program_tg(entry, kind, tg))
        else:
            members = parse_msl(text)
            members = dict((k, v) for k, v in members.items() if k not in shared)
            for name, (g, idx, cnt, ty) in members.items():
                e = by_name.get(name)
                if e is None:
                    return "argument buffer member %s has no metadata entry" % name
                if e["group"] != g or e["loc"] != ("Index", idx):
                    return "%s: metadata says group %d %s, the source says ArgumentBuffer%d [[id(%d)]]" % (name, e["group"], e["loc"], g, idx)
                if e["count"] != cnt:
                    return "%s: metadata count %s, source array size %s" % (name, e["count"], cnt)
                kinds = msl_kinds(ty)
                if kinds is not None and e["type"] not in kinds:
                    return "%s: metadata says %s, the argument buffer member is declared `%s`" % (name, e["type"], ty)
            for e in entries:
                if mode == "nopipe":
                    break    # without a pipeline Metal emits no argument buffers at all
                if e["name"] not in members and not e["static"]:
                    return "metadata entry %s is not a member of an argument buffer" % e["name"]
            # usage: reachable from the entry point <=> reported used (Metal)
            if is_main and mode != "nopipe":
                reach = uses | huses
                all_names = [_gname(entry, k, w_, decl_words[k - 1] if k > 0 else "") for k, w_ in enumerate(decl_words)]
                for i, dw in enumerate(decl_words):
                    nm = all_names[i]
                    if all_names.count(nm) > 1:
                        continue     # two declarations share the reflected name: the entry cannot be attributed
                    if nm in by_name:
                        if (i in reach) != by_name[nm]["used"]:
                            return "%s is %s by the entry point but reported is_used=%s" % (nm, "reached" if i in reach else "not reached", by_name[nm]["used"])
            # Metal has no numthreads in the text: the reported size of every thread-group stage is the program's
            if stages and is_main:
                for st in re.split(r",(?=\w+/)", stages):
                    kind, fname, size = st.split("/", 2)
                    if kind in ("Compute", "Mesh", "Task"):
                        want = _program_tg(entry, kind, tg)
                        m = re.match(r"Some\(\((\d+), (\d+), (\d+)\)\)", size)
                        if not m or tuple(int(x) for x in m.groups()) != want:
                            return "stage %s reports thread group size %s, the program declares numthreads%s" % (kind, size, want)
    return None
