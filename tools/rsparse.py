"""Small helpers to pull tabular facts out of Rust sources.

This is deliberately not a Rust front end: comment/string-aware brace matching
plus regular expressions.  Every extractor built on it names the item it reads
and raises ExtractError when the item is missing or an arm does not match the
expected shape, so a silent mis-extraction is not possible; a failed
extraction is reported by `check` as a broken tie.
"""
import re


class ExtractError(Exception):
    pass


def strip_comments(src: str) -> str:
    """Remove // and /* */ comments, keep string/char literals intact, keep newlines."""
    out = []
    i, n = 0, len(src)
    while i < n:
        c = src[i]
        if src.startswith("//", i):
            j = src.find("\n", i)
            if j < 0:
                j = n
            i = j
        elif src.startswith("/*", i):
            depth, j = 1, i + 2
            while j < n and depth:
                if src.startswith("/*", j):
                    depth += 1
                    j += 2
                elif src.startswith("*/", j):
                    depth -= 1
                    j += 2
                else:
                    if src[j] == "\n":
                        out.append("\n")
                    j += 1
            i = j
        elif c == '"':
            j = i + 1
            while j < n and src[j] != '"':
                j += 2 if src[j] == "\\" else 1
            out.append(src[i:j + 1])
            i = j + 1
        elif c == "'" :
            # char literal or lifetime
            m = re.match(r"'(\\.[^']*|[^'\\])'", src[i:])
            if m:
                out.append(m.group(0))
                i += len(m.group(0))
            else:
                out.append(c)
                i += 1
        elif c == "r" and re.match(r'r#*"', src[i:]):
            m = re.match(r'r(#*)"', src[i:])
            close = '"' + m.group(1)
            j = src.find(close, i + len(m.group(0)))
            if j < 0:
                j = n
            out.append(src[i:j + len(close)])
            i = j + len(close)
        else:
            out.append(c)
            i += 1
    return "".join(out)


def match_close(src: str, i: int, open_c="{", close_c="}") -> int:
    """src[i] == open_c; return index of the matching close (string aware)."""
    assert src[i] == open_c, (src[i:i + 20], open_c)
    depth, n = 0, len(src)
    j = i
    while j < n:
        c = src[j]
        if c == '"':
            j += 1
            while j < n and src[j] != '"':
                j += 2 if src[j] == "\\" else 1
        elif c == "'":
            m = re.match(r"'(\\.[^']*|[^'\\])'", src[j:])
            if m:
                j += len(m.group(0)) - 1
        elif c == open_c:
            depth += 1
        elif c == close_c:
            depth -= 1
            if depth == 0:
                return j
        j += 1
    raise ExtractError("unbalanced %s at %d" % (open_c, i))


def read(path: str) -> str:
    with open(path, encoding="utf-8") as f:
        return strip_comments(f.read())


def block_after(src: str, pattern: str, what: str, start: int = 0):
    """Find regex `pattern` (from `start`), then the first `{` after it; return (body, end_index)."""
    m = re.compile(pattern).search(src, start)
    if not m:
        raise ExtractError("cannot find %s (pattern %r)" % (what, pattern))
    i = src.find("{", m.end() - 1)
    if i < 0:
        raise ExtractError("no block after %s" % what)
    j = match_close(src, i)
    return src[i + 1:j], j


def fn_body(src: str, name: str, start: int = 0) -> str:
    body, _ = block_after(src, r"\bfn\s+%s\s*(<[^>]*>)?\s*\(" % re.escape(name), "fn " + name, start)
    return body


def impl_fn_body(src: str, impl_pat: str, name: str) -> str:
    body, _ = block_after(src, impl_pat, "impl " + impl_pat)
    return fn_body(body, name)


def enum_variants(src: str, name: str):
    """Variant names of `enum name { ... }` in order, with a flag for payload-carrying ones."""
    body, _ = block_after(src, r"\benum\s+%s\b" % re.escape(name), "enum " + name)
    out = []
    i, n = 0, len(body)
    while i < n:
        m = re.compile(r"\s*(#\[[^\]]*\]\s*)*([A-Za-z_][A-Za-z0-9_]*)").match(body, i)
        if not m:
            break
        v = m.group(2)
        i = m.end()
        payload = False
        while i < n and body[i].isspace():
            i += 1
        if i < n and body[i] == "(":
            i = match_close(body, i, "(", ")") + 1
            payload = True
        elif i < n and body[i] == "{":
            i = match_close(body, i) + 1
            payload = True
        # optional discriminant
        while i < n and body[i] not in ",":
            i += 1
        i += 1
        out.append((v, payload))
    if not out:
        raise ExtractError("enum %s has no variants" % name)
    return out


def split_top(s: str, sep: str = ","):
    """Split on `sep` at nesting depth 0 of () [] {} (string aware)."""
    out, depth, cur, i, n = [], 0, [], 0, len(s)
    while i < n:
        c = s[i]
        if c == '"':
            j = i + 1
            while j < n and s[j] != '"':
                j += 2 if s[j] == "\\" else 1
            cur.append(s[i:j + 1])
            i = j + 1
            continue
        if c == "'":
            m = re.match(r"'(\\.[^']*|[^'\\])'", s[i:])
            if m:
                cur.append(m.group(0))
                i += len(m.group(0))
                continue
        if c in "([{":
            depth += 1
        elif c in ")]}":
            depth -= 1
        if depth == 0 and s.startswith(sep, i):
            out.append("".join(cur))
            cur = []
            i += len(sep)
            continue
        cur.append(c)
        i += 1
    tail = "".join(cur)
    if tail.strip():
        out.append(tail)
    return out


def match_arms(body: str):
    """Arms of the (first-level) contents of a `match x { ... }` body: list of (pattern, expr)."""
    arms = []
    i, n = 0, len(body)
    while i < n:
        # pattern up to top-level =>
        depth, j = 0, i
        while j < n:
            c = body[j]
            if c == '"':
                j += 1
                while j < n and body[j] != '"':
                    j += 2 if body[j] == "\\" else 1
            elif c == "'":
                m = re.match(r"'(\\.[^']*|[^'\\])'", body[j:])
                if m:
                    j += len(m.group(0)) - 1
            elif c in "([{":
                depth += 1
            elif c in ")]}":
                depth -= 1
            elif depth == 0 and body.startswith("=>", j):
                break
            j += 1
        if j >= n:
            if body[i:].strip():
                raise ExtractError("dangling match arm text: %r" % body[i:i + 60])
            break
        pat = body[i:j].strip()
        j += 2
        while j < n and body[j].isspace():
            j += 1
        if j < n and body[j] == "{":
            k = match_close(body, j)
            expr = body[j:k + 1]
            k += 1
            while k < n and body[k].isspace():
                k += 1
            if k < n and body[k] == ",":
                k += 1
        else:
            depth, k = 0, j
            while k < n:
                c = body[k]
                if c == '"':
                    k += 1
                    while k < n and body[k] != '"':
                        k += 2 if body[k] == "\\" else 1
                elif c == "'":
                    m = re.match(r"'(\\.[^']*|[^'\\])'", body[k:])
                    if m:
                        k += len(m.group(0)) - 1
                elif c in "([{":
                    depth += 1
                elif c in ")]}":
                    depth -= 1
                elif depth == 0 and c == ",":
                    break
                k += 1
            expr = body[j:k]
            k += 1
        arms.append((pat, expr.strip()))
        i = k
    return arms


def match_block(src: str, head_pattern: str, what: str, start: int = 0):
    """Find `match <head> {` by regex and return its arms."""
    body, _ = block_after(src, r"\bmatch\s+" + head_pattern + r"\s*\{", what, start)
    return match_arms(body)


def pattern_alternatives(pat: str):
    """Split an or-pattern `A | B(_) | C` (dropping one outer pair of parens and any `if` guard).
    Returns (alternatives, guard or None)."""
    guard = None
    m = re.search(r"\)\s*if\s+(.*)$", pat, re.S)
    g2 = re.search(r"\sif\s+(.*)$", pat, re.S)
    if g2:
        guard = g2.group(1).strip()
        pat = pat[:g2.start()]
    pat = pat.strip()
    alts = [a.strip() for a in split_top(pat, "|")]
    return [a for a in alts if a], guard


def coq_ident(s: str) -> str:
    return re.sub(r"[^A-Za-z0-9_]", "_", s)


def coq_string(s: str) -> str:
    return '"' + s.replace('"', '""') + '"'
