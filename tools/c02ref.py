"""C02 oracle: the Metal text is the HLSL text (validated against the typed IR by C01) under the transformation the
property describes, and nothing else.

Both texts are tokenised and walked in step.  A difference is accepted only where one of the rules below explains it,
and every rule is checked against facts computed from the IR by the harness (harness/src/c02.rs), not against the
exporter:

  names      `metal::name` for an intrinsic (with the renames read from the two exporters' tables), `constant` for
             `static const`; loop / branch attributes of HLSL have no Metal counterpart
  globals    the declaration of a threaded global (anything but a static const) is absent from the Metal text; every
             function that needs threaded globals (transitively; computed from the IR) takes exactly those, in order,
             as trailing reference parameters; every call passes exactly the callee's, in order, after its arguments,
             and every argument position of the callee is filled (a skipped default argument would shift them)
  out/inout  such parameters become `thread T&`; a function with out / inout parameters that is called somewhere is
             emitted twice: its body under a tagged overload (`metal::true_type`), and a trampoline of a fixed shape
             that copies in (inout), calls the tagged overload, copies out in parameter order and returns the value
check(case, impl) returns None or a message."""
import os
import re

TOKEN = re.compile(r"\s+|//[^\n]*|/\*.*?\*/|[A-Za-z_]\w*|\d[\w\.]*(?:[eE][+-]?\d+\w*)?|::|<<=|>>=|<<|>>|<=|>=|==|!=|&&|\|\||\+\+|--|\+=|-=|\*=|/=|%=|&=|\|=|\^=|.", re.S)
IDENT = re.compile(r"[A-Za-z_]\w*$")
ATTRS = {"unroll", "loop", "branch", "flatten", "fastopt", "allow_uav_condition"}
_RENAMES = {}
_NONSIMPLE = {}


def _block_simple(msl_src):
    """match arms `Variant => { ... }` of generate_intrinsic_function whose block only guards one plain
    `invoke_simple("name", context)` (the guard rejects operand types, it does not change the call): variant -> name"""
    out = {}
    for m in re.finditer(r"^ {8}(\w+) => \{\n(.*?)^ {8}\}", msl_src, re.M | re.S):
        body = m.group(2)
        calls = re.findall(r"invoke_simple\(\"(\w+)\", context\)", body)
        if len(calls) == 1 and "ast::Expression::" not in body and "generate_invoke_simple" not in body and "generate_expression" not in body:
            out[m.group(1)] = calls[0]
    return out


def nonsimple_intrinsics(repo):
    """HLSL intrinsic names the Metal exporter does not lower to a plain call of a (possibly renamed) function: helper
    functions, operators, as_type<>, reordered arguments.  Their lowering is outside the rules of this oracle."""
    if repo in _NONSIMPLE:
        return _NONSIMPLE[repo]
    out = set()
    try:
        h = open(os.path.join(repo, "hlsl/src/ast_generate.rs"), encoding="utf-8").read()
        m = open(os.path.join(repo, "msl/src/generator.rs"), encoding="utf-8").read()
        hn = dict(re.findall(r"\b(\w+) => Form::Invoke\(\"(\w+)\"\)", h))
        simple = set(re.findall(r"\b(\w+) => invoke_simple\(", m)) | set(_block_simple(m))
        for variant, hname in hn.items():
            if variant not in simple:
                out.add(hname)
    except OSError:
        pass
    _NONSIMPLE[repo] = out
    return out


def intrinsic_renames(repo):
    """HLSL intrinsic name -> Metal names, where the two exporters' tables spell an intrinsic differently"""
    if repo in _RENAMES:
        return _RENAMES[repo]
    out = {}
    try:
        h = open(os.path.join(repo, "hlsl/src/ast_generate.rs"), encoding="utf-8").read()
        m = open(os.path.join(repo, "msl/src/generator.rs"), encoding="utf-8").read()
        hn = dict(re.findall(r"\b(\w+) => Form::Invoke\(\"(\w+)\"\)", h))
        mn = dict(re.findall(r"\b(\w+) => invoke_simple\(\"(\w+)\"", m))
        mn.update(_block_simple(m))
        for variant, hname in hn.items():
            if variant in mn and mn[variant] != hname:
                out.setdefault(hname, set()).add(mn[variant])
    except OSError:
        pass
    _RENAMES[repo] = out
    return out


def toks(text):
    return [m.group(0) for m in TOKEN.finditer(text) if not (m.group(0).isspace() or m.group(0).startswith("//") or m.group(0).startswith("/*"))]


def strip_attributes(t):
    out = []
    i = 0
    while i < len(t):
        # a statement attribute stands where a statement starts: after `{`, `}`, `;`, `)`, or the `:` of a case label
        if t[i] == "[" and (not out or out[-1] in "{};):") and i + 1 < len(t) and t[i + 1] in ATTRS:
            depth = 0
            while i < len(t):
                if t[i] == "[":
                    depth += 1
                elif t[i] == "]":
                    depth -= 1
                    if depth == 0:
                        break
                i += 1
            i += 1
            continue
        out.append(t[i])
        i += 1
    return out


def drop_metal(t):
    out = []
    i = 0
    while i < len(t):
        if t[i] == "metal" and i + 1 < len(t) and t[i + 1] == "::":
            i += 2
            continue
        out.append(t[i])
        i += 1
    return out


def parse_facts(parts):
    threaded = []
    fns = {}
    for p in parts:
        w = p.split()
        if not w:
            continue
        if w[0] == "threaded":
            threaded = [x for x in (w[1].split(",") if len(w) > 1 else []) if x]
        elif w[0] == "fn":
            d = dict(x.split("=", 1) for x in w[2:])
            fns[w[1]] = dict(name=w[1], req=[x for x in d["req"].split(",") if x],
                             outs=dict((int(x.split(":")[0]), x.split(":")[1]) for x in d["outs"].split(",") if x),
                             defaults=int(d["defaults"]), params=int(d["params"]), method=d["method"] == "1", called=d["called"] == "1",
                             shadow=[x for x in d.get("shadow", "").split(",") if x])
    return threaded, fns


class Mismatch(Exception):
    pass


def group(t, i):
    """t[i] is an opening bracket: (comma-separated parts, index after the matching bracket)"""
    depth = 0
    parts = [[]]
    j = i
    while j < len(t):
        x = t[j]
        if x in "([{":
            depth += 1
            if depth > 1:
                parts[-1].append(x)
        elif x in ")]}":
            depth -= 1
            if depth == 0:
                break
            parts[-1].append(x)
        elif x == "," and depth == 1:
            parts.append([])
        else:
            parts[-1].append(x)
        j += 1
    if parts == [[]]:
        parts = []
    return parts, j + 1


def path_ending_at(t, k):
    """the qualified name whose last identifier is t[k]"""
    parts = []
    while k >= 0 and IDENT.match(t[k]):
        parts.append(t[k])
        if k >= 2 and t[k - 1] == "::" and IDENT.match(t[k - 2]):
            k -= 2
        else:
            break
    return "::".join(reversed(parts))


def check(case, impl, repo=None):
    repo = repo or os.environ.get("RSSL_REPO", "/repo")
    if not impl.startswith("M2 ;; "):
        return None
    try:
        facts_part, rest = impl[6:].split(" ;; HLSL ", 1)
        htext, mtext = rest.split(" ;; MSL ", 1)
    except ValueError:
        return "harness output not understood"
    threaded, fns = parse_facts(facts_part.split(" ;; "))
    renames = intrinsic_renames(repo)
    by_leaf = {}
    for name, f in fns.items():
        by_leaf.setdefault(name.split("::")[-1], []).append(f)
    threaded_leaf = set(x.split("::")[-1] for x in threaded)
    H = strip_attributes(toks(htext.replace("\\n", "\n")))
    M = drop_metal(strip_attributes(toks(mtext.replace("\\n", "\n"))))
    if "helper" in M or "register" in H or "SV_Position" in H or "user" in M or "numthreads" in H:
        return None      # resources, semantics and stage interfaces are outside the executable subset
    # a parameter added for a threaded global must not take the name of something else the function body can name
    for name, f in sorted(fns.items()):
        for sh in f["shadow"]:
            kind, n = sh.split(":", 1)
            if kind == "d":
                return "the Metal text is not the HLSL text under the threading / reference rules: %s receives two globals called `%s` as parameters of one name" % (name, n)
            if kind == "g":
                return "the Metal text is not the HLSL text under the threading / reference rules: %s receives the global `%s` as a parameter, which hides another global of that name that its body uses" % (name, n)
            if kind == "l":
                return "the Metal text is not the HLSL text under the threading / reference rules: %s receives the global `%s` as a parameter and has a parameter or local of the same name" % (name, n)
            return "the Metal text is not the HLSL text under the threading / reference rules: the method %s receives the global `%s` as a parameter, which hides the struct member `%s` in its body" % (name, n, n)
    H, removed = remove_threaded_globals(H, threaded_leaf)
    for g in removed:
        # the Metal text must not declare it at namespace level either
        pass

    def fn_of(path):
        p = path[2:] if path.startswith("::") else path
        if p in fns:
            return fns[p]
        cands = by_leaf.get(p.split("::")[-1], [])
        if len(cands) == 1:
            return cands[0]
        if cands and all(c["req"] == cands[0]["req"] and c["params"] == cands[0]["params"] and c["defaults"] == cands[0]["defaults"] for c in cands):
            return cands[0]
        return None

    def ctx(i, j):
        return "hlsl `%s` / metal `%s`" % (" ".join(H[max(0, i - 5):i + 7]), " ".join(M[max(0, j - 5):j + 7]))

    def trampoline(j, f, leafname, ret, hparams):
        """M[j:] must be the trampoline of f; returns the index after it"""
        k = j
        want_header = ret + [leafname, "("]
        if M[k:k + len(want_header)] != want_header:
            raise Mismatch("after the tagged overload of %s the trampoline is missing: %s" % (f["name"], " ".join(M[k:k + 10])))
        margs, k2 = group(M, k + len(want_header) - 1)
        names = []
        for idx, ha in enumerate(hparams):
            pname = [x for x in ha if IDENT.match(x)]
            # the declared name is the last identifier before any `=`
            cut = ha.index("=") if "=" in ha else len(ha)
            names.append([x for x in ha[:cut] if IDENT.match(x)][-1])
        if len(margs) != len(hparams) + len(f["req"]):
            raise Mismatch("the trampoline of %s takes %d parameters, expected %d" % (f["name"], len(margs), len(hparams) + len(f["req"])))
        if [x[-1] for x in margs[len(hparams):]] != f["req"]:
            raise Mismatch("the trampoline of %s receives %s, the IR says %s" % (f["name"], [x[-1] for x in margs[len(hparams):]], f["req"]))
        if M[k2] != "{":
            raise Mismatch("the trampoline of %s has no body" % f["name"])
        body, k3 = [], k2
        depth = 0
        while k3 < len(M):
            if M[k3] == "{":
                depth += 1
            elif M[k3] == "}":
                depth -= 1
                if depth == 0:
                    break
            k3 += 1
        body = M[k2 + 1:k3]
        # expected body
        exp = []
        types = {}
        for idx, ha in enumerate(hparams):
            cut = ha.index("=") if "=" in ha else len(ha)
            core = [x for x in ha[:cut] if x not in ("in", "out", "inout")]
            types[idx] = core[:-1]
        for idx in sorted(f["outs"]):
            if f["outs"][idx] == "inout":
                exp += types[idx] + ["__" + names[idx], "=", names[idx], ";"]
            else:
                exp += types[idx] + ["__" + names[idx], ";"]
        call = [leafname, "("]
        args = []
        for idx in range(len(hparams)):
            args.append("__" + names[idx] if idx in f["outs"] else names[idx])
        args.append("true_type ( )")
        args += f["req"]
        call += " , ".join(args).split(" ") + [")"]
        void = ret[-1] == "void"
        if void:
            exp += call + [";"]
        else:
            exp += ret + ["out", "="] + call + [";"]
        for idx in sorted(f["outs"]):
            exp += [names[idx], "=", "__" + names[idx], ";"]
        if not void:
            exp += ["return", "out", ";"]
        if body != exp:
            raise Mismatch("the trampoline of %s is `%s`, expected `%s`" % (f["name"], " ".join(body), " ".join(exp)))
        return k3 + 1

    i = j = 0
    scope = []             # enclosing namespaces (and structs)
    braces = []            # per open `{` in the lockstep walk: ("ns"|"fn"|"", info)
    calls = []             # per open `(`: callee facts or None, number of explicit arguments in the HLSL call
    pending = None         # trampoline expected next in the Metal text
    skip_close = 0         # closing parentheses of statement-level casts the Metal text adds
    try:
        while i < len(H) or j < len(M):
            if pending is not None:
                f, leafname, ret, hparams = pending
                j = trampoline(j, f, leafname, ret, hparams)
                pending = None
                continue
            if i >= len(H) or j >= len(M):
                raise Mismatch("one text ends before the other: " + ctx(i, j))
            a, b = H[i], M[j]
            # the declaration of a threaded global exists only in the HLSL text
            if False and a in ("static", "groupshared"):
                e = i
                depth = 0
                while e < len(H) and not (H[e] == ";" and depth == 0):
                    if H[e] in "([{":
                        depth += 1
                    elif H[e] in ")]}":
                        depth -= 1
                    e += 1
                decl = H[i:e]
                eq = decl.index("=") if "=" in decl else len(decl)
                declared = [x for x in decl[:eq] if IDENT.match(x)]
                if declared and declared[-1] in threaded_leaf or (declared and any(x in threaded_leaf for x in declared)):
                    if M[j:j + len(decl)] == decl:
                        raise Mismatch("the threaded global %s is still declared in the Metal text" % declared[-1])
                    i = e + 1
                    continue
            if a == "static" and i + 1 < len(H) and H[i + 1] == "const" and b == "constant":
                i += 2
                j += 1
                continue
            # a function definition or a call: `name (`
            if IDENT.match(a) and a == b and i + 1 < len(H) and H[i + 1] == "(" and j + 1 < len(M) and M[j + 1] == "(" and a not in ("if", "for", "while", "switch", "return", "sizeof"):
                hargs, hi = group(H, i + 1)
                margs, mj = group(M, j + 1)
                is_def = hi < len(H) and H[hi] == "{" and mj < len(M) and M[mj] == "{" and i >= 1 and (IDENT.match(H[i - 1]) or H[i - 1] == ">") and H[i - 1] not in ("return", "else", "case")
                if is_def:
                    qual = "::".join(scope + [a])
                    f = fns.get(qual) or fn_of(a)
                    if f is None:
                        raise Mismatch("function %s is not among the functions of the IR" % qual)
                    tag = bool(f["outs"]) and f["called"]
                    want = len(hargs) + (1 if tag else 0) + len(f["req"])
                    if len(margs) != want:
                        raise Mismatch("%s takes %d parameters in the Metal text; expected %d declared%s + the threaded globals %s: `%s`"
                                       % (qual, len(margs), len(hargs), " + the tag" if tag else "", f["req"], " , ".join(" ".join(x) for x in margs)))
                    for k, (ha, ma) in enumerate(zip(hargs, margs)):
                        if k in f["outs"]:
                            if ha[0] != f["outs"][k] or ma[0] != "thread" or "&" not in ma or [x for x in ha if x not in ("out", "inout")] != [x for x in ma if x not in ("thread", "&")]:
                                raise Mismatch("parameter %d of %s: `%s` became `%s`" % (k, qual, " ".join(ha), " ".join(ma)))
                        else:
                            hh = [x for x in ha if x != "in"]
                            if tag and "=" in hh:
                                hh = hh[:hh.index("=")]        # defaults live on the trampoline
                            if hh != ma:
                                raise Mismatch("parameter %d of %s: `%s` became `%s`" % (k, qual, " ".join(ha), " ".join(ma)))
                    k = len(hargs)
                    if tag:
                        if margs[k] != ["true_type"]:
                            raise Mismatch("the body of %s is not under the tagged overload: `%s`" % (qual, " ".join(margs[k])))
                        k += 1
                    if [x[-1] for x in margs[k:]] != f["req"] or any("&" not in x for x in margs[k:]):
                        raise Mismatch("%s receives the globals %s by `%s`; the IR says it needs %s, by reference" % (qual, [x[-1] for x in margs[k:]], " , ".join(" ".join(x) for x in margs[k:]), f["req"]))
                    if f["defaults"] and f["req"]:
                        raise Mismatch("%s has default arguments followed by the threaded globals %s: parameters without a default after parameters with one (and calls that rely on the default pass the globals in the positions of the defaulted parameters)" % (qual, f["req"]))
                    # the return type: tokens back to the previous `;`, `}` or `{`
                    r = i - 1
                    while r >= 0 and H[r] not in (";", "}", "{", ">") :
                        r -= 1
                    ret = H[r + 1:i]
                    braces.append(("fn", (f, a, ret, hargs) if tag else None))
                    i, j = hi + 1, mj + 1
                    continue
                # a call
                path = path_ending_at(H, i)
                f = None if path in renames or (i >= 1 and H[i - 1] == "." and False) else fn_of(path)
                calls.append((f, len(hargs), path))
                i += 2
                j += 2
                continue
            if a == "(" and b == "(":
                # `((e) * (f)).x` of a scalar expression that itself starts with a parenthesis is `(e) * (f)`
                d = 0
                k = i
                while k < len(H):
                    if H[k] == "(":
                        d += 1
                    elif H[k] == ")":
                        d -= 1
                        if d == 0:
                            break
                    k += 1
                inner = H[i + 1:k]
                if inner and k + 2 < len(H) and H[k + 1] == "." and H[k + 2] in ("x", "r") and M[j:j + len(inner)] == inner \
                        and M[j + len(inner):j + len(inner) + 1] != ["."] and not any(x in threaded_leaf for x in inner):
                    i = k + 3
                    j += len(inner)
                    continue
                calls.append((None, 0, ""))
                i += 1
                j += 1
                continue
            if a == ")" and (b == "," or (b in threaded_leaf and M[j - 1] == "(")):
                # extra arguments: the callee's threaded globals
                k = j
                extra = []
                if b != ",":
                    extra.append(b)
                    k += 1
                while k + 1 < len(M) and M[k] == "," and M[k + 1] in threaded_leaf and k + 2 < len(M) and M[k + 2] in (",", ")"):
                    extra.append(M[k + 1])
                    k += 2
                f, nargs, path = calls[-1] if calls else (None, 0, "")
                if not extra or M[k] != ")":
                    raise Mismatch(ctx(i, j))
                if f is None:
                    raise Mismatch("the call to %s passes %s but the IR has no such function" % (path, extra))
                if extra != f["req"]:
                    raise Mismatch("the call to %s passes the globals %s, the callee needs %s" % (path, extra, f["req"]))
                if nargs != f["params"]:
                    raise Mismatch("the call to %s leaves %d default argument(s) out and appends the globals %s: they land in the positions of the defaulted parameters" % (path, f["params"] - nargs, extra))
                calls[-1] = (None, 0, path)     # satisfied
                j = k
                continue
            if a == ")" and b == ")":
                if calls:
                    f, nargs, path = calls.pop()
                    if f is not None and f["req"]:
                        raise Mismatch("the call to %s does not pass the globals the callee needs: %s" % (path, f["req"]))
                i += 1
                j += 1
                continue
            if a == b:
                if a == "namespace" and i + 1 < len(H) and IDENT.match(H[i + 1]):
                    braces.append(("ns-pending", H[i + 1]))
                elif a == "struct" and i + 1 < len(H) and IDENT.match(H[i + 1]):
                    braces.append(("ns-pending", H[i + 1]))
                elif a == "{":
                    if braces and braces[-1][0] == "ns-pending":
                        name = braces.pop()[1]
                        scope.append(name)
                        braces.append(("ns", name))
                    elif braces and braces[-1][0] == "fn" and braces[-1][1] != "open" and not isinstance(braces[-1][1], str):
                        braces.append(("", None))
                    else:
                        braces.append(("", None))
                elif a == "}":
                    if braces:
                        kind, info = braces.pop()
                        if kind == "ns":
                            scope.pop()
                        elif kind == "fn" and info is not None:
                            pending = info
                i += 1
                j += 1
                continue
            if a in renames and b in renames[a]:
                i += 1
                j += 1
                continue
            # mul(x, y) of plain operands is the product x * y, in that order
            if a == "mul" and H[i + 1:i + 2] == ["("]:
                margs_h, hi2 = group(H, i + 1)
                plain = lambda ts: bool(ts) and all(IDENT.match(x) or x in (".", "::") or re.match(r"\d", x) for x in ts) and not any(x in threaded_leaf for x in ts)
                if len(margs_h) == 2 and plain(margs_h[0]) and plain(margs_h[1]):
                    want = margs_h[0] + ["*"] + margs_h[1]
                    swapped = margs_h[1] + ["*"] + margs_h[0]
                    n = len(want)
                    if M[j:j + n] == want:
                        i, j = hi2, j + n
                        continue
                    if M[j:j + 1] == ["("] and M[j + 1:j + 1 + n] == want and M[j + 1 + n:j + 2 + n] == [")"]:
                        i, j = hi2, j + n + 2
                        continue
                    if want != swapped and (M[j:j + n] == swapped or M[j + 1:j + 1 + n] == swapped):
                        raise Mismatch("the operands of mul are swapped: %s" % ctx(i, j))
            # bit casts: asint / asuint / asfloat (e) is as_type<T>(e) with T of the named scalar kind
            if a in ("asint", "asuint", "asfloat") and b == "as_type" and H[i + 1:i + 2] == ["("] and M[j + 1:j + 2] == ["<"] and M[j + 3:j + 5] == [">", "("]:
                want = {"asint": "int", "asuint": "uint", "asfloat": "float"}[a]
                if not re.match(r"^%s[234]?$" % want, M[j + 2]):
                    raise Mismatch("%s is written as_type<%s>: the bits are reinterpreted as another type than the source says; %s" % (a, M[j + 2], ctx(i, j)))
                i += 1
                j += 4
                continue
            # a threaded global is a parameter in the Metal text: its qualified name becomes the parameter's name
            if (IDENT.match(a) or a == "::") and b in threaded_leaf:
                k = i + (1 if a == "::" else 0)
                parts = []
                while k < len(H) and IDENT.match(H[k]):
                    parts.append(H[k])
                    if k + 2 < len(H) and H[k + 1] == "::" and IDENT.match(H[k + 2]):
                        k += 2
                    else:
                        break
                if (len(parts) > 1 or a == "::") and "::".join(parts) in threaded and parts[-1] == b:
                    i = k + 1
                    j += 1
                    continue
            if re.match(r"\d", a) and a in (b + ".x", b + ".r"):
                i += 1
                j += 1
                continue
            # a repeated component of a scalar literal (`0.5f.xx`) is a vector built from the scalar (`float2(0.5f)`)
            ms = re.match(r"^(\d[\w.]*?)\.([xr]{2,4})$", a)
            if ms and j + 3 < len(M) and re.match(r"^(float|half|int|uint|double|bool)%d$" % len(ms.group(2)), M[j]) \
                    and M[j + 1] == "(" and M[j + 2] == ms.group(1) and M[j + 3] == ")":
                i += 1
                j += 4
                continue
            # ... and so is a repeated component of a scalar variable (`p0.xx` is `float2(p0)`)
            if IDENT.match(a) and a not in threaded_leaf and H[i + 1:i + 2] == ["."] and i + 2 < len(H) and re.match(r"^[xr]{2,4}$", H[i + 2]) \
                    and j + 3 < len(M) and re.match(r"^(float|half|int|uint|double|bool)%d$" % len(H[i + 2]), M[j]) \
                    and M[j + 1] == "(" and M[j + 2] == a and M[j + 3] == ")":
                i += 3
                j += 4
                continue
            # `(e).x` of a scalar expression is `e`
            if a == "(":
                d = 0
                k = i
                while k < len(H):
                    if H[k] == "(":
                        d += 1
                    elif H[k] == ")":
                        d -= 1
                        if d == 0:
                            break
                    k += 1
                inner = H[i + 1:k]
                if k + 2 < len(H) and H[k + 1] == "." and H[k + 2] in ("x", "r") and M[j:j + len(inner)] == inner and not any(x in threaded_leaf for x in inner):
                    i = k + 3
                    j += len(inner)
                    continue
                # `(e).xx` of a scalar expression is the vector built from it: `float2(e)`
                if k + 2 < len(H) and H[k + 1] == "." and re.match(r"^[xr]{2,4}$", H[k + 2]) and not any(x in threaded_leaf for x in inner) \
                        and re.match(r"^(float|half|int|uint|double|bool)%d$" % len(H[k + 2]), b) \
                        and M[j + 1:j + 2] == ["("] and M[j + 2:j + 2 + len(inner)] == inner and M[j + 2 + len(inner):j + 3 + len(inner)] == [")"]:
                    i = k + 3
                    j += len(inner) + 3
                    continue
            # `.x` of a scalar literal is the scalar
            # (the same for a scalar variable: `p2.x` is written `p2`; swizzles are C01's subject, not a threading rule)
            if a == "." and b != "." and i + 1 < len(H) and H[i + 1] in ("x", "r") and i >= 1 and \
                    (re.match(r"\d", H[i - 1]) or H[i - 1] == ")" or (IDENT.match(H[i - 1]) and j >= 1 and M[j - 1] == H[i - 1])):
                i += 2
                continue
            # a vector cast to a scalar keeps its first component: Metal writes the `.x`
            if b == "." and j + 1 < len(M) and M[j + 1] in ("x", "xy", "xyz") and a != "." and (M[j - 1] == ")" or IDENT.match(M[j - 1])):
                j += 2
                continue
            # ... and when the operand of that cast is not a primary expression Metal parenthesises it first:
            # `(float)+v` is written `(float)(+v).x`
            if b == "(" and a != "(":
                d = 0
                k = j
                while k < len(M):
                    if M[k] == "(":
                        d += 1
                    elif M[k] == ")":
                        d -= 1
                        if d == 0:
                            break
                    k += 1
                inner = M[j + 1:k]
                if inner and k + 2 < len(M) and M[k + 1] == "." and M[k + 2] in ("x", "xy", "xyz") and H[i:i + len(inner)] == inner \
                        and not any(x in threaded_leaf for x in inner):
                    i += len(inner)
                    j = k + 3
                    continue
            # an expression statement wrapped in a cast to its own (enum) type: `(E)(lhs = rhs);`
            if b == "(" and a != "(" and (not H[i - 1:i] or H[i - 1] in ";{}"):
                k = j + 1
                while k < len(M) and (IDENT.match(M[k]) or M[k] == "::"):
                    k += 1
                if k > j + 1 and k + 1 < len(M) and M[k] == ")" and M[k + 1] == "(":
                    j = k + 2
                    skip_close += 1
                    continue
            if b == ")" and a == ";" and skip_close > 0:
                j += 1
                skip_close -= 1
                continue
            # `(S)e` of a scalar e is written `S { e, e, .. }`: one copy of the operand per member, so the operand must
            # be free of side effects (no assignment, increment or call)
            if a == "(" and (IDENT.match(b) or b == "::"):
                k = i + 1
                while k < len(H) and (IDENT.match(H[k]) or H[k] == "::"):
                    k += 1
                tname = H[i + 1:k]
                if tname and k + 1 < len(H) and H[k] == ")" and H[k + 1] != "0" and M[j:j + len(tname)] == tname and M[j + len(tname):j + len(tname) + 1] == ["{"]:
                    # the operand: a parenthesised group or one token
                    if H[k + 1] == "(":
                        d, e = 0, k + 1
                        while e < len(H):
                            if H[e] == "(":
                                d += 1
                            elif H[e] == ")":
                                d -= 1
                                if d == 0:
                                    break
                            e += 1
                        operand, hnext = H[k + 2:e], e + 1
                    else:
                        operand, hnext = [H[k + 1]], k + 2
                    parts, mj2 = group(M, j + len(tname))
                    strip = lambda p: p[1:-1] if len(p) >= 2 and p[0] == "(" and p[-1] == ")" else p
                    if parts and all(strip(p) == operand or p == operand for p in parts):
                        impure = [t for t in operand if t in ("++", "--", "=", "+=", "-=", "*=", "/=", "%=", "<<=", ">>=", "&=", "|=", "^=")]
                        calls = [operand[x] for x in range(len(operand) - 1) if IDENT.match(operand[x]) and operand[x + 1] == "(" and operand[x] not in ("int", "uint", "float", "bool", "half")]
                        if len(parts) > 1 and (impure or calls):
                            raise Mismatch("the struct cast `(%s)(%s)` is written with %d copies of its operand, which has side effects; %s" % (" ".join(tname), " ".join(operand), len(parts), ctx(i, j)))
                        i, j = hnext, mj2
                        continue
            # `(S)0` is written `S { 0, .. }` (aggregate of zeros)
            if a == "(" and (IDENT.match(b) or b == "::"):
                k = i + 1
                while k < len(H) and (IDENT.match(H[k]) or H[k] == "::"):
                    k += 1
                tname = H[i + 1:k]
                if tname and k + 1 < len(H) and H[k] == ")" and H[k + 1] == "0" and M[j:j + len(tname)] == tname and M[j + len(tname)] == "{":
                    zeros, mj2 = group(M, j + len(tname))
                    flat = [x for part in zeros for x in part if x not in ("{", "}")]
                    if flat and all(x in ("0", "0u", "0.0f", "0.0", "false", "0.0h", ",") or re.match(r"0(\.0)?[fhuL]?$", x) for x in flat):
                        i = k + 2
                        j = mj2
                        continue
            raise Mismatch(ctx(i, j))
    except Mismatch as e:
        ns = nonsimple_intrinsics(repo)
        if "is written as_type<" not in str(e) and "copies of its operand" not in str(e) and "operands of mul" not in str(e) and any(x in ns - {"asint", "asuint", "asfloat"} for x in H[max(0, i - 40):i + 8]):
            return None      # the lowering of this intrinsic (helper, operator, as_type<>) is outside the rules
        return "the Metal text is not the HLSL text under the threading / reference rules: " + str(e)
    except IndexError:
        return "the Metal text is not the HLSL text under the threading / reference rules: one text ends inside a construct"
    return None


def remove_threaded_globals(t, threaded_leaf):
    """drop `static T g [= init];` / `groupshared T g;` of threaded globals at namespace level, then namespaces left empty"""
    out = []
    removed = []
    i = 0
    depth_fn = 0       # > 0 inside a function or struct body
    stack = []         # kinds of open braces: 'ns' or 'other'
    while i < len(t):
        x = t[i]
        at_ns_level = all(k == "ns" for k in stack)
        if at_ns_level and x in ("static", "groupshared") and not (i + 1 < len(t) and t[i + 1] == "const"):
            e = i
            d = 0
            while e < len(t) and not (t[e] == ";" and d == 0):
                if t[e] in "([{":
                    d += 1
                elif t[e] in ")]}":
                    d -= 1
                e += 1
            decl = t[i:e]
            eq = decl.index("=") if "=" in decl else len(decl)
            names = [y for y in decl[:eq] if IDENT.match(y)]
            br = decl.index("[") if "[" in decl[:eq] else None
            name = None
            if names:
                name = [y for y in (decl[:br] if br is not None else decl[:eq]) if IDENT.match(y)][-1]
            if name in threaded_leaf and "(" not in decl[:eq]:
                removed.append(name)
                i = e + 1
                continue
        if x == "{":
            stack.append("ns" if len(out) >= 2 and out[-2] == "namespace" else "other")
        elif x == "}":
            if stack:
                stack.pop()
        out.append(x)
        i += 1
    # empty namespaces: `namespace N { }` repeatedly
    changed = True
    while changed:
        changed = False
        k = 0
        res = []
        while k < len(out):
            if out[k] == "namespace" and k + 3 < len(out) and out[k + 2] == "{" and out[k + 3] == "}":
                k += 4
                changed = True
                continue
            res.append(out[k])
            k += 1
        out = res
    # namespaces that became adjacent are one namespace in the Metal text: `} namespace N {` after the end of N
    res = []
    stack = []
    k = 0
    while k < len(out):
        x = out[k]
        if x == "{":
            stack.append(out[k - 1] if k >= 2 and out[k - 2] == "namespace" else None)
        elif x == "}":
            name = stack.pop() if stack else None
            if name is not None and out[k + 1:k + 4] == ["namespace", name, "{"]:
                stack.append(name)
                k += 4
                continue
        res.append(x)
        k += 1
    return res, removed


def braces_in_function(braces):
    return any(k == "fn" for k, _ in braces)
