#!/usr/bin/env python3
"""Write corpus/C15/target_words.txt (one probe per reviewed target word and declaration position) from the reviewed
lists of coq/model/TargetWords.v.  Run by hand after editing that file; ./check C15 fails its table obligation
`C15_corpus_in_step` when the two are out of step."""
import os, re, sys
ROOT = os.path.dirname(os.path.dirname(os.path.abspath(__file__)))
POSITIONS = "function parameter local global struct member method methodcall enum enumvalue namespace cbuffer cbuffermember templateparam".split()


def lists():
    src = open(os.path.join(ROOT, "coq", "model", "TargetWords.v")).read()
    src = re.sub(r"\(\*.*?\*\)", "", src, flags=re.S)
    d = {}
    for m in re.finditer(r"Definition (\w+) : list string := \[(.*?)\]\.", src, re.S):
        d[m.group(1)] = re.findall(r'"([^"]+)"', m.group(2))
    return {"HlslForDirectX": d["cpp_words"] + d["hlsl_keywords"] + d["hlsl_builtin_types"],
            "Msl": d["cpp_words"] + d["msl_keywords"] + d["msl_global_names"]}


def text():
    out = ["# every reviewed target word (coq/model/TargetWords.v) in every declaration position; written by tools/gen_c15_words.py"]
    for tgt, ws in lists().items():
        for w in ws:
            for p in POSITIONS:
                out.append("R %s %s %s" % (tgt, p, w))
    return "\n".join(out) + "\n"


if __name__ == "__main__":
    path = os.path.join(ROOT, "corpus", "C15", "target_words.txt")
    if len(sys.argv) > 1 and sys.argv[1] == "--check":
        sys.exit(0 if open(path).read() == text() else 1)
    open(path, "w").write(text())
    print("wrote", path)
