#!/usr/bin/env python3
"""Write MANIFEST.json from tools/manifest_data.py (kept as data so it always validates)."""
import json, os, sys
ROOT = os.path.dirname(os.path.dirname(os.path.abspath(__file__)))
sys.path.insert(0, os.path.join(ROOT, "tools"))
from manifest_data import CHECKS, NOT_APPLICABLE, HOOK_COMMITS, NOTES

m = {
    "version": 1,
    "setup_cmd": "./check --setup",
    "hooks": {
        "guard": "--cfg rssl_verif",
        "enable": "RUSTFLAGS='--cfg rssl_verif' cargo build (set by tools/vlib.py when it builds harness/ against /repo)",
        "baseline_off_cmd": "cd /repo && cargo test --workspace --no-fail-fast --offline",
        "source_commits": HOOK_COMMITS,
        "add_only": True,
    },
    "engines": [
        {"name": "coq-model+proofs", "path": "coq/", "serves_properties": [c["property_id"] for c in CHECKS],
         "kind_free_text": "Coq 8.16.1: tables regenerated from /repo (coq/gen), hand-written executable models (coq/model), lemmas (coq/proofs), property theorems (coq/props)"},
        {"name": "correspondence", "path": "harness/ ocaml/ tools/", "serves_properties": [c["property_id"] for c in CHECKS],
         "kind_free_text": "Rust harness runs the implementation, the extracted OCaml model runs the same case lines; tools/vlib.py diffs, applies the direct oracle, shrinks, writes replays and evidence"},
    ],
    "checks": [],
    "notes": NOTES,
    "not_applicable": NOT_APPLICABLE,
}
for c in CHECKS:
    pid = c["property_id"]
    m["checks"].append({
        "property_id": pid,
        "quick_cmd": "./check %s --tier quick" % pid,
        "thorough_cmd": "./check %s --tier thorough" % pid,
        "evidence_file": "evidence/%s.json" % pid,
        "replay_cmd_template": "./check %s --replay {path}" % pid,
        "engine": "coq-model+proofs",
        "level_claimed": {"category": "proof", "text": c["text"], "design_ref": c["design_ref"]},
        "level_note": c["note"],
        "technique": c["technique"],
    })
json.dump(m, open(os.path.join(ROOT, "MANIFEST.json"), "w"), indent=1)
print("MANIFEST.json: %d checks, %d not applicable" % (len(m["checks"]), len(NOT_APPLICABLE)))
