HOOK_COMMITS = ["6be8cca"]
NOTES = ("Every check regenerates the Coq tables from /repo's working tree, rebuilds the property's proof cone with coqc, "
         "audits for Admitted/Axiom/etc., rebuilds the harness against /repo and runs the model/implementation correspondence. "
         "See DESIGN.md.")

ALL = ["C%02d" % i for i in range(1, 20)]

CHECKS = [
    {
        "property_id": "C06",
        "text": "Coq theorems over an executable model of assign_api_bindings: for every parameter record, default group and declaration list of any length the slot ranges of each group tile [0,total) in declaration order (no gap, no overlap), lengths are count x cost, completeness of bound/unbound declarations, inline-constant offsets/size/slot. Tables (object kinds, cost arms, per-target parameter records) are regenerated from the source on every run and the model is compared with the implementation (direct call and through compile() metadata) on enumerated and random declaration sequences.",
        "design_ref": "DESIGN.md §4 C06",
        "note": "Trusted: Coq kernel (vm_compute), the table translator, extraction + drivers + comparison; the hand-written step function is tied to process_definition only by the correspondence run; u32 overflow (>= 2^32 slots) not modelled.",
        "technique": "Coq proof (induction over the declaration list) + regenerated tables + model/implementation correspondence",
    },
]

CHECKS.append({
    "property_id": "C19",
    "text": "Coq theorems over an executable model of get_type_layout/get_field_offsets/check_layout: for every type tree (unbounded nesting) acceptance implies equal total size and equal offset of every leaf field under the reference HLSL structured-buffer and Metal rules, and a size rejection reports the true sizes/alignments. The unrepaired checker violated this (two witnesses kept as Examples); repaired by the fix: commit 1908d9f. Scalar sizes are regenerated from the source; verdicts and reported numbers are compared with the implementation on enumerated and random struct trees through compile(validate_layout_consistency).",
    "design_ref": "DESIGN.md §4 C19",
    "note": "Trusted: Coq kernel, the reference rules spec_sa/spec_fields in coq/model/Layout.v (the statement of 'the layout'), translator, extraction + drivers; hand-written model tied by correspondence; u32 overflow not modelled.",
    "technique": "Coq proof (mutual induction over type trees) + regenerated tables + model/implementation correspondence",
})

CHECKS.append({
    "property_id": "C11",
    "text": "Coq theorems over an executable model of the #if automaton (ConditionChain + preprocess_command gating): for every well-nested directive tree of any depth and any number of #elif groups, every macro environment and every truth assignment to well-formed conditions, the automaton emits exactly the text and final macro environment of C's conditional-group semantics (directives in unselected groups have no effect), and every line sequence is rejected iff it is unbalanced, with the matching diagnostic. The transition table, BinOp::apply and the per-level operator tokens are regenerated from the source each run; the condition parser model and the whole line model are compared with the real preprocessor on all directive sequences up to length 4 (quick) / 6 (thorough) over the property's alphabet, random nested trees and random condition expressions.",
    "design_ref": "DESIGN.md §4 C11",
    "note": "Trusted: Coq kernel, the reference semantics sem_item/sem_tail and scan in coq/model/Cond.v, translator, extraction + drivers. Conditions enter the model pre-tokenised; macros inside conditions are numeric/empty object-like macros only. The condition parser is proved to invert the minimal-parenthesis printer for every condition tree (C11_cond_parser_correct); `defined`/macro substitution inside conditions is compared, not proved.",
    "technique": "Coq proof (mutual induction over directive trees; induction over line lists) + regenerated tables + model/implementation correspondence",
})

CHECKS.append({
    "property_id": "C16",
    "text": "Coq theorems over an executable model of ImplicitConversion::find/get_rank and find_function_type: for every candidate list (any length, any arity, with default parameters) and every argument tuple the verdict is invariant under permutation of the declarations; a viable candidate needing no conversion is selected when every other viable candidate needs one (and a parameter of exactly the argument's type needs none); the selected candidate is never dominated (lexicographic numeric/vector rank per argument) by a viable candidate. The rank order, rank matrix and vector-rank order are regenerated from casting.rs each run; verdicts are compared with the type checker on exhaustive two-overload scalar sets, random sets of 2-5 overloads with 1-3 parameters and a random permutation of each.",
    "design_ref": "DESIGN.md §4 C16",
    "note": "Trusted: Coq kernel, the definition of dominance, translator, extraction + drivers; hand-written model tied by correspondence. Templates, matrices, enums and object/struct parameters are not modelled.",
    "technique": "Coq proof (permutation invariance, minimality of the histogram, tournament argument) + regenerated tables + model/implementation correspondence",
})

CHECKS.append({
    "property_id": "C13",
    "text": "Coq theorem over an executable model of evaluate_constexpr/evaluate_operator/evaluate_cast: for every constant expression tree of any depth over the IR's operators and every scalar kind, in debug and release builds, the table-driven evaluator equals the reference evaluator with HLSL semantics (32-bit wrap-around, masked shift counts, exact 128-bit literal arithmetic, C comparisons, the conversion rules), no integer arm can abort on overflow / shift count / MIN/-1, and division or modulus by zero is not a constant. Every arm's Rust operator (bare, wrapping_*, checked_*) is regenerated from evaluator.rs on every run and must pass a decidable agreement check against the reference for all operators x operand kinds. The unrepaired evaluator (bare + - * << >> % and negation) fails that check; repaired by a fix: commit. The evaluator is compared with the model on systematic boundary-operand tables and random typed expression trees, in debug and release builds of the harness.",
    "design_ref": "DESIGN.md §4 C13",
    "note": "Trusted: Coq kernel + Flocq (real-number axioms of the standard library appear under Print Assumptions for statements that mention float constants), the reference semantics in coq/model/Evaluator.v and EvalSem.v, the translator's reading of each arm's expression shape, extraction + drivers. Positions other than const initialisers (array sizes, enum values, case labels, template arguments) are not yet driven separately.",
    "technique": "Coq proof (structural induction over expression trees + decidable per-arm agreement with the reference) + regenerated operator tables + model/implementation correspondence",
})

CHECKS.append({
    "property_id": "C10",
    "text": "Coq theorems over an executable model of the lexer (token_intermediate with all recognisers, TokenStream): for every byte string the token spans are contiguous, ordered, start at 0 and end at the file length (only the synthetic final Endline is empty), every token consumes between 1 and the remaining number of bytes (so |s|+1 steps suffice), and every diagnostic offset lies inside the file; integer accumulation yields exactly the written value or rejects it when it does not fit 64 bits; the reference float conversion is proved (from Flocq's binary_normalize_correct and Bdiv_correct_aux) to be the double nearest to the decimal text, narrowed once for f/h. Four defects were repaired by fix: commits (unchecked digit accumulation, L-suffix wrap, digit-by-digit float rounding, end-of-stream error slice tripping a debug assertion). Token kinds, payload values (float bit patterns) and spans are compared with the implementation on all symbol pairs, thousands of integer/float spellings biased to midpoints and boundaries, and token soups with every trivia form.",
    "design_ref": "DESIGN.md §4 C10",
    "note": "Trusted: Coq kernel + Flocq (standard-library real-number axioms under Print Assumptions for the two float theorems), translator, extraction + drivers; hand-written lexer model tied by correspondence; Rust's str::parse::<f64> correct-rounding contract is checked, not proved. 'Value appears unchanged in the output' (formatter Display) is C09's literal round trip.",
    "technique": "Coq proof (structural bounds on every recogniser, induction over the token stream, Flocq rounding theorems) + regenerated tables + model/implementation correspondence",
})

CHECKS.append({
    "property_id": "C15",
    "text": "Coq theorems over an executable model of NameMap::build: for every reserved list, scope and symbol set the generator terminates (pigeonhole bound on the suffix search), names within a scope are pairwise distinct and never reserved, a name that is unique in its scope and not reserved is kept verbatim, every symbol is named, and a local never receives a reserved name or a name generated for a global symbol; both reserved lists are regenerated from the exporters and must consist of well-formed identifiers. Four defects were repaired (unique f_0 renamed next to an overload set; \"SamplerState,\" typo; namespaces declared under their source name but referenced under the generated one; Metal address-space keywords not reserved). The generated name of every symbol is compared with the implementation on programs built from both reserved lists, name_N forms and cross-scope clashes; every reserved name is additionally probed in 13 declaration positions on the emitted HLSL and MSL text.",
    "design_ref": "DESIGN.md §4 C15",
    "note": "Partial: renaming equivariance and reference preservation are not proved. Names the generator never manages (struct members, enum values, cbuffer names, cbuffer members, template parameters) are emitted verbatim even when reserved: five known findings, probed on every run. Trusted: Coq kernel, translator, extraction + drivers, the exporters' RESERVED_NAMES as the definition of 'reserved'.",
    "technique": "Coq proof (pigeonhole termination, freshness invariant over the scope fold) + regenerated reserved lists + model/implementation correspondence + emitted-text probes",
})

CHECKS.append({
    "property_id": "C09",
    "text": "Coq model of format_subexpression (precedence, associativity, sides, the prefix-operator separation rule, parenthesised integer literals before a member access) and of the expression parser's level structure (expr_leaf, expr_p1 .. expr_p15, casts decided by the set of type names as the type checker decides them). Precedences, associativity ranges, operator spellings, the side each operand is printed on, the operators each parser level accepts and the level chain are regenerated from formatter.rs / expressions.rs / lexer.rs on every run and must satisfy the table obligations (printed spelling = parsed token text for every operator, level chain, parenthesis rule). The model's printed text and the tree it reads back are compared with the real printer and the real preprocessor + parser on every (outer operator, inner operator, side) combination, sampled or exhaustive operator triples, literals of every kind at extreme values and random trees to depth 6; every repository shader source and every tree the HLSL exporters build for them is printed, parsed again and compared node by node after resolving the parser's ambiguity nodes.",
    "design_ref": "DESIGN.md §4 C09",
    "note": "Trusted: Coq kernel, translator, extraction + drivers. Statements, declarators, types, sizeof, braced initialisers and template arguments are exercised on the implementation only. Float digit generation is Rust's Display. Known findings: `a < b > (c)` read as explicit template arguments; NaN and the most negative 64-bit literal have no spelling.",
    "technique": "Coq proof over a printer/parser model + regenerated tables + model/implementation correspondence",
})

CHECKS.append({
    "property_id": "C12",
    "text": "Coq model of Macro::parse, split_macro_args, find_single_macro, apply_single_macro / apply_macros_internal (positions, early_function_pos, last_macro_function_index, the disabled set) and of the file-level driver (#define, #undef, #include, #pragma once, initial defines). Theorems: for every paste function, macro table (self- and mutually-recursive definitions included) and token list, expansion ends with the expanded list or a diagnostic within S(#macros) nested rescans and S(#tokens) steps per list, never reaches the scan's `continue` that skips its increment, and leaves no unprocessed ## of a replacement list; #include of a file equals running its items in place, a #pragma once file is marked by its first run and contributes nothing afterwards, and defines passed to the compiler equal #define lines before the first line. Two defects were repaired (arguments were expanded with a fresh disabled set: `#define f(x) x`/`#define a f(a)`/`a` never terminated; initial defines were hand-built macros: no ## operator, no trimming, first-wins duplicates, and an abort when a ## touched one). The model's token output is compared with the preprocessor on random macro programs within the property's bounds (<= 6 definitions, 0-3 parameters, bodies <= 8 tokens, nested invocations, redefinition, #undef, include graphs <= 5 files with and without #pragma once, initial defines), and the preprocessor's output is judged against the C algorithm with hide sets (tools/c12ref.py), against the same program with every #include pasted, and against the same program with the initial defines written as #define lines.",
    "design_ref": "DESIGN.md §4 C12",
    "note": "Partial: equality with C's substitution is decided on the implementation's output by the reference expander (oracle), not proved in Coq; the Coq theorems are termination / no-hang / no leftover ## and the driver equalities. Trusted: Coq kernel, extraction + drivers, tools/c12ref.py as the statement of C's expansion, the lexer model of C10 as the paste function of the executable model. Known findings: a ## with an empty operand; a self-referential macro name that survived in an argument is expanded on the next rescan.",
    "technique": "Coq proof (well-founded measure on the disabled set and the unprocessed suffix; induction over include fuel) + model/implementation correspondence + reference-expander oracle",
})

CHECKS.append({
    "property_id": "C14",
    "text": "Coq theorems over a model of SourceManager: for every file text split at a line start and every inserted text of k whole lines, every later offset decodes to the same column and a line exactly k greater; for every set of loaded files the location handed out for an offset of file i decodes to file i's name and to the line/column inside that file (the ranges of different files are disjoint, each file owning length+1 slots), and files loaded later (further includes, ## scratch files) never change what an earlier location decodes to. The model is compared with SourceManager on every offset of multi-file sets. The rest of the property is checked metamorphically on the implementation: 22 programs (accepted and rejected; macros, conditionals, includes, nested includes, lexer / preprocessor / parser / type errors) are compiled for HLSL and MSL as written and with blanks, tabs, line feeds, line and block comments and backslash splices inserted at token boundaries (outside the two documented exceptions), and with k in {0,1,2,7,50} blank / comment / block-comment / blank-with-spaces lines in front of every file: output text and metadata must be byte-identical, messages identical, and every reported file:line:column must keep file and column and move by exactly k lines. One defect was repaired (a line end between a function-like macro name and its argument list left the invocation unexpanded).",
    "design_ref": "DESIGN.md §4 C14",
    "note": "Partial: trivia invariance of the lexer and of macro expansion is not proved (it is tested metamorphically on the implementation, which is sampling, not proof); the proved part is the position arithmetic. Trusted: Coq kernel, extraction + drivers, the harness's coarse tokenizer and diagnostic parser.",
    "technique": "Coq proof (induction over file bytes / file lists) + model/implementation correspondence + metamorphic trivia and line-shift runs on the implementation",
})

CHECKS.append({
    "property_id": "C07",
    "text": "The places where the workspace walks a HashMap/HashSet in its internal order are regenerated from the sources on every run (tools/inventory.py; every `for` loop cross-checked against clippy::iter_over_hash_type, i.e. the compiler's own types) and must equal the reviewed list, in which each walk is neutralised by a Coq theorem or by review: collected-then-sorted walks (inline constant buffers, required globals, helper objects and helpers, the names of one scope) by `Permutation l l' -> isort l = isort l'` for a total order under which equal elements are identical (and sort_by on distinct keys); the walk over name scopes by a theorem on the name-generator model (any order of the scopes gives every local variable the same name and the global symbols the same (symbol, name) pairs); the usage fixpoint by a theorem that, whatever the order of the keys, it ends with exactly the symbols reachable through the initial usage sets; the remaining walks are set insertions, min/max reductions, assertions, or produce a list no exporter reads. Runtime search: programs built to put several elements into every affected container (clashing names across four namespaces, seven buffer-address globals in five bind groups, a call graph using ~15 globals and wave intrinsics, helper functions of nine object kinds, enums, templates, rejected programs) and every repository shader source are compiled 8 times in one process and in 2 fresh processes per target and pipeline mode and compared byte for byte (sources, metadata, stages, pipeline state, diagnostics).",
    "design_ref": "DESIGN.md §4 C07",
    "note": "Partial: there is no theorem about compile() as a whole; the claim is per hash-walk site plus the inventory tie. Trusted: Coq kernel, tools/inventory.py (name-based typing of walked expressions; clippy covers `for` loops precisely), the review verdicts for the sites without a theorem, extraction is not used. A removed sort changes the site's regenerated classification and breaks C07_inventory; the runtime comparison then looks for a differing pair of runs.",
    "technique": "Coq proof (permutation invariance of sort / name scopes / usage fixpoint) + regenerated hash-walk inventory + repeated-compilation comparison",
})

CHECKS.append({
    "property_id": "C17",
    "text": "Coq model of the pipeline loop of compile (no-pipeline mode, name filter, the three error exits, the panic on a duplicated name) with the front end and build_pipeline as parameters. Theorems for every pipeline list and build function: without a name the results are one per definition in source order; with a name the result is exactly the (unique) pipeline of that name; a name no definition has fails with NotFound; a file without pipelines fails unless no-pipeline mode is on, in which case the module is built once; and a pipeline compiled by name equals the element at its position in the whole-file result. A source obligation regenerated on every run pins every read and write of Module::pipelines / selected_pipeline (exporters read it only at the selected index). The model's verdict is compared with compile on all lists of 0-4 compute pipelines x every filter x both modes x three targets; metamorphic runs compare, for 1-4 pipelines of ten kinds sharing entry points and resources, the whole-file result with the by-name result and with the result after removing the other Pipeline blocks (source, stages, metadata, pipeline state). One defect was repaired (two Pipeline blocks with one name were accepted and aborted compile).",
    "design_ref": "DESIGN.md §4 C17",
    "note": "Partial: independence of build_pipeline from the other definitions rests on the source obligation and the metamorphic runs, not on a proof about the exporters. Known finding: on MSL a file that holds a mesh or task entry function fails for every pipeline that is not a mesh pipeline (the whole module is exported for each pipeline).",
    "technique": "Coq proof over the driver model + regenerated source obligation + model/implementation correspondence + metamorphic multi-pipeline runs",
})

CHECKS.append({
    "property_id": "C05",
    "text": "Theorems on the slot-assignment model shared with C06 (tables regenerated from the sources): every declaration list gives exactly one binding record to each constant buffer and each extern object-typed global that is not a shader-implemented static sampler, in its own or the default group, and none to static globals; for every HLSL parameter record the inline descriptor struct of a group holds one 8-byte member per inline binding at offsets 0, 8, 16, ... and its size equals the size reported in the metadata (the exporter's two assertions never fire). On the implementation, every compiled pipeline's emitted text is parsed (register / vk::binding / vk::offset annotations, ArgumentBuffer [[id(n)]] members, numthreads, defined functions) and compared with the returned metadata: name, group, slot or inline offset, descriptor type, count, one entry per bound declaration and no entry without one, entry points defined in the text with the reported thread-group size, and on Metal is_used exactly for the globals the entry point reaches directly or through a helper. One defect was repaired (static resource globals were given slots and metadata entries).",
    "design_ref": "DESIGN.md §4 C05",
    "note": "Partial: agreement between printed annotations and metadata is decided on the implementation's output by the parser oracle (a test), the Coq theorems cover the shared record (who gets one, inline struct layout). Trusted: Coq kernel, translator, tools/c05ref.py.",
    "technique": "Coq proof on the slot-assignment model + emitted-text/metadata cross-check oracle on generated resource programs",
})

CHECKS.append({
    "property_id": "C18",
    "text": "Coq theorems: on the macro model of C12, two macro tables that differ only in the definitions of RSSL_TARGET_HLSL / RSSL_TARGET_MSL give, for every paste function that cannot produce those names and every token list that does not mention them, the same expansion (proved by a simulation of the expander that carries the invariant 'no such name occurs' through arguments, replacement lists and pastes), and the same holds for whole files with #include, #define, #undef and #pragma once: the same tokens reach the parser, or the same error, whatever the target. On the slot model of C06/C05 the set of bound declarations, their descriptor kinds and counts do not depend on the target's parameter record (static samplers aside), and only buffer addresses become inline constants, only when the record supports them. On the implementation, every repository source, 22 accepted and rejected programs and generated resource programs are compiled for all four target configurations: front-end diagnostics must be identical, the HLSL flavours must succeed or fail together, and stages, thread-group sizes, pipeline state, binding names / kinds / counts and the HLSL texts modulo binding annotations must agree.",
    "design_ref": "DESIGN.md §4 C18",
    "note": "Partial: that the shared front end is a function of the preprocessed tokens alone is read off compile(), not proved; the exporters' agreement is observed. The macro theorem inherits the tie of C12's model to the preprocessor.",
    "technique": "Coq proof (simulation on the macro expander model; corollaries of the slot model) + cross-target comparison on the implementation",
})

CHECKS.append({
    "property_id": "C04",
    "text": "Coq theorems for each link of the fixpoint: (names) on a model of the front end's qualified-name lookup and of the exporters' decision to anchor a path with `::`, every emitted path resolves from its use site (any namespace, any stack of local frames) to the symbol it was emitted for, while the never-anchored path of the unrepaired exporter is captured (witness); the name map of the emitted program is the identity (every name already unique and unreserved is kept, nothing is generated again); (slots) declarations printed with their group explicit get the same slots and inline blocks whatever the default group, and under the DirectX parameter record (read from src/compile.rs) whatever object kind they are re-spelt as; (expressions, literals) the C09 round trip and the C10 exactness theorems. On the implementation every entry point of the third-party corpus, every repository source and generated programs using every declaration kind are compiled for DirectX without pipelines, the output is compiled again, and acceptance, byte equality and the slot of every resource are compared.",
    "design_ref": "DESIGN.md §4 C04",
    "note": "Partial: the end-to-end equality is observed, not proved; the theorems cover name resolution, the name map, slot assignment, expression syntax and literals. One known finding (comparison chains read as template arguments, shared with C09).",
    "technique": "Coq proof (lookup/anchoring model, name-map and slot idempotence, C09/C10 corollaries) + double-compilation fixpoint check on corpus and generated programs",
})

CHECKS.append({
    "property_id": "C08",
    "text": "Coq theorems: totality of every modelled component — the file driver with the #include nesting limit is structurally recursive (no fuel) and for every file map, cyclic or not, ends with a state or a diagnostic, never with exhaustion, and refines the C12 driver; macro expansion never runs out of fuel or hangs; plus the theorems of C10 (lexer progress, errors inside the file, checked integer accumulation), C13 (the evaluator never aborts on arithmetic in debug or release) and C15 (the name generator's search ends). For the unmodelled rest (parser, type checker, exporters, formatter) the inventory of abort sites per file and function is regenerated from the sources and must equal the reviewed table, and a search runs every case in a watchdog-supervised child process on an 8 MiB stack: character and token soups up to 4 KB, generated programs valid and with one mutation, short soups inside valid programs, nested constructs, and every repository input unmodified and mutated, across 5 target configurations x {all, named, no-pipeline} x layout validation on/off; every rejected input's diagnostic is rendered.",
    "design_ref": "DESIGN.md §4 C08",
    "note": "Partial: only the modelled components are proved total; for the rest the result is a pinned inventory plus a search (not a proof). Seven known findings (unimplemented template features, exponential parse of nested template arguments, unbounded bind-group index, u32 slot arithmetic, non-resource object globals).",
    "technique": "Coq proof (totality of the modelled components: structural recursion / no-exhaustion theorems) + pinned abort-site inventory + watchdog-supervised search on the implementation",
})

CHECKS.append({
    "property_id": "C03",
    "text": "Coq theorems about a strict checker of the typed IR (the specification of 'well typed'): if the checker passes, the type the IR gives every node is the type derived bottom-up from the leaves and every node of the tree meets its rule; the target of every assignment, compound assignment and increment is an lvalue whose path goes through nothing const and the assigned value has the target's type; every call has one operand per parameter, each of the parameter's type, a writable lvalue for out / inout; returned values have the function's type and initialisers the variable's (for all expression trees and statements). The extracted checker is run on the IR (dumped with the types Expression::get_type answers) of every program the harness type checks: the third-party corpus, the repository sources and generated programs of every declaration kind. Rejection is observed: generated well-typed programs with one injected violation (23 demanded kinds) must be rejected.",
    "design_ref": "DESIGN.md §4 C03",
    "note": "Partial: the checker and its theorems specify the target; that the elaborator always meets it is validated program by program (translation validation), not proved. One known finding (default arguments keep their literal type).",
    "technique": "Coq proof (soundness theorems of a strict IR type checker) + extracted checker run on the type checker's output for corpus and generated programs + injected-violation rejection runs",
})

CHECKS.append({
    "property_id": "C01",
    "text": "Translation validation with a proved comparison: for every program the emitted HLSL (DirectX and Vulkan flavours) is read back by the front end and its typed IR is compared with the typed IR of the source item by item — every function body with its literal bit patterns, operators, conversions, call targets, argument lists and parameter directions, every global initialiser, struct layout and enum value. Coq theorems about the comparison (coq/model/Alpha.v): it succeeds only if the second dump is the first with its local variables renamed one-to-one (every other word identical, position by position), and it is reflexive (no false differences). Inputs: repository sources, 22 accepted/rejected programs, generated programs of the executable resource-free subset (structs with methods, enums, namespaces, static const and mutable static globals, overloads, function templates, in/out/inout and default parameters, every statement and expression form) and short soups in valid programs.",
    "design_ref": "DESIGN.md §4 C01",
    "note": "Partial: what is proved is the comparison; that the front end's reading of the emitted text is HLSL's reading, and that semantics is invariant under renaming of local ids, are stated assumptions; no evaluator. Two known findings (comparison chains re-read as template arguments; volatile reaching a global through a typedef is dropped).",
    "technique": "Coq proof (soundness and reflexivity of the alpha-comparison of IR dumps) + translation validation of every export by re-reading the emitted text with the front end",
})

CHECKS.append({
    "property_id": "C02",
    "text": "Coq theorems for what is specific to the Metal exporter: on the usage fixpoint, a function receives a global as a trailing reference parameter exactly when the global is one Metal cannot express as a global and the function (transitively) reaches it; every argument appended to a call is a parameter of the caller; call and signature append the same sorted list; and for every function body, every aliasing of the argument variables and every store, the call through the generated trampoline leaves every variable of the caller as the HLSL copy-in / copy-out call does (with a witness that references alone differ under aliasing). The rest of the Metal text is compared with the HLSL text (validated against the typed IR by C01) token by token under explicit rules whose side conditions are facts computed from the IR independently of the exporter: threaded globals and their reachability per function, out / inout positions, default arguments, called functions, trampoline shape. Inputs: call graphs of every shape over functions reading and writing static / groupshared globals with out / inout / default parameters and namespaces, generated programs of the executable subset, repository sources.",
    "design_ref": "DESIGN.md §4 C02",
    "note": "Partial: the threading and trampoline theorems are about models; the agreement of the Metal text with the HLSL text is an oracle on the implementation, and intrinsics lowered by helpers are outside its rules. Two known findings (default arguments before threaded globals; two threaded globals with one short name).",
    "technique": "Coq proof (global threading = reachability on the usage fixpoint; trampoline = copy-in/copy-out for all bodies and aliasings) + rule-based comparison of the Metal text with the C01-validated HLSL text against IR facts",
})

_claimed = {c["property_id"] for c in CHECKS}
NOT_APPLICABLE = [
    {"property_id": p, "reason": "not yet claimed: model/theorems under construction (see DESIGN.md build order); no check registered until it passes on the unchanged tree"}
    for p in ALL if p not in _claimed
]
