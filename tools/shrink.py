#!/usr/bin/env python3
"""Line-based delta debugging of an RSSL program.
usage: shrink.py <file> <needle> [target] [-- extra probe args]
Keeps removing line ranges while `implrun probe <file> <target> nopipe` still prints a first line containing <needle>."""
import subprocess, sys, os, tempfile
B = os.path.join(os.path.dirname(os.path.abspath(__file__)), '..', '.cache', 'target', 'debug', 'implrun')

def holds(lines, needle, target, mode):
    with tempfile.NamedTemporaryFile('w', suffix='.rssl', delete=False) as f:
        f.write('\n'.join(lines) + '\n'); name = f.name
    try:
        if mode == 'c04':
            r = subprocess.run([B, 'run', 'C04', '--cases', '/dev/stdin', '--impl', '/dev/stdout'], input='S abs:%s\n' % name, capture_output=True, text=True, timeout=60)
            out = r.stdout
        else:
            r = subprocess.run([B, 'probe', name, target, 'nopipe'], capture_output=True, text=True, timeout=60)
            out = r.stdout.split('\n')[0]
        return needle in out
    except subprocess.TimeoutExpired:
        return False
    finally:
        os.unlink(name)

def main():
    path, needle = sys.argv[1], sys.argv[2]
    target = sys.argv[3] if len(sys.argv) > 3 else 'HlslForDirectX'
    mode = 'c04' if target == 'c04' else 'probe'
    lines = open(path).read().split('\n')
    assert holds(lines, needle, target, mode), 'predicate does not hold on the input'
    n = 2
    while len(lines) >= 1:
        chunk = max(1, len(lines) // n)
        removed = False
        i = 0
        while i < len(lines):
            cand = lines[:i] + lines[i + chunk:]
            if cand and holds(cand, needle, target, mode):
                lines = cand; removed = True
            else:
                i += chunk
        if not removed:
            if chunk == 1: break
            n = min(len(lines), n * 2)
    sys.stdout.write('\n'.join(lines) + '\n')
main()
