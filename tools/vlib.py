"""Generic check pipeline shared by all properties (see DESIGN.md §2.3).

  regenerate tables -> make (model+extraction, then proofs) -> audit -> build harness
  -> correspondence (implementation vs extracted model on the same case lines)
  -> direct oracle on the implementation's outputs -> evidence / replay / verdict
"""
import fcntl
import hashlib
import json
import os
import re
import subprocess
import sys
import time

ROOT = os.path.dirname(os.path.dirname(os.path.abspath(__file__)))
COQ = os.path.join(ROOT, "coq")
CACHE = os.path.join(ROOT, ".cache")
REPO = os.environ.get("RSSL_REPO", "/repo")
GUARD = "rssl_verif"

sys.path.insert(0, os.path.join(ROOT, "tools"))
import extract_tables  # noqa: E402

FORBIDDEN = [
    r"\bAdmitted\b", r"\badmit\b", r"\bAxiom\b", r"\bAxioms\b", r"\bParameter\b", r"\bParameters\b",
    r"\bConjecture\b", r"\bAdmit\s+Obligations\b", r"Unset\s+Guard\s+Checking", r"bypass_check",
    r"Unset\s+Positivity\s+Checking", r"Unset\s+Universe\s+Checking", r"-type-in-type", r"-impredicative-set",
    r"\bnative_compute\b",
]

# axioms from the standard library (and libraries built on it) that may appear under Print Assumptions
ALLOWED_AXIOMS = {
    "ClassicalDedekindReals.sig_forall_dec", "ClassicalDedekindReals.sig_not_dec",
    "FunctionalExtensionality.functional_extensionality_dep", "Classical_Prop.classic",
    "Eqdep.Eq_rect_eq.eq_rect_eq", "ProofIrrelevance.proof_irrelevance", "JMeq.JMeq_eq",
    "PropExtensionality.propositional_extensionality",
}


def log(msg):
    print("[check] " + msg, flush=True)


class Lock:
    def __enter__(self):
        os.makedirs(CACHE, exist_ok=True)
        self.f = open(os.path.join(CACHE, "lock"), "w")
        fcntl.flock(self.f, fcntl.LOCK_EX)
        return self

    def __exit__(self, *a):
        fcntl.flock(self.f, fcntl.LOCK_UN)
        self.f.close()


def sh(cmd, cwd=None, timeout=None, env=None):
    e = dict(os.environ)
    e.update({"CARGO_NET_OFFLINE": "true", "CARGO_TARGET_DIR": os.path.join(CACHE, "target")})
    if env:
        e.update(env)
    try:
        p = subprocess.run(cmd, cwd=cwd, env=e, stdout=subprocess.PIPE, stderr=subprocess.STDOUT,
                           timeout=timeout, text=True, errors="replace")
        return p.returncode, p.stdout
    except subprocess.TimeoutExpired as ex:
        out = ex.stdout or ""
        if isinstance(out, bytes):
            out = out.decode(errors="replace")
        return 124, out + "\n[timeout after %ss]" % timeout


# --------------------------------------------------------------------------
# Coq
# --------------------------------------------------------------------------

def strip_coq_comments(s):
    out, depth, i, n = [], 0, 0, len(s)
    in_str = False
    while i < n:
        if not in_str and s.startswith("(*", i):
            depth += 1
            i += 2
        elif not in_str and depth and s.startswith("*)", i):
            depth -= 1
            i += 2
        else:
            if depth == 0:
                if s[i] == '"':
                    in_str = not in_str
                out.append(s[i])
            elif s[i] == "\n":
                out.append("\n")
            i += 1
    return "".join(out)


def coq_files():
    fs = []
    for d in ("gen", "model", "proofs", "props", "extract"):
        p = os.path.join(COQ, d)
        if os.path.isdir(p):
            for f in sorted(os.listdir(p)):
                if f.endswith(".v"):
                    fs.append(os.path.join(d, f))
    return fs


def write_makefile():
    lines = open(os.path.join(COQ, "_CoqProject")).read().rstrip("\n").split("\n") + coq_files()
    text = "\n".join(lines) + "\n"
    allp = os.path.join(COQ, ".CoqProject.all")
    old = open(allp).read() if os.path.exists(allp) else None
    if old != text or not os.path.exists(os.path.join(COQ, "Makefile")):
        open(allp, "w").write(text)
        rc, out = sh(["coq_makefile", "-f", ".CoqProject.all", "-o", "Makefile"], cwd=COQ)
        if rc != 0:
            raise RuntimeError("coq_makefile failed: " + out)


def make(targets, timeout=2400, jobs=16):
    write_makefile()
    # the extraction files write into ocaml/gen and the translator into coq/gen: both are untracked, so a fresh
    # checkout does not have them
    os.makedirs(os.path.join(ROOT, "ocaml", "gen"), exist_ok=True)
    os.makedirs(os.path.join(COQ, "gen"), exist_ok=True)
    return sh(["make", "-j%d" % jobs, "-k"] + targets, cwd=COQ, timeout=timeout)


def cone(vfile):
    """Transitive RV dependencies of a .v file (relative paths under coq/), via Require lines."""
    by_mod = {os.path.splitext(os.path.basename(f))[0]: f for f in coq_files()}
    seen, todo = [], [vfile]
    while todo:
        f = todo.pop()
        if f in seen or not os.path.exists(os.path.join(COQ, f)):
            continue
        seen.append(f)
        src = strip_coq_comments(open(os.path.join(COQ, f)).read())
        for m in re.finditer(r"From\s+RV\s+Require\s+(?:Import|Export)?\s*([^.]*)\.", src):
            for mod in m.group(1).split():
                if mod in by_mod:
                    todo.append(by_mod[mod])
    return seen


def count_obligations(files):
    n = 0
    names = []
    for f in files:
        src = strip_coq_comments(open(os.path.join(COQ, f)).read())
        for m in re.finditer(r"\b(Theorem|Lemma|Example|Corollary|Fact|Proposition|Remark)\s+([A-Za-z0-9_']+)", src):
            names.append(m.group(2))
            n += 1
    return n, names


def audit_sources(files):
    """Forbidden constructs anywhere in the development. Returns list of problems."""
    bad = []
    for f in files:
        src = strip_coq_comments(open(os.path.join(COQ, f)).read())
        # strings may legitimately contain words; blank them
        src_ns = re.sub(r'"[^"]*"', '""', src)
        for pat in FORBIDDEN:
            for m in re.finditer(pat, src_ns):
                line = src_ns.count("\n", 0, m.start()) + 1
                bad.append("%s:%d: forbidden construct %r" % (f, line, m.group(0)))
        # Variable/Hypothesis outside a section
        depth = 0
        for m in re.finditer(r"^\s*(Section|End|Module|Variables?|Hypothes[ie]s|Context)\b[^.]*\.", src_ns, re.M):
            w = m.group(1)
            if w == "Section":
                depth += 1
            elif w == "End":
                depth = max(0, depth - 1)
            elif w in ("Variable", "Variables", "Hypothesis", "Hypotheses", "Context") and depth == 0:
                line = src_ns.count("\n", 0, m.start()) + 1
                bad.append("%s:%d: %s outside a section" % (f, line, w))
    proj = open(os.path.join(COQ, "_CoqProject")).read()
    for flag in ("-type-in-type", "-impredicative-set", "-vos", "-vok"):
        if flag in proj:
            bad.append("_CoqProject passes " + flag)
    return bad


def print_assumptions(prop_v, make_output_hint=None):
    """Re-run coqc on the property file (its dependencies are built) and collect Print Assumptions output."""
    os.makedirs(os.path.join(CACHE, "pa"), exist_ok=True)
    rc, out = sh(["coqc", "-R", ".", "RV", "-w", "-notation-overridden,-deprecated-hint-without-locality,-deprecated-instance-without-locality",
                  "-o", os.path.join(CACHE, "pa", os.path.basename(prop_v) + "o"), prop_v], cwd=COQ, timeout=1200)
    closed = len(re.findall(r"Closed under the global context", out))
    axioms = set()
    for m in re.finditer(r"^Axioms:\s*\n((?:.+\n?)+?)(?=^\S|\Z)", out, re.M):
        pass
    # axioms are printed as "name : type" lines (possibly wrapped) after a line "Axioms:"
    cur = False
    for line in out.split("\n"):
        if line.startswith("Axioms:"):
            cur = True
            continue
        if cur:
            m = re.match(r"^([A-Za-z_][A-Za-z0-9_.']*)\s*(:|$)", line)
            if m:
                axioms.add(m.group(1))
            elif line.startswith(" ") or line == "":
                continue
            else:
                cur = False
    src = strip_coq_comments(open(os.path.join(COQ, prop_v)).read())
    requested = len(re.findall(r"Print\s+Assumptions\s+", src))
    theorems = re.findall(r"\bTheorem\s+([A-Za-z0-9_']+)", src)
    printed = re.findall(r"Print\s+Assumptions\s+([A-Za-z0-9_']+)", src)
    missing = [t for t in theorems if t not in printed]
    return {"rc": rc, "closed": closed, "axioms": sorted(axioms), "requested": requested,
            "missing_print": missing, "raw": out[-4000:] if rc != 0 else ""}


def coqchk(vo):
    """Run the independent checker on one compiled file and its dependencies; parse its context summary."""
    mod = "RV." + vo[:-3].replace("/", ".")
    rc, out = sh(["coqchk", "-o", "-silent", "-R", ".", "RV", mod], cwd=COQ, timeout=3000)
    axioms, unsafe = [], []
    sect = None
    for line in out.split("\n"):
        m = re.match(r"^\* (.*?):\s*(.*)$", line)
        if m:
            sect = m.group(1)
            rest = m.group(2).strip()
            if sect == "Axioms" and rest and rest != "<none>":
                axioms.append(rest.split()[0])
            elif sect.startswith("Constants/Inductives relying") or sect.startswith("Inductives whose positivity"):
                if rest and rest != "<none>":
                    unsafe.append(sect + ": " + rest)
            continue
        t = line.strip()
        if not t or sect is None:
            continue
        if sect == "Axioms":
            axioms.append(t.split()[0])
        elif sect.startswith("Constants/Inductives relying") or sect.startswith("Inductives whose positivity"):
            unsafe.append(sect + ": " + t)
    # coqchk prints fully qualified names (Coq.Logic....); the allow-list uses the names Print Assumptions prints
    short = []
    for a in axioms:
        parts = a.split(".")
        short.append(".".join(parts[-2:]) if len(parts) >= 2 else a)
    return {"rc": rc, "axioms": sorted(set(short)), "unsafe": unsafe, "raw": out[-3000:]}


def failing_item(make_out):
    """From coqc's error output: (file, line, enclosing statement name)."""
    m = re.search(r'File "\./([^"]+)", line (\d+), characters', make_out)
    if not m:
        return None
    f, line = m.group(1), int(m.group(2))
    name = None
    try:
        src = open(os.path.join(COQ, f)).read().split("\n")
        for i in range(min(line, len(src)) - 1, -1, -1):
            mm = re.match(r"\s*(Theorem|Lemma|Example|Corollary|Definition|Fixpoint|Fact|Check)\s+([A-Za-z0-9_']+)", src[i])
            if mm:
                name = mm.group(2)
                break
    except OSError:
        pass
    err = make_out[m.start():m.start() + 600]
    return {"file": f, "line": line, "item": name, "error": err}


# --------------------------------------------------------------------------
# harness / model binaries
# --------------------------------------------------------------------------

def build_harness(release=False):
    h = os.path.join(ROOT, "harness")
    lock_src = os.path.join(REPO, "Cargo.lock")
    # start from the repository's lockfile so no registry access is needed
    if not os.path.exists(os.path.join(h, "Cargo.lock")) and os.path.exists(lock_src):
        import shutil
        shutil.copy(lock_src, os.path.join(h, "Cargo.lock"))
    cmd = ["cargo", "build", "--offline", "-q"] + (["--release"] if release else [])
    rc, out = sh(cmd, cwd=h, timeout=1800, env={"RUSTFLAGS": "--cfg " + GUARD})
    binp = os.path.join(CACHE, "target", "release" if release else "debug", "implrun")
    return rc, out, binp


def build_model(pid):
    ml = os.path.join(ROOT, "ocaml", "gen", "E%s.ml" % pid)
    binp = os.path.join(CACHE, "bin", "modelrun_" + pid)
    if not os.path.exists(ml):
        return 1, "extracted file %s missing" % ml, binp
    drv = os.path.join(ROOT, "ocaml", "driver.ml")
    if os.path.exists(binp) and os.path.getmtime(binp) >= max(os.path.getmtime(ml), os.path.getmtime(drv)):
        return 0, "", binp
    rc, out = sh([os.path.join(ROOT, "ocaml", "build.sh"), pid], cwd=os.path.join(ROOT, "ocaml"), timeout=900)
    return rc, out, binp


def run_model(binp, case_lines, shards=16):
    """Feed case lines to the extracted model, sharded over processes; returns output lines."""
    if not case_lines:
        return []
    n = len(case_lines)
    shards = max(1, min(shards, n // 200 + 1))
    size = (n + shards - 1) // shards
    procs = []
    for i in range(shards):
        part = case_lines[i * size:(i + 1) * size]
        if not part:
            continue
        p = subprocess.Popen(["sh", "-c", "ulimit -s unlimited 2>/dev/null; exec " + binp], stdin=subprocess.PIPE,
                             stdout=subprocess.PIPE, text=True)
        procs.append((p, part))
    # write inputs via threads to avoid pipe deadlock
    import threading
    outs = [None] * len(procs)

    def work(k, p, part):
        o, _ = p.communicate("\n".join(part) + "\n")
        outs[k] = o.split("\n")
        if outs[k] and outs[k][-1] == "":
            outs[k].pop()
        if len(outs[k]) != len(part):
            outs[k] = outs[k] + ["MODEL-CRASH"] * (len(part) - len(outs[k]))

    ts = [threading.Thread(target=work, args=(k, p, part)) for k, (p, part) in enumerate(procs)]
    [t.start() for t in ts]
    [t.join() for t in ts]
    res = []
    for o in outs:
        res.extend(o)
    return res


def run_impl_gen(binp, pid, seed, n, thorough, workdir, extra=None):
    cases = os.path.join(workdir, pid + ".cases")
    impl = os.path.join(workdir, pid + ".impl")
    cmd = [binp, "gen", pid, "--seed", str(seed), "--n", str(n), "--cases", cases, "--impl", impl]
    if thorough:
        cmd.append("--thorough")
    rc, out = sh(cmd + (extra or []), timeout=7200)
    if rc != 0:
        raise RuntimeError("implrun gen failed (%d): %s" % (rc, out[-2000:]))
    return read_lines(cases), read_lines(impl)


def run_impl_lines(binp, pid, lines, workdir, tag="replay"):
    cases = os.path.join(workdir, "%s.%s.cases" % (pid, tag))
    impl = os.path.join(workdir, "%s.%s.impl" % (pid, tag))
    with open(cases, "w") as f:
        f.write("".join(l + "\n" for l in lines))
    rc, out = sh([binp, "run", pid, "--cases", cases, "--impl", impl], timeout=3600)
    if rc != 0:
        raise RuntimeError("implrun run failed (%d): %s" % (rc, out[-2000:]))
    return read_lines(impl)


def read_lines(p):
    with open(p, encoding="utf-8", errors="replace") as f:
        s = f.read()
    ls = s.split("\n")
    if ls and ls[-1] == "":
        ls.pop()
    return ls


# --------------------------------------------------------------------------
# shrinking a disagreeing / violating case (word-list cases: fixed header + removable words)
# --------------------------------------------------------------------------

def shrink_words(line, header, still_bad, max_rounds=200):
    words = line.split(" ")
    head, body = words[:header], words[header:]
    rounds = 0
    changed = True
    while changed and rounds < max_rounds:
        changed = False
        # try removing chunks, large to small
        size = max(1, len(body) // 2)
        while size >= 1:
            i = 0
            while i < len(body):
                cand = body[:i] + body[i + size:]
                rounds += 1
                if cand != body and still_bad(" ".join(head + cand)):
                    body = cand
                    changed = True
                else:
                    i += size
                if rounds >= max_rounds:
                    break
            size //= 2
            if rounds >= max_rounds:
                break
    return " ".join(head + body)


# --------------------------------------------------------------------------
# replay / evidence / known findings
# --------------------------------------------------------------------------

def write_replay(pid, payload):
    os.makedirs(os.path.join(ROOT, "replays"), exist_ok=True)
    h = hashlib.sha1(json.dumps(payload, sort_keys=True).encode()).hexdigest()[:12]
    path = os.path.join(ROOT, "replays", "%s-%s.json" % (pid, h))
    payload = dict(payload)
    payload["property"] = pid
    payload["replay_cmd"] = "./check %s --replay %s" % (pid, path)
    with open(path, "w") as f:
        json.dump(payload, f, indent=1)
    return path


def known_findings(pid):
    """Entries of KNOWN_FINDINGS.txt for this property: list of (id, text) for `known:` lines."""
    path = os.path.join(ROOT, "KNOWN_FINDINGS.txt")
    res = []
    if not os.path.exists(path):
        return res
    for line in open(path):
        line = line.strip()
        m = re.match(r"^known:\s+property=(\S+)\s+id=(\S+)\s+(.*)$", line)
        if m and m.group(1) == pid:
            res.append((m.group(2), m.group(3)))
    return res


def write_evidence(pid, tier, seed, coverage, wall, violations, assumptions):
    os.makedirs(os.path.join(ROOT, "evidence"), exist_ok=True)
    ev = {"property_id": pid, "tier": tier, "seed": seed, "level": "proof", "coverage": coverage,
          "assumptions": assumptions, "wall_s": round(wall, 2), "violations": violations}
    with open(os.path.join(ROOT, "evidence", pid + ".json"), "w") as f:
        json.dump(ev, f, indent=1)
