#!/usr/bin/env python3
"""Re-pin the function digests of the reviewed hash-iteration table (coq/props/C07.v) after a REVIEWED change of /repo.
Only rows whose file, function, walked expression and class (without the digest) are unchanged are touched; new or
changed rows must be written by hand, with their justification."""
import os, re, sys
sys.path.insert(0, os.path.dirname(os.path.abspath(__file__)))
import inventory

ROOT = os.path.dirname(os.path.dirname(os.path.abspath(__file__)))
path = os.path.join(ROOT, "coq", "props", "C07.v")
src = open(path).read()
rows = list(re.finditer(r'\("([^"]*)", "([^"]*)", "((?:[^"]|"")*)", "([^"]*)",\s*\n\s*"((?:[^"]|"")*)"\)', src))
sites = inventory.sites()
if len(rows) != len(sites):
    sys.exit("the table has %d rows, the sources have %d walks: edit the table by hand" % (len(rows), len(sites)))
out, last, changed = [], 0, 0
for m, (f, fn, e, c) in zip(rows, sites):
    old_c = m.group(4)
    if (m.group(1), m.group(2), m.group(3).replace('""', '"')) != (f, fn, e) or old_c.split(" @")[0] != c.split(" @")[0]:
        sys.exit("row %s / %s / %s differs from the sources (%s / %s / %s / %s): edit the table by hand" % (m.group(1), m.group(2), m.group(3), f, fn, e, c))
    if old_c != c:
        changed += 1
        a, b = m.start(4), m.end(4)
        out.append(src[last:a] + c)
        last = b
out.append(src[last:])
open(path, "w").write("".join(out))
print("re-pinned %d function digests" % changed)
