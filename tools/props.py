"""Per-property configuration: which tables, Coq files, case counts, and the *direct oracle* —
an independent statement of the property evaluated on the implementation's own outputs
(search support and replay confirmation; never the claim)."""
import os
import re

RAW_OR_STRUCTURED = {"ByteAddressBuffer", "RWByteAddressBuffer", "BufferAddress", "RWBufferAddress",
                     "StructuredBuffer", "RWStructuredBuffer"}

# what the property text says each target's allocator must do
TARGET_SPEC = {
    "HlslForDirectX": dict(metal=False, ba=False, ss_slots=True),
    "HlslForVulkan": dict(metal=False, ba=False, ss_slots=True),
    "HlslForVulkan+BA": dict(metal=False, ba=True, ss_slots=True),
    "Msl": dict(metal=True, ba=False, ss_slots=False),
}


class Prop:
    id = None
    gens = []
    header = 0            # leading words of a case line that the shrinker must keep
    n_quick = 1000
    n_thorough = 20000
    release_too = False   # also run the release build of the harness
    assumptions = []
    trusted = []
    design_ref = ""

    def oracle(self, case, impl, model=None):
        """None if the property holds on this implementation output, else a message."""
        return None

    def nontrivial(self, case, impl):
        return True

    def kind(self, case):
        return "case"

    def known_class(self, case, impl, model):
        """id of a KNOWN_FINDINGS entry this disagreement/violation belongs to, or None."""
        return None

    def comparable(self, case, impl, model):
        """False when the implementation rejected an input the model does not cover (counted, not compared)."""
        return True

    def release_case(self, case):
        """The case line to use when the release build of the harness is driven."""
        return case

    def model_part(self, model):
        """The part of the model's output line that mirrors the implementation."""
        return model

    def impl_part(self, impl):
        """The implementation's output line reduced to what the model computes."""
        return impl


def _parse_c06(case):
    w = case.split()
    cfg, dflt = w[0], int(w[1])
    decls = []
    for x in w[2:]:
        k, a, s, ss, ex = x.split(",")
        decls.append(dict(kind=k, arr=None if a == "-" else int(a), set=None if s == "-" else int(s),
                          ss=ss == "1", ext=ex == "1"))
    if cfg.startswith("T:"):
        spec = dict(TARGET_SPEC[cfg[2:]])
    else:
        b = cfg[2:]
        spec = dict(metal=b[2] == "1", ba=b[1] == "1", ss_slots=b[3] == "1")
    return cfg, dflt, decls, spec


class C06(Prop):
    id = "C06"
    gens = ["GenBindings"]
    header = 2
    n_quick = 3000
    n_thorough = 60000
    design_ref = "DESIGN.md §4 C06"
    assumptions = [
        "model: coq/model/Bindings.v mirrors Module::assign_api_bindings/process_definition (hand-written; tied by correspondence)",
        "tables regenerated each run from ir/src/ir_types.rs, ir/src/ir_module.rs, src/compile.rs (ObjectType variants, slice_cost arms, is_buffer_address, AssignBindingsParams per target)",
        "u32 arithmetic modelled in unbounded N: no claim for >= 2^32 slots",
        "unbounded arrays and multi-dimensional resource arrays excluded (as in the property)",
    ]

    def oracle(self, case, impl, model=None):
        if impl.startswith("REJECT") or impl.startswith("BAD"):
            return None
        cfg, dflt, decls, spec = _parse_c06(case)
        if impl == "PANIC":
            # only the documented assert (non-extern buffer address as inline constant) may panic; that is C08's business
            return None
        left, _, right = impl.partition("|")
        words = left.split()
        if len(words) != len(decls):
            return "result has %d entries for %d declarations" % (len(words), len(decls))
        used, inl = {}, {}
        for d, w in zip(decls, words):
            k = d["kind"]
            grp = d["set"] if d["set"] is not None else dflt
            # only globals provided from outside the shader (storage class extern) are bound
            bindable = k == "c" or (k.startswith("o:") and d["ext"] and not (d["ss"] and not spec["ss_slots"]))
            if not bindable:
                if w != "-":
                    return "declaration %s takes no slot but got %s" % (k, w)
                continue
            if w == "-":
                return "bindable declaration %s received no binding" % k
            if w.startswith("DUP"):
                return "declaration %s has more than one metadata entry: %s" % (k, w)
            tag, s, i, c = w.split(",")
            s, i = int(s), int(i)
            name = k[2:] if k.startswith("o:") else k
            count = d["arr"] if d["arr"] is not None else 1
            cost = 2 if (spec["metal"] and name in RAW_OR_STRUCTURED) else 1
            if s != grp:
                return "%s bound in group %d, expected %d" % (k, s, grp)
            if c != "-" and int(c) != count:
                return "%s reports descriptor count %s, declared %d" % (k, c, count)
            is_addr = name in ("BufferAddress", "RWBufferAddress") and d["arr"] is None
            if spec["ba"] and is_addr:
                if tag != "C":
                    return "buffer address %s not placed in the inline constant block" % k
                if i != inl.get(grp, 0):
                    return "inline offset %d, expected %d" % (i, inl.get(grp, 0))
                inl[grp] = inl.get(grp, 0) + 8
            else:
                if tag != "I":
                    return "%s placed in the inline block" % k
                if i != used.get(grp, 0):
                    return "%s starts at slot %d of group %d, expected %d (ranges must tile from 0 in declaration order)" % (k, i, grp, used.get(grp, 0))
                used[grp] = used.get(grp, 0) + count * cost
        blocks = {}
        for b in right.split():
            s, l, z = (int(x) for x in b.split(","))
            if s in blocks:
                return "two inline blocks for group %d" % s
            blocks[s] = (l, z)
        if sorted(blocks) != sorted(inl):
            return "inline blocks for groups %s, expected %s" % (sorted(blocks), sorted(inl))
        for s, (l, z) in blocks.items():
            if z != inl[s]:
                return "inline block of group %d has size %d, expected %d" % (s, z, inl[s])
            if l != used.get(s, 0):
                return "inline block of group %d at slot %d, expected %d (after all other slots)" % (s, l, used.get(s, 0))
        return None

    def nontrivial(self, case, impl):
        # at least two bound declarations share a group (so contiguity/overlap is exercised)
        left = impl.partition("|")[0].split()
        groups = [w.split(",")[1] for w in left if "," in w]
        return len(groups) != len(set(groups))

    def kind(self, case):
        w = case.split()
        n = len(w) - 2
        return "%s len=%s" % (w[0][0], n if n <= 3 else ("4-6" if n <= 6 else ("7-12" if n <= 12 else "13+")))


# ---------------------------------------------------------------------------
# C19: reference layout rules, written independently of the Coq model
# ---------------------------------------------------------------------------
_SCALAR_SIZE = {"Float16": 2, "Int32": 4, "UInt32": 4, "Float32": 4, "Float64": 8}


def _parse_ty(w, pos):
    k = w[pos]
    if k == "s":
        return ("s", w[pos + 1]), pos + 2
    if k == "E":
        return ("E", w[pos + 1]), pos + 2
    if k == "V":
        return ("V", w[pos + 1], int(w[pos + 2])), pos + 3
    if k == "A":
        t, p2 = _parse_ty(w, pos + 2)
        return ("A", int(w[pos + 1]), t), p2
    if k == "S":
        n = int(w[pos + 1])
        pos += 2
        ms = []
        for _ in range(n):
            t, pos = _parse_ty(w, pos)
            ms.append(t)
        return ("S", ms), pos
    raise ValueError(k)


def _rup(x, a):
    return (x + a - 1) // a * a


def _ref_layout(t, metal, base, fields):
    """(size, align) under the reference rules; appends the offset of every leaf to fields. None = no layout."""
    k = t[0]
    if k in ("s", "E"):
        z = _SCALAR_SIZE.get(t[1])
        if z is None:
            return None
        fields.append(base)
        return z, z
    if k == "V":
        z = _SCALAR_SIZE.get(t[1])
        if z is None:
            return None
        fields.append(base)
        if metal:
            n = 1
            while n < t[2]:
                n *= 2
            return z * n, z * n
        return z * t[2], z
    if k == "A":
        probe = _ref_layout(t[2], metal, 0, [])
        if probe is None:
            return None
        z, a = probe
        # long arrays: elements 0, 1 and the last one decide whether two field lists are equal (every element has a leaf)
        idx = range(t[1]) if t[1] <= 8 else (0, 1, t[1] - 1)
        for i in idx:
            _ref_layout(t[2], metal, base + i * z, fields)
        return z * t[1], a
    if k == "S":
        cur, al = 0, 1
        for m in t[1]:
            probe = _ref_layout(m, metal, 0, [])
            if probe is None:
                return None
            z, a = probe
            cur = _rup(cur, a)
            _ref_layout(m, metal, base + cur, fields)
            cur += z
            al = max(al, a)
        return _rup(cur, al), al
    raise ValueError(k)


class C19(Prop):
    id = "C19"
    gens = ["GenLayout"]
    header = 0
    n_quick = 4000
    n_thorough = 150000
    design_ref = "DESIGN.md §4 C19"
    assumptions = [
        "reference layout rules = Layout.v spec_sa/spec_fields (trusted statement of HLSL structured-buffer packing and Metal struct layout)",
        "model: coq/model/Layout.v mirrors get_type_layout/get_field_offsets/check_layout (hand-written; tied by correspondence)",
        "scalar sizes and the no-layout scalar arm regenerated from ir/src/ir_types.rs and ir/src/layout_checker.rs",
        "sizes are computed in N; the implementation's checked u32 arithmetic is modelled by `check32` (a struct's running size, its rounded size, an array's size or length that does not fit in 32 bits => UNKNOWN), which is what the extracted model runs and what C19_check32_sound / C19_check32_reports_truth are about; cases with sizes around 2^32 are part of every run; matrices/objects have no layout (UNKNOWN)",
    ]

    def oracle(self, case, impl, model=None):
        if impl.startswith("REJECT") or impl.startswith("BAD"):
            return None
        w = case.split()
        t, _ = _parse_ty(w, 1)
        fh, fm = [], []
        lh = _ref_layout(t, False, 0, fh)
        lm = _ref_layout(t, True, 0, fm)
        if impl == "ACCEPT":
            if lh is None or lm is None:
                return "accepted a type without a layout"
            if _rup(lh[0], lh[1]) != _rup(lm[0], lm[1]):
                return "accepted, but total size is %d under HLSL packing and %d under Metal" % (_rup(lh[0], lh[1]), _rup(lm[0], lm[1]))
            if fh != fm:
                d = next(i for i in range(len(fh)) if fh[i] != fm[i])
                return "accepted, but field #%d is at offset %d under HLSL packing and %d under Metal" % (d, fh[d], fm[d])
            return None
        if impl.startswith("MISMATCH"):
            n = [int(x) for x in impl.split()[1:]]
            if lh is None or lm is None:
                return "reports sizes for a type without a layout"
            truth = [_rup(lh[0], lh[1]), lh[1], _rup(lm[0], lm[1]), lm[1]]
            if n != truth:
                return "rejection reports size/align %s, the true values are %s" % (n, truth)
            return None
        if impl.startswith("PANIC"):
            return "layout validation panicked"
        return None

    def nontrivial(self, case, impl):
        # nested aggregate or an accepted multi-member struct
        w = case.split()
        return w.count("S") + w.count("A") >= 2 or (impl == "ACCEPT" and len(w) > 5)

    def kind(self, case):
        w = case.split()
        depth = w.count("S") + w.count("A")
        return "use=%s aggregates=%s" % (w[0], depth if depth < 4 else "4+")


# ---------------------------------------------------------------------------
# C11: reference C conditional-group semantics, written independently of the Coq model
# ---------------------------------------------------------------------------
_M64 = (1 << 64) - 1


class _CondErr(Exception):
    pass


def _c11_eval(words, env):
    """C #if evaluation over unsigned 64-bit for the supported operators; raises _CondErr when malformed."""
    toks = []
    i = 0
    while i < len(words):
        w = words[i]
        if w == "defined":
            if i + 1 < len(words) and re.match(r"^[A-Za-z_]\w*$", words[i + 1]) and words[i + 1] not in ("true", "false"):
                toks.append(1 if words[i + 1] in env else 0)
                i += 2
            elif i + 3 < len(words) and words[i + 1] == "(" and re.match(r"^[A-Za-z_]\w*$", words[i + 2]) and words[i + 2] not in ("true", "false") and words[i + 3] == ")":
                toks.append(1 if words[i + 2] in env else 0)
                i += 4
            else:
                raise _CondErr()
            continue
        if re.match(r"^\d+u?$", w):
            toks.append(int(w.rstrip("u")))
        elif w == "true":
            toks.append(1)
        elif w == "false":
            toks.append(0)
        elif re.match(r"^[A-Za-z_]\w*$", w):
            if w in env:
                if env[w] is None:
                    pass            # empty expansion
                else:
                    toks.append(env[w])
            else:
                toks.append(0)
        elif w in ("(", ")", "!", "||", "&&", "==", "!=", "<", "<=", ">", ">="):
            toks.append(w)
        else:
            raise _CondErr()
        i += 1
    pos = [0]

    def peek():
        return toks[pos[0]] if pos[0] < len(toks) else None

    def unary():
        t = peek()
        if t == "!":
            pos[0] += 1
            return 0 if unary() else 1
        if t == "(":
            pos[0] += 1
            v = binary(0)
            if peek() != ")":
                raise _CondErr()
            pos[0] += 1
            return v
        if isinstance(t, int):
            pos[0] += 1
            return t & _M64
        raise _CondErr()

    levels = [["||"], ["&&"], ["==", "!="], ["<", "<=", ">", ">="]]

    def binary(l):
        if l == len(levels):
            return unary()
        v = binary(l + 1)
        while peek() in levels[l] and not isinstance(peek(), int):
            op = peek()
            pos[0] += 1
            r = binary(l + 1)
            v = {"||": int(bool(v) or bool(r)), "&&": int(bool(v) and bool(r)), "==": int(v == r), "!=": int(v != r),
                 "<": int(v < r), "<=": int(v <= r), ">": int(v > r), ">=": int(v >= r)}[op]
        return v

    v = binary(0)
    if pos[0] != len(toks):
        raise _CondErr()
    return v != 0


def _c11_reference(case):
    """Expected output under C's rules, or None when the input is outside what the property states
    (malformed condition somewhere, #else/#elif after #else)."""
    lines = [l.split() for l in case.split(";") if l.split()]
    env, out, stack = {}, [], []      # stack entries: [parent_active, taken, active, seen_else]

    def active():
        return all(s[2] for s in stack)

    # pre-check: every condition must be well formed in *some* sense; we only judge cases where all are
    for w in lines:
        if w[0] in ("if", "elif"):
            try:
                _c11_eval(w[1:], {"A": 1, "B": 1, "C": 1, "D": 1, "U": 1, "Q": 1})
            except _CondErr:
                return None
    for w in lines:
        k = w[0]
        if k in ("if", "ifdef", "ifndef"):
            pa = active()
            if not pa:
                stack.append([False, True, False, False])
                continue
            if k == "if":
                try:
                    v = _c11_eval(w[1:], env)
                except _CondErr:
                    return None      # e.g. a macro with an empty body inside the condition
            elif k == "ifdef":
                v = w[1] in env
            else:
                v = w[1] not in env
            stack.append([True, v, v, False])
        elif k in ("elif", "else"):
            if not stack:
                return "ERR ElseNotMatched"
            s = stack[-1]
            if s[3]:
                return None          # #else/#elif after #else: not a well-formed chain
            if k == "else":
                s[3] = True
                v = True
            else:
                if s[0] and not s[1]:
                    try:
                        v = _c11_eval(w[1:], env)
                    except _CondErr:
                        return None
                else:
                    v = False
            if s[0] and not s[1] and v:
                s[1], s[2] = True, True
            else:
                s[2] = False
        elif k == "endif":
            if not stack:
                return "ERR EndIfNotMatched"
            stack.pop()
        elif not active():
            continue
        elif k == "t":
            out.append("x" + w[1])
        elif k == "use":
            if w[1] in env:
                if env[w[1]] is not None:
                    out.append(str(env[w[1]]))
            else:
                out.append(w[1])
        elif k == "define":
            env[w[1]] = int(w[2]) if len(w) > 2 else None
        elif k == "undef":
            env.pop(w[1], None)
    if stack:
        return "ERR ConditionChainNotFinished"
    return " ".join(["OK"] + out)


def _c11_reference_files(case):
    """`F name : lines @ name : lines`: C's rules with #include as the file's lines in place (one condition chain for the
    whole translation unit), a #pragma once file contributing once.  None = outside what the property states (a
    directive the language rejects in a selected group, the depth limit, a malformed condition, #else after #else)."""
    files = {}
    for sec in case[2:].split("@"):
        name, _, body = sec.partition(":")
        files[name.strip()] = [l.split() for l in body.split(";") if l.split()]
    for ls in files.values():
        for w in ls:
            if w[0] in ("if", "elif"):
                try:
                    _c11_eval(w[1:], {"A": 1, "B": 1, "C": 1, "D": 1, "U": 1, "Q": 1, "G": 1})
                except _CondErr:
                    return None
    env, out, stack, once = {}, [], [], set()

    class Outside(Exception):
        pass

    class Reject(Exception):
        pass

    def active():
        return all(s[2] for s in stack)

    def run(name, depth):
        for w in files[name]:
            k = w[0]
            if k in ("if", "ifdef", "ifndef"):
                if not active():
                    stack.append([False, True, False, False])
                    continue
                if k == "if":
                    try:
                        v = _c11_eval(w[1:], env)
                    except _CondErr:
                        raise Outside()
                elif k == "ifdef":
                    v = w[1] in env
                else:
                    v = w[1] not in env
                stack.append([True, v, v, False])
            elif k in ("elif", "else"):
                if not stack:
                    raise Reject("ERR ElseNotMatched")
                s = stack[-1]
                if s[3]:
                    raise Outside()
                if k == "else":
                    s[3] = True
                    v = True
                elif s[0] and not s[1]:
                    try:
                        v = _c11_eval(w[1:], env)
                    except _CondErr:
                        raise Outside()
                else:
                    v = False
                if s[0] and not s[1] and v:
                    s[1], s[2] = True, True
                else:
                    s[2] = False
            elif k == "endif":
                if not stack:
                    raise Reject("ERR EndIfNotMatched")
                stack.pop()
            elif not active():
                continue          # nothing else in a skipped group has any effect
            elif k == "t":
                out.append("x" + w[1])
            elif k == "use":
                if w[1] in env:
                    if env[w[1]] is not None:
                        out.append(str(env[w[1]]))
                else:
                    out.append(w[1])
            elif k == "define":
                env[w[1]] = int(w[2]) if len(w) > 2 else None
            elif k == "undef":
                env.pop(w[1], None)
            elif k == "include":
                if w[1] not in files:
                    raise Reject("ERR FailedToFindFile")
                if depth >= 60:
                    raise Outside()      # endless inclusion: the limit is the implementation's
                if w[1] not in once:
                    run(w[1], depth + 1)
            elif k == "pragma":
                if w[1:2] == ["once"]:
                    once.add(name)
                elif w[1:2] != ["warning"]:
                    raise Outside()      # unknown pragmas are the implementation's to accept or reject
            else:
                raise Outside()          # an unknown directive in a selected group

    try:
        run("main.rssl", 0)
    except Outside:
        return None
    except Reject as r:
        return r.args[0]
    if stack:
        return "ERR ConditionChainNotFinished"
    return " ".join(["OK"] + out)


class C11(Prop):
    id = "C11"
    gens = ["GenCond"]
    header = 0
    n_quick = 3000
    n_thorough = 40000
    design_ref = "DESIGN.md §4 C11"
    assumptions = [
        "reference = Cond.v sem_item/sem_items/sem_tail (C's conditional groups over a well-nested tree) and ceval (unsigned 64-bit #if arithmetic)",
        "model: coq/model/Cond.v mirrors ConditionChain, preprocess_command's gating and condition_parser.rs (hand-written; tied by correspondence); switch table, BinOp::apply and per-level operator tokens regenerated from the source",
        "conditions reach the model pre-tokenised (words separated by blanks); lexing is C10's business",
        "macros inside conditions restricted to object-like macros with one integer literal or an empty body (general expansion is C12)",
        "#else/#elif after #else is outside the property's text: the model keeps the code's behaviour (accepted), the theorems and the oracle exclude it",
        "#include / #pragma / unknown directives: coq/model/CondIncl.v (hand-written; condition chain shared across files, once-set, MAX_INCLUDE_DEPTH regenerated from the source, the shape of preprocess_command's arms and of FileLoader::load checked by the translator); tied by F cases (several files) against the preprocessor; the C reference for them treats #include as the file's lines in place and leaves unknown pragmas / directives in selected groups and the depth limit to the implementation",
    ]

    def comparable(self, case, impl, model):
        return not case.startswith("I ")

    def oracle(self, case, impl, model=None):
        if case.startswith("I "):
            # #include / #pragma once in selected and unselected groups: the tokens C's rules let through are written
            # next to each probe (harness/src/c11.rs INCLUDE_PROBES)
            if impl.startswith("PANIC"):
                return "preprocessor panicked"
            if impl.startswith("PROBE ") and " | " in impl:
                got, want = impl[6:].split(" | ", 1)
                if got.strip() != want.strip():
                    return "directive probe %s: C's rules let `%s` through, the preprocessor produced `%s`" % (case.split()[1], want.strip(), got.strip())
            return None
        exp = _c11_reference_files(case) if case.startswith("F ") else _c11_reference(case)
        if exp is None:
            return None
        if impl.startswith("PANIC"):
            return "preprocessor panicked"
        if exp != impl:
            return "C semantics select %r, the preprocessor produced %r" % (exp, impl)
        return None

    def shrink_sep(self):
        return " ; "

    def nontrivial(self, case, impl):
        if case.startswith("I "):
            return impl.startswith("PROBE")
        return impl.startswith("OK") and ("if" in case)

    def kind(self, case):
        if case.startswith("I "):
            return "include / pragma probes"
        if case.startswith("F "):
            files = case.count("@") + 1
            skipped = any(("if 0 ; %s" % w) in case or ("else ; %s" % w) in case for w in ("include", "pragma", "bogus"))
            return "files=%d%s%s" % (files, " with include" if "include" in case else "", " directive after a false condition / #else" if skipped else "")
        n = case.count(";") + 1
        return "%s lines=%s" % (("ok" if "endif" in case else "open"), n if n <= 4 else ("5-8" if n <= 8 else ("9-20" if n <= 20 else "21+")))


# ---------------------------------------------------------------------------
# C16: independent reading of the priority table in the header comment of typer/src/casting.rs
# ---------------------------------------------------------------------------
_FL = ["Float16", "Float32", "Float64"]
_TIERS = {
    "Bool": [["Bool"], ["UInt32", "Int32"] + _FL],
    "Int32": [["Int32"], ["UInt32"], ["Bool"], _FL],
    "IntLiteral": [["UInt32", "Int32"], ["Bool"], _FL],
    "UInt32": [["UInt32"], ["Int32"], ["Bool"], _FL],
    "Float16": [["Float16"], ["Float32"], ["Float64"], ["Bool", "Int32", "UInt32"]],
    "Float32": [["Float32"], ["Float64"], ["Bool", "Int32", "UInt32", "Float16"]],
    "Float64": [["Float64"], ["Bool", "Int32", "UInt32", "Float32", "Float16"]],
    "FloatLiteral": [_FL, ["Bool", "Int32", "UInt32"]],
}


def _c16_type(w):
    m = re.match(r"^([A-Za-z0-9]+?)(s|v[1-4])([olrc]*)$", w)
    return m.group(1), (1 if m.group(2) == "s" else int(m.group(2)[1])), m.group(3)


def _c16_conv(arg, par):
    """(tier, vector rank) of converting arg to par, or None if not viable."""
    asc, ad, af = arg
    psc, pd, pf = par
    lv = "l" in af
    if "o" in pf:
        # the signature's parameter type carries no const (strip_param_type): a const argument cannot bind to it
        if not lv or asc != psc or ad != pd or "c" in af:
            return None
        return (0, 0)
    tier = next(i for i, t in enumerate(_TIERS[asc]) if psc in t) if asc != psc else 0
    if asc in ("IntLiteral", "FloatLiteral"):
        tier += 1      # a literal is never an exact match; only relative order matters
    if ad == pd:
        v = 0
    elif ad == 1:
        v = 1
    elif pd < ad:
        v = 2
    else:
        return None
    return (tier, v)


def _c16_viable(sigs, args):
    res = {}
    for sid, nd, ps in sigs:
        if not (nd <= len(args) <= len(ps)):
            continue
        cs = [_c16_conv(a, p) for a, p in zip(args, ps)]
        if all(c is not None for c in cs):
            res[sid] = cs
    return res


class C16(Prop):
    id = "C16"
    gens = ["GenLayout", "GenCasting"]
    header = 0
    n_quick = 1500
    n_thorough = 60000
    design_ref = "DESIGN.md §4 C16"
    assumptions = [
        "model: coq/model/Overload.v mirrors ImplicitConversion::find/get_rank (scalars and vectors) and find_function_type's tournament + vector-rank histogram (hand-written; tied by correspondence)",
        "NumericRank/order, the scalar rank matrix and VectorRank::worst_to_best regenerated from typer/src/casting.rs; the shape of NumericRank::compare is checked by the translator",
        "dominance is lexicographic in (numeric rank, vector rank) per argument (trusted definition OverloadProofs.dominates)",
        "templates, matrices, enums, structs/objects as parameters are outside the model",
    ]

    def oracle(self, case, impl, model=None):
        parts = case.split("|")
        v1, _, v2 = impl.partition(" ; ")
        if "REJECT" in impl or "BAD" in impl:
            return None
        if "PANIC" in impl:
            return "type checker panicked"
        if v1 != v2:
            return "verdict depends on declaration order: %s vs %s" % (v1, v2)
        if re.search(r"v1", case):
            return None       # 1-vectors are outside the property's alphabet
        sigs = []
        for w in parts[0].split():
            sid, nd, ps = w.split(":")
            sigs.append((sid, int(nd), [_c16_type(p) for p in ps.split(",") if p]))
        args = [_c16_type(a) for a in parts[1].split()]
        viable = _c16_viable(sigs, args)
        exact = [sid for sid, cs in viable.items() if all(c == (0, 0) for c in cs)]
        if len(exact) == 1 and v1 != "SEL " + exact[0]:
            return "overload %s matches the argument types exactly but the call gave %s" % (exact[0], v1)
        if v1.startswith("SEL "):
            sel = v1.split()[1]
            if sel not in viable:
                return "selected overload %s is not viable for these arguments" % sel
            cs = viable[sel]
            for sid, ds in viable.items():
                if sid != sel and all(d <= c for d, c in zip(ds, cs)) and any(d < c for d, c in zip(ds, cs)):
                    return "selected overload %s is dominated by viable overload %s" % (sel, sid)
        return None

    def nontrivial(self, case, impl):
        return impl.startswith("SEL") or impl.startswith("AMBIGUOUS")

    def kind(self, case):
        parts = case.split("|")
        return "overloads=%d params=%d" % (len(parts[0].split()), len(parts[1].split()))


class C13(Prop):
    id = "C13"
    gens = ["GenEvaluator"]
    header = 0
    n_quick = 3000
    n_thorough = 60000
    release_too = True
    allowed_axioms = []
    design_ref = "DESIGN.md §4 C13"
    assumptions = [
        "reference = Evaluator.v ref_eval (ref_arith/ref_neg/ref_cast...: 32-bit wrap-around, 5-bit shift counts, exact literal arithmetic in a 128-bit carrier, Rust-`as`/D3D float->int conversion, round-to-nearest-even int->float)",
        "model: coq/model/Evaluator.v mirrors evaluate_constexpr/operator/cast; every arm's Rust operator is regenerated from typer/src/evaluator.rs (GenEvaluator) and interpreted by rust_arith/rust_neg with explicit debug-build panics",
        "the IR of each initialiser is taken from the non-const variant of the same declaration and serialised by the harness; variables, globals and sizeof of non-scalars are outside the model (X)",
        "floating point via Flocq binary32/binary64 (half carries single precision, as in the code); NaN payloads are canonicalised",
        "the asserts on mixed enum / non-enum operands and `~` on a non-integer constant are modelled as Panic and excluded from the theorem's domain by wf_expr only through reachability (the typer inserts casts); they are exercised by the correspondence run",
        "the other positions that demand a constant (explicit enum values, case labels, array sizes, numthreads arguments) are observed on the implementation: Q cases put one int expression in each and every position must report the value the const initialiser has (which the model checks)",
        "enum values: coq/model/EnumVals.v mirrors the successor rule of parse_rootdefinition_enum and the underlying-type selection of end_enum (hand-written; the translator checks the shape of both functions, N cases compare enums of 1..4 enumerators from first values at the ends of every range); `C13_enum_values_exact` shows the values are the consecutive integers",
    ]

    def release_case(self, case):
        return "0" + case[1:] if case.startswith("1 ") else case

    def model_part(self, model):
        return model.split(" ; ")[0] if model else model

    def comparable(self, case, impl, model):
        if case.split()[1:2] == ["Q"]:
            return False
        return not (impl.startswith("REJECT") or impl.startswith("IR-CHANGED") or impl.startswith("BAD"))

    def oracle(self, case, impl, model=None):
        if case.split()[1:2] == ["Q"]:
            # the same expression in every position that demands a constant: one value
            if not impl.startswith("POS "):
                return "constant evaluation aborted: " + impl if impl.startswith("PANIC") else None
            f = dict(x.split("=", 1) for x in impl.split()[1:])
            v = f["const"]
            for pos in ("enum", "case", "array", "threads"):
                if pos not in f:
                    continue
                got = f[pos].split(":")[-1] if pos == "case" and not f[pos].startswith(("REJECT", "PANIC")) else f[pos]
                if got.startswith("PANIC"):
                    return "expression %s aborts the compiler as %s" % (case.split(" # ")[1], pos)
                if got != v:
                    return "expression %s is %s as a const initialiser and %s as %s" % (case.split(" # ")[1], v, f[pos], {"enum": "an enum value", "case": "a case label", "array": "an array size", "threads": "a numthreads argument"}[pos])
            return None
        if not model or " ; " not in model or not self.comparable(case, impl, model):
            return None
        ref = model.split(" ; ")[1]
        if impl.startswith("PANIC"):
            return "constant evaluation aborted (reference value: %s)" % ref
        if impl != ref:
            return "the evaluator yields %r, HLSL semantics define %r" % (impl, ref)
        return None

    def nontrivial(self, case, impl):
        if case.split()[1:2] == ["N"]:
            return impl.startswith("ENUM")
        if case.split()[1:2] == ["Q"]:
            return impl.startswith("POS") and impl.count("=") >= 3
        return case.count(" B ") + case.count(" U ") + case.count(" C ") >= 2

    def kind(self, case):
        if case.split()[1:2] == ["N"]:
            return "enum successors " + case.split()[4 if case.split()[3] == "i" else 3]
        if case.split()[1:2] == ["Q"]:
            return "constant positions"
        ir = case.split(" # ")[0]
        n = ir.count(" B ") + ir.count(" U ") + ir.count(" C ")
        return "%s nodes=%s" % (case.split(" # ")[1] if " # " in case else "?", n if n < 4 else ("4-8" if n <= 8 else "9+"))


# ---------------------------------------------------------------------------
# C10: spans tile the file; literal values checked with Python's own (correctly rounded) conversions
# ---------------------------------------------------------------------------
import struct


def _f32_bits(x):
    try:
        return struct.unpack("<I", struct.pack("<f", x))[0]
    except OverflowError:
        return 0x7F800000


class C10(Prop):
    id = "C10"
    gens = ["GenLexer"]
    header = 0
    n_quick = 2000
    n_thorough = 60000
    design_ref = "DESIGN.md §4 C10"
    assumptions = [
        "model: coq/model/Lexer.v mirrors token_intermediate and every recogniser of preprocess/src/lexer.rs plus TokenStream (hand-written; tied by correspondence on token kinds, payloads and spans); keyword, symbol and suffix tables regenerated from the source",
        "reference float value = Numbers.dec2f64_core (Flocq binary_normalize / SFdiv_core_binary + binary_round_aux), proved correctly rounded; the executable dec2f64 short-circuits exponents beyond +-400 (outside the property's range) without building 10^|e|",
        "since the repair the implementation delegates to Rust's str::parse::<f64> (documented as correctly rounded); that contract is what the bit-for-bit correspondence checks",
        "inputs are valid UTF-8 (the API takes &str), so the invalid-UTF-8 string error is unreachable (utf8_ok = true)",
        "token streams are observed through preprocess() on directive-free, macro-free texts",
        "'that value appears unchanged in the output': P cases put a literal through the parser and the exporters' printer (rssl_formatter, HLSL target) and the model lexes the printed text - it must be a literal token of the same kind and value (integers: the same value) as the source text under the reference conversion; literals folded or converted by the type checker before printing are C09's / C13's subject",
    ]

    def model_input(self, case, impl):
        # a printed literal is handed to the model together with its source text: the model lexes both
        if case.startswith("P:") and impl.startswith("PRINT "):
            return "%s:%s" % (case.strip(), impl.split()[1])
        return case

    def comparable(self, case, impl, model):
        if case.startswith("P:"):
            return impl.startswith("PRINT ") and model is not None and not model.startswith("NOT-A-LITERAL") and not model.startswith("PARSE-ERROR")
        return True

    def oracle(self, case, impl, model=None):
        if case.startswith("P:"):
            if impl.startswith("PANIC"):
                return "parser or printer aborted on a literal: " + impl
            if model is not None and model.startswith("VALUE-CHANGED"):
                try:
                    a, b = bytes.fromhex(case.strip()[2:]).decode("latin-1"), bytes.fromhex(impl.split()[1]).decode("latin-1")
                except (ValueError, IndexError):
                    a, b = case, impl
                return "literal %r is printed as %r, which is another value (%s)" % (a, b, model[14:200])
            return None
        try:
            data = bytes.fromhex(case.strip())
        except ValueError:
            return None
        n = len(data)
        if impl.startswith("PANIC"):
            return "lexer aborted"
        if impl.startswith("ERR "):
            w = impl.split()
            if int(w[2]) > n:
                return "diagnostic position %s lies outside the %d-byte file" % (w[2], n)
            return None
        if not impl.startswith("OK"):
            return None
        pos = 0
        toks = impl.split()[1:]
        for i, t in enumerate(toks):
            m = re.match(r"^(.*)@(\d+)-(\d+)$", t)
            if not m:
                return "unreadable token %r" % t
            name, a, b = m.group(1), int(m.group(2)), int(m.group(3))
            if a != pos or b < a:
                return "token %s spans %d-%d but the previous one ended at %d (spans must tile the file)" % (name, a, b, pos)
            if b == a and not (i == len(toks) - 1 and name == "Endline"):
                return "empty token %s at %d" % (name, a)
            pos = b
            text = data[a:b].decode("latin-1")
            mi = re.match(r"^(LiteralInt\w*)\((-?\d+)\)$", name)
            if mi:
                body = re.sub(r"[uUlL]+$", "", text)
                if body.startswith("0x"):
                    v = int(body[2:], 16)
                elif len(body) > 1 and body[0] == "0" and body[1] in "01234567":
                    v = int(re.match(r"^[0-7]+", body[1:]).group(0), 8)
                else:
                    v = int(body)
                if v != int(mi.group(2)) or v >= 2 ** 64:
                    return "integer literal %r lexed as %s" % (text, mi.group(2))
            mf = re.match(r"^(LiteralFloat\w*)\((\d+)\)$", name)
            if mf and "#INF" not in text:
                body = re.sub(r"[fFhHlL]$", "", text)
                x = float(body)
                bits = int(mf.group(2))
                exp = struct.unpack("<Q", struct.pack("<d", x))[0] if mf.group(1) in ("LiteralFloat", "LiteralFloat64") else _f32_bits(x)
                if bits != exp:
                    return "float literal %r has bits %d, the nearest value has bits %d" % (text, bits, exp)
        if pos != n:
            return "tokens end at %d, the file has %d bytes" % (pos, n)
        return None

    def nontrivial(self, case, impl):
        if case.startswith("P:"):
            return impl.startswith("PRINT ")
        return impl.count("@") >= 2

    def kind(self, case):
        if case.startswith("P:"):
            return "literal printed"
        n = len(case) // 2
        return "bytes=%s" % ("1-8" if n <= 8 else ("9-32" if n <= 32 else "33+"))


# ---------------------------------------------------------------------------
# C15: hygiene of generated names, checked on the implementation's own output
# ---------------------------------------------------------------------------
_RESERVED_CACHE = {}


def _reserved(target):
    """Reserved names of a target, read from the exporter's source by a regex of its own."""
    crate = "msl" if target.startswith("m") or target == "Msl" else "hlsl"
    if crate not in _RESERVED_CACHE:
        import os
        src = open(os.path.join(os.environ.get("RSSL_REPO", "/repo"), crate, "src", "names.rs")).read()
        consts = dict(re.findall(r'pub const (\w+): &str = "([^"]*)";', src))
        body = src[src.index("RESERVED_NAMES"):]
        body = body[body.index("&[", body.index("=")):body.index("];")]
        names = set(re.findall(r'"([^"]*)"', body))
        for c, v in consts.items():
            if re.search(r"\b%s\b" % c, body):
                names.add(v)
        _RESERVED_CACHE[crate] = names
    return _RESERVED_CACHE[crate]


_UNMANAGED_POSITIONS = {"member", "enumvalue", "cbuffer", "cbuffermember", "templateparam"}


class C15(Prop):
    id = "C15"
    gens = ["GenNames"]
    header = 0
    n_quick = 3000
    n_thorough = 40000
    design_ref = "DESIGN.md §4 C15"
    assumptions = [
        "model: coq/model/NameGen.v mirrors NameMap::build (hand-written; tied by correspondence on every symbol's generated name); reserved lists regenerated from hlsl/src/names.rs and msl/src/names.rs, the shape of the suffix format / sort / kept-name logic is checked by the translator",
        "the symbol table of each case is serialised from the typed module in the order build() visits it",
        "what is a reserved word of the target: the reviewed lists of coq/model/TargetWords.v (C++14 keywords and alternative tokens, HLSL keywords and built-in types, Metal address spaces, qualifiers and global scalar types; written by hand from the languages' documents, part of the trusted base) - `C15_target_words_are_reserved` shows each is an entry of the exporter's regenerated RESERVED_NAMES, and corpus/C15/target_words.txt probes each in every declaration position",
        "names the generator never sees (struct members, enum values, cbuffer names and members, template parameters) are outside the model; they are probed on the emitted text and recorded as known findings",
        "'every use refers to the entity it referred to': proved for the path model (coq/model/Scopes.v, `C15_emitted_path_names_its_symbol`: the path `emit` writes for a symbol resolves, by the front end's lookup, to that symbol from every use site, under every stack of local frames); tied by running `Scopes.emit` against NameMap::get_name_qualified for every symbol x every use site (root and each namespace) of every table case, incl. programs of shadowing names three namespaces deep with enum values, members and methods of the same names; and end to end by U cases: the emitted HLSL of such programs is read back by the front end and every function body must name the same entities",
        "the environment handed to `Scopes.emit` (which namespaces exist, what each declares, which names are members / locals / methods) is built from the case's symbol table by the extraction glue (coq/extract/EC15.v), not proved",
        "renaming: proved for one scope of the name generator whose names are fresh (`C15_renaming_renames_the_result`) and for its local-variable pass (`C15_renaming_renames_the_locals`; coq/proofs/NameGenEquiv.v); not proved for the stages around the generator, which the renaming / probe runs sample",
    ]

    # pairs of entity kinds that share a name in one scope of the emitted HLSL on the unchanged tree: one side is always
    # a name the generator does not manage (enum value, constant buffer, constant buffer member)
    _TYPE_VALUE_PAIRS = {("enum value", "struct"), ("enum", "enum value"), ("constant buffer member", "struct"), ("constant buffer member", "enum")}
    _CBUFFER_PAIRS = {("constant buffer", k) for k in ("global", "function", "namespace", "constant buffer member", "struct", "enum", "enum value")}

    def known_class(self, case, impl, model):
        if case.startswith("N ") and impl.startswith("DUP-NAME"):
            m = re.search(r"is declared as (.*?) and as (.*?) in scope", impl)
            if m:
                pair = tuple(sorted((m.group(1), m.group(2))))
                if pair in self._TYPE_VALUE_PAIRS:
                    return "type-and-unmanaged-value-of-one-name"
                if pair in self._CBUFFER_PAIRS:
                    return "constant-buffer-name-shared"
            return None
        if case.startswith("R ") and impl.startswith("LEAK"):
            pos = case.split()[2]
            if pos in _UNMANAGED_POSITIONS:
                return "reserved-name-kept-in-" + pos
        return None

    def comparable(self, case, impl, model):
        return not (impl.startswith("REJECT") or impl.startswith("IR-CHANGED") or impl.startswith("BAD") or case.startswith("U ") or case.startswith("N ")
                    or (case.startswith("R ") and impl.startswith("PANIC")))

    def oracle(self, case, impl, model=None):
        if case.startswith("U "):
            if impl.startswith("USES-DIFFER"):
                return "a use in the emitted HLSL names another entity than in the source: " + impl[12:400]
            if impl.startswith("REREAD-REJECTED") or impl.startswith("MISSING") or impl.startswith("REREAD-PANIC"):
                return "the emitted HLSL of a program of shadowing names does not read back as the program: " + impl[:300]
            return None
        if case.startswith("R "):
            if impl.startswith("LEAK"):
                w = case.split()
                return "reserved name %r is emitted as the name of a %s on %s" % (w[3], w[2], w[1])
            return None
        if case.startswith("N "):
            if impl.startswith("DUP-NAME"):
                return "the emitted HLSL declares two entities of one name in one scope: " + impl[9:300]
            return None      # aborts on such programs are C08's subject (type-named-like-function is recorded there)
        if not self.comparable(case, impl, model):
            return None
        if impl.startswith("PANIC"):
            return "name generation aborted"
        head = case.split(" # ")[0].split()
        extras = []
        if "|" in head:
            extras = head[head.index("|") + 1:]
            head = head[:head.index("|")]
        target, w = head[0], head[1:]
        reserved = _reserved(target)
        decls, i = {}, 0
        scopes = {}
        while i < len(w):
            if w[i] == "L":
                decls[("L", w[i + 1])] = (None, w[i + 2])
                i += 3
            else:
                kind = "NSEGF".index(w[i])
                decls[(str(kind), w[i + 1])] = (w[i + 2], w[i + 3])
                scopes.setdefault(w[i + 2], {}).setdefault(w[i + 3], []).append((str(kind), w[i + 1]))
                i += 4
        got, anchors = {}, {}
        for t in impl.split():
            m = re.match(r"^Q:(\d+):(\d+)=([01]*)$", t)
            if m:
                anchors[(m.group(1), m.group(2))] = m.group(3)
                continue
            m = re.match(r"^(\w+):(\d+)=(.*)$", t)
            if not m:
                return "unreadable result %r" % t
            got[(m.group(1), m.group(2))] = m.group(3)
        why = self._paths_resolve(decls, extras, got, anchors)
        if why:
            return why
        for key in decls:
            if key not in got:
                return "symbol %s:%s received no name" % key
        for sc, names in scopes.items():
            seen = {}
            for name, syms in names.items():
                for sym in syms:
                    g = got[sym]
                    if g in reserved:
                        return "symbol %s:%s is emitted under the reserved name %r" % (sym[0], sym[1], g)
                    if g in seen:
                        return "two symbols of one scope share the generated name %r" % g
                    seen[g] = sym
                if len(syms) == 1 and name not in reserved and got[syms[0]] != name:
                    return "name %r is unique in its scope and not reserved but was renamed to %r" % (name, got[syms[0]])
        generated = set(got[key] for key, (_, name) in decls.items() if key[0] != "L" and got[key] != name)
        for key, (_, name) in decls.items():
            if key[0] == "L" and got[key] in reserved:
                return "local %s is emitted under the reserved name %r" % (key[1], got[key])
            if key[0] == "L" and got[key] in generated:
                return "local %s is emitted under %r, a name generated for a global symbol" % (key[1], got[key])
        return None

    @staticmethod
    def _paths_resolve(decls, extras, got, anchors):
        """The path the exporters write for every symbol (namespaces from the root, then the name; `::` in front where
        the flag says so), looked up the way the front end does from every use site, must find that symbol."""
        if not anchors:
            return None
        nss = sorted((int(i) for (k, i) in decls if k == "0"))
        parent = {int(i): (None if decls[(k, i)][0] == "-" else int(decls[(k, i)][0])) for (k, i) in decls if k == "0"}
        def path(ns):          # generated names from the root
            out = []
            while ns is not None:
                out.insert(0, got[("0", str(ns))])
                ns = parent[ns]
            return tuple(out)
        ns_paths = {path(n) for n in nss}
        has = set()            # (namespace path, name)
        for (k, i), (sc, _) in decls.items():
            if k in ("1", "2", "3", "4"):
                has.add((path(None if sc == "-" else int(sc)), got[(k, i)]))
        inner = {got[key] for key in decls if key[0] == "L"}
        j = 0
        while j < len(extras):
            if extras[j] == "V":
                has.add((path(int(extras[j + 1])), extras[j + 2])); j += 3
            elif extras[j] == "M":
                inner.add(extras[j + 1]); j += 2
            elif extras[j] == "T":
                inner.add(got.get(("4", extras[j + 1]), "")); j += 2
            else:
                return "unreadable table extras"
        def find_in(s, dirs, leaf):
            t = tuple(s)
            for d in dirs:
                t = t + (d,)
                if t not in ns_paths:
                    return None
            return t if (t, leaf) in has else None
        sites = [None] + nss
        for (k, i), flags in anchors.items():
            sc = decls[(k, i)][0]
            home = path(None if sc == "-" else int(sc))
            leaf = got[(k, i)]
            if len(flags) != len(sites):
                return "unreadable anchor flags"
            for u, fl in zip(sites, flags):
                if fl == "1":
                    found = find_in((), home, leaf)
                else:
                    first = (list(home) + [leaf])[0]
                    if first in inner:
                        return "the path of %s:%s (%s) written without `::` starts with %r, which a local, a member or a method can also be called" % (k, i, "::".join(home + (leaf,)), first)
                    s_ = list(path(u))
                    found = None
                    while True:
                        found = find_in(tuple(s_), home, leaf)
                        if found is not None or not s_:
                            break
                        s_.pop()
                if found != home:
                    return "the path %s%s written for %s:%s inside namespace %s is looked up as %s" % (
                        "::" if fl == "1" else "", "::".join(home + (leaf,)), k, i, "::".join(path(u)) or "<root>",
                        "::".join(found + (leaf,)) if found is not None else "nothing")
        return None

    def nontrivial(self, case, impl):
        if case.startswith("U "):
            return impl.startswith("USES-SAME") and impl != "USES-SAME 0"
        if case.startswith("N "):
            return impl.startswith("DECLS")
        return not case.startswith("R ") and (re.search(r"_\d+\b", impl) is not None or re.search(r"Q:\d+:\d+=[01]*1", impl) is not None)

    def kind(self, case):
        if case.startswith("U "):
            return "uses re-read"
        if case.startswith("R "):
            return "probe " + case.split()[2]
        if case.startswith("N "):
            return "one name, several declarations"
        return "table " + case[0]



# ---------------------------------------------------------------------------
# C09: printing and parsing are inverse
# ---------------------------------------------------------------------------
_C09_ARITY = {"U": (1, 1), "B": (1, 2), "T": (0, 3), "S": (0, 2), "K": (1, 1)}
_C09_FLOAT = {"FloatUntyped": 64, "Float64": 64, "Float32": 32, "Float16": 32}


def _c09_tree(w, i):
    """Parse a prefix-word tree into nested tuples; literal leaves become ('l', kind, bits)."""
    k = w[i]
    if k == "l":
        # the spelling word is present in case lines and in the harness output
        return ("l", w[i + 1], int(w[i + 2], 16)), i + 4
    if k == "v":
        return ("v", w[i + 1]), i + 2
    if k == "M":
        a, j = _c09_tree(w, i + 1)
        return ("M", a, w[j]), j + 1
    if k == "C":
        n = int(w[i + 1])
        f, j = _c09_tree(w, i + 2)
        args = []
        for _ in range(n):
            a, j = _c09_tree(w, j)
            args.append(a)
        return ("C", f, tuple(args)), j
    words, kids = _C09_ARITY[k]
    head = tuple(w[i + 1:i + 1 + words])
    j = i + 1 + words
    out = []
    for _ in range(kids):
        a, j = _c09_tree(w, j)
        out.append(a)
    return (k,) + head + tuple(out), j


def _c09_canon(t):
    """A literal printed with a minus sign reads back as Minus applied to the positive literal: same value and type."""
    if t[0] == "l":
        _, kind, bits = t
        if kind in _C09_FLOAT:
            sign = 1 << (_C09_FLOAT[kind] - 1)
            if bits & sign:
                return ("U", "Minus", ("l", kind, bits & ~sign))
        if kind == "IntSigned64" and bits >> 63:
            return ("U", "Minus", ("l", kind, (1 << 64) - bits))
        return t
    if t[0] == "v":
        return t
    if t[0] == "M":
        return ("M", _c09_canon(t[1]), t[2])
    if t[0] == "C":
        return ("C", _c09_canon(t[1]), tuple(_c09_canon(a) for a in t[2]))
    words = _C09_ARITY[t[0]][0]
    return t[:1 + words] + tuple(_c09_canon(a) for a in t[1 + words:])


def _c09_has(t, pred):
    if pred(t):
        return True
    if t[0] in ("l", "v"):
        return False
    if t[0] == "C":
        return _c09_has(t[1], pred) or any(_c09_has(a, pred) for a in t[2])
    return any(_c09_has(x, pred) for x in t[1:] if isinstance(x, tuple))


def _c09_strip(tree_words):
    """`l Kind hex spelling` -> `l spelling` (the model's trees carry spellings only)."""
    w = tree_words.split()
    out, i = [], 0
    while i < len(w):
        if w[i] == "l" and i + 3 < len(w) and _looks_hex(w[i + 2]):
            out += ["l", w[i + 3]]
            i += 4
        else:
            out.append(w[i])
            i += 1
    return " ".join(out)


def _looks_hex(x):
    return re.match(r"^[0-9a-f]+$", x) is not None


class C09(Prop):
    id = "C09"
    gens = ["GenSyntax"]
    header = 1
    n_quick = 3000
    n_thorough = 60000
    design_ref = "DESIGN.md §4 C09"
    assumptions = [
        "expression core modelled: identifiers, literals (by the spelling the real printer gives them), prefix/postfix/binary operators, conditional, assignment, sequence, subscript, member, call, cast to a named type; sizeof, braced initialisers, explicit template arguments, scoped names, statements, declarators and types are exercised on the implementation only (F/X cases and the tree oracle)",
        "the parser model is deterministic: it decides the cast / parenthesised-name ambiguity by the set of type names, which is what the type checker does with the parser's AmbiguousParseBranch; the real parser's search over symbol assumptions is tied to this by the correspondence only",
        "tokens are compared at the level of spellings: the model does not lex the printed text (shifts are the two-token form in the real lexer); the adjacency rule of the printer is modelled and its effect on the real lexer is observed through the implementation side of every E case",
        "literal spellings come from Rust's float Display through the real printer; whether they read back to the same value is decided on the implementation output (oracle), not in the model",
        "`e1 < e2 > (e3)` is read by the parser as a call with explicit template arguments: the model answers UNMODELLED there and the theorem excludes token lists with `>` directly followed by `(` (known finding)",
    ]

    def kind(self, case):
        w = case.split()
        if w[0] != "E":
            return w[0] + (" " + w[2] if len(w) > 2 else "")
        n = len(w)
        return "E words=%s" % (n if n <= 6 else ("7-12" if n <= 12 else ("13-30" if n <= 30 else "31+")))

    def model_part(self, model):
        return model

    def _split(self, line):
        if " ;; TREE " not in line or not line.startswith("TEXT "):
            return None, line
        a, b = line.split(" ;; TREE ", 1)
        return a[5:], b

    def comparable(self, case, impl, model):
        if not case.startswith("E "):
            return False
        if model is None or model.startswith("UNMODELLED"):
            return False
        mt, mtree = self._split(model)
        if mtree == "UNMODELLED":
            return False
        it, itree = self._split(impl)
        if it is None:
            return False
        return True

    def impl_part(self, impl):
        it, itree = self._split(impl)
        if it is None:
            return impl
        if itree.startswith("PARSE-ERROR"):
            itree = "PARSE-ERROR"
        elif itree != "UNREADABLE":
            itree = _c09_strip(itree)
        return "TEXT " + it + " ;; TREE " + itree

    def oracle(self, case, impl, model=None):
        w = case.split()
        if impl.startswith("PANIC") or impl.startswith("TIMEOUT"):
            return "printer or parser aborted: " + impl
        if w[0] in ("F", "X", "P"):
            if impl.startswith("DIFF"):
                return "printed text reads back as a different tree: " + impl[5:]
            return None
        if w[0] != "E":
            return None
        text, tree = self._split(impl)
        if text is None:
            return "no output: " + impl
        want = _c09_canon(_c09_tree(w, 1)[0])
        if tree.startswith("PARSE-ERROR"):
            return "printed text %r does not parse" % text
        if tree == "UNREADABLE":
            return "printed text %r reads back as a tree outside the expression forms it was built from" % text
        tw = tree.split()
        try:
            got, n = _c09_tree(tw, 0)
        except Exception:
            return "unreadable tree output %r" % tree
        if n != len(tw):
            return "unreadable tree output %r" % tree
        if got != want:
            return "printed text %r reads back as a different tree: %s" % (text, tree)
        return None

    def known_class(self, case, impl, model):
        w = case.split()
        if w[0] != "E":
            return None
        text, tree = self._split(impl)
        if text is None:
            return None
        t = _c09_tree(w, 1)[0]
        if _c09_has(t, _c09_is_nan_leaf):
            return "nan-literal"
        if _c09_has(t, lambda x: x[0] == "l" and x[1] == "IntSigned64" and x[2] == 1 << 63):
            return "int64-min-literal"
        if re.search(r"<.*> \(", text) and (tree.startswith("PARSE-ERROR") or tree == "UNREADABLE" or "Ct " in tree):
            return "template-argument-reading"
        return None

    def nontrivial(self, case, impl):
        return case.startswith("E ") and len(case.split()) > 5 or impl.startswith("SAME")


def _c09_is_nan_leaf(t):
    if t[0] == "l" and t[1] in _C09_FLOAT:
        n = _C09_FLOAT[t[1]]
        e, m = (0x7ff, 52) if n == 64 else (0xff, 23)
        return (t[2] >> m) & e == e and t[2] & ((1 << m) - 1) != 0
    return False



# ---------------------------------------------------------------------------
# C12: macro expansion and inclusion equal reference textual substitution
# ---------------------------------------------------------------------------
class C12(Prop):
    id = "C12"
    # the model is the code's algorithm, recorded findings included: a violation of a recorded class on which model and
    # implementation differ is reported as a disagreement (check: explore)
    known_in_model = True
    gens = ["GenLexer"]
    header = 0
    n_quick = 2500
    n_thorough = 40000
    design_ref = "DESIGN.md §4 C12"
    assumptions = [
        "tokens reach the model as words (identifier, literal, punctuation, blank, line end); lexing is C10's business; the model pastes by running the lexer model of C10 on the two spellings",
        "reference = tools/c12ref.py, the C algorithm with per-token hide sets (Prosser), judged on the implementation's output; programs that leave the property's subset (## operand that is a macro name, a line end between a function-like name and its parenthesis) are counted, not judged",
        "conditional directives are C11's business and are absent from C12 cases; #include uses quoted names resolved by an in-memory handler",
        "#include/paste and initial-define/in-file equivalence are observed by running the implementation on both forms of the same case",
    ]

    def shrink_sep(self):
        return " ; "

    def kind(self, case):
        if case.startswith("I "):
            return "include / pragma probes"
        k = []
        if "A " in case.split(" ; ")[0] and case.startswith("A "):
            k.append("api")
        if " I " in case:
            k.append("include")
        if "##" in case:
            k.append("paste")
        n = case.count(" D ")
        return "defs=%d %s" % (n, "+".join(k) or "plain")

    def impl_part(self, impl):
        return impl.split(" || ")[0].strip()

    def comparable(self, case, impl, model):
        return not case.startswith("I ") and model is not None and not model.startswith("MODEL-") and not model.startswith("BAD")

    def _ref(self, case):
        import c12ref
        return c12ref.run_case(case), c12ref.program_facts(case)

    def oracle(self, case, impl, model=None):
        if case.startswith("I "):
            # #include / #pragma once probes shared with C11 (harness/src/c11.rs INCLUDE_PROBES): a file marked once
            # contributes once, a file whose `#pragma once` is not in a selected group contributes every time
            if impl.startswith("PANIC"):
                return "preprocessor panicked"
            if impl.startswith("PROBE ") and " | " in impl:
                got, want = impl[6:].split(" | ", 1)
                if got.strip() != want.strip():
                    return "include probe %s: pasting the files gives `%s`, the preprocessor produced `%s`" % (case.split()[1], want.strip(), got.strip())
            return None
        segs = [x.strip() for x in impl.split(" || ")]
        main = segs[0]
        if main.startswith("PANIC") or main.startswith("TIMEOUT"):
            return "the preprocessor aborted or did not terminate: " + main
        for seg in segs[1:]:
            kind, res = seg.split(" ", 1)
            if res != main:
                what = "with every #include replaced by the file's text" if kind == "PASTED" else "with the initial defines written as #define lines before the first line"
                return "the same program %s gives %r instead of %r" % (what, res[:200], main[:200])
        ref, (cyc, mal) = self._ref(case)
        if ref[0] == "outside":
            return None
        if mal and main.startswith("ERR Macro"):
            return None
        if ref[0] == "err":
            if not main.startswith("ERR"):
                return "C rejects this program (%s); the preprocessor produced %r" % (ref[1], main[:200])
            return None
        got = [t for t in main.split()[1:] if t not in ("~", "$")] if main.startswith("OK") else None
        if got != ref[1]:
            if main.startswith("ERR"):
                # the preprocessor expands every argument, C only the ones the replacement list uses: an error inside
                # an unused argument is a difference the property does not speak about (same treatment as `mal`)
                import c12ref
                try:
                    eager = c12ref.run_case_eager(case)
                except Exception:
                    eager = ("ok",)
                if eager[0] == "err":
                    return None
            return "C expands to %r; the preprocessor produced %r" % (" ".join(ref[1])[:300], main[:300])
        return None

    def known_class(self, case, impl, model):
        main = impl.split(" || ")[0].strip()
        if main.startswith("PANIC") or main.startswith("TIMEOUT") or case.startswith("I "):
            return None
        ref, (cyc, mal) = self._ref(case)
        if len(ref) > 2 and ref[2]:
            return "paste-empty-operand"
        if main.startswith("ERR Concat"):
            # the empty operand may sit in an argument that C never expands (the preprocessor expands them all)
            import c12ref
            try:
                eager = c12ref.run_case_eager(case)
            except Exception:
                eager = ("ok",)
            if len(eager) > 2 and eager[2]:
                return "paste-empty-operand"
        painted = len(ref) > 4 and ref[4]
        if (cyc or painted) and ref[0] == "ok" and main.startswith("OK"):
            return "recursive-macro-rescan"
        # the token that C keeps unexpanded for good is an invocation with the wrong number of arguments when expanded again
        if painted and ref[0] == "ok" and main.startswith("ERR MacroExpectsDifferentNumberOfArguments"):
            return "recursive-macro-rescan"
        if len(ref) > 3 and ref[3] and ref[0] == "ok" and main.startswith("OK"):
            return "function-macro-name-followed-by-macro"
        # `#include` against the pasted text: an invocation whose name ends the included file and whose `(` follows the
        # #include line is one invocation in the pasted text and none across the file boundary
        segs = [x.strip() for x in impl.split(" || ")]
        if any(x.startswith("PASTED ") and x[7:] != main for x in segs[1:]):
            # decided with the reference preprocessor: it agrees with the preprocessor on the separate files and on
            # the pasted text, and itself gives different results for the two, so the difference is the file boundary
            import c12ref
            pc = c12ref.paste_case(case)
            try:
                rs, rp = c12ref.run_case(case), (c12ref.run_case(pc) if pc else None)
            except Exception:
                rs = rp = None
            def same(r, line):
                if r is None or r[0] == "outside":
                    return False
                if r[0] == "err":
                    return line.startswith("ERR")
                return line.startswith("OK") and [t for t in line.split()[1:] if t not in ("~", "$")] == [t for t in r[1] if t != "$"]
            pasted_line = next(x[7:] for x in segs[1:] if x.startswith("PASTED "))
            if rp is not None and len(rp) > 3 and rp[3] and not same(rp, pasted_line) and same(rs, main):
                return "function-macro-name-followed-by-macro"
            if rs is not None and rp is not None and rs[:2] != rp[:2] and same(rs, main) and same(rp, pasted_line):
                return "macro-invocation-across-include-boundary"
            # where the reference cannot run the program (outside its subset): by shape - the last word before a file
            # boundary is a function-like macro name, or an object-like macro whose replacement list can end in one
            items = [x.split() for x in case.split(";")]
            fl, obj = set(), {}
            for it in items:
                if it and it[0] == "D":
                    raw = it[1:]
                    k = 0
                    while k < len(raw) and raw[k] == "~":
                        k += 1
                    if k + 1 < len(raw) and raw[k + 1] == "(":
                        fl.add(raw[k])
                    elif k < len(raw):
                        obj.setdefault(raw[k], set()).update(x for x in raw[k + 1:] if x != "~")
            reach = set(fl)
            changed = True
            while changed:
                changed = False
                for n, ws in obj.items():
                    if n not in reach and ws & reach:
                        reach.add(n)
                        changed = True
            cur, last, hit = None, None, False
            entry = next((it[1] for it in items if it and it[0] == "F"), None)
            for it in items + [["F", None]]:
                if not it:
                    continue
                if it[0] == "F":
                    hit = hit or (cur is not None and cur != entry and last in reach)
                    cur, last = it[1], None
                elif it[0] == "T":
                    ws = [x for x in it[1:] if x not in ("~", "$")]
                    last = ws[-1] if ws else last
                elif it[0] == "I":
                    hit = hit or last in reach
                    last = None
                elif it[0] in ("D", "U"):
                    last = None
            if hit and (rs is None or rs[0] == "outside" or rp is None or rp[0] == "outside"):
                return "macro-invocation-across-include-boundary"
        return None

    def nontrivial(self, case, impl):
        return " D " in case and impl.startswith("OK")



# ---------------------------------------------------------------------------
# C14: layout trivia and source positions
# ---------------------------------------------------------------------------
class C14(Prop):
    id = "C14"
    gens = ["GenLexer"]
    header = 1
    n_quick = 700
    n_thorough = 20000
    design_ref = "DESIGN.md §4 C14"
    assumptions = [
        "proved for the lexer model of C10 (coq/model/Lexer.v, tied to preprocess/src/lexer.rs by C10's correspondence run and regenerated tables), partial: a blank (space, tab, line feed) directly after an identifier, keyword, reserved word, operator symbol or string literal leaves that token and, from there on, the sequence of non-whitespace tokens unchanged; so does any run of blanks, block comments, line comments with their line feed and line splices after such a token that does not begin with a slash, at the start of the file, after its first token, or after a token that follows any prefix of such tokens and trivia, touching or not (C14_*_partial, the last one `C14_trivia_behind_a_token_prefix_partial`); numeric literals and `<` / `>` in front of the insertion point, and the layers after the lexer are not covered by a theorem",
        "proved: the location arithmetic of SourceManager (line/column decoding, per-file ranges); the model is compared with SourceManager on every offset of small multi-file sets",
        "observed on the implementation only (metamorphic): a program and the same program with trivia inserted at token boundaries (never directly after < or >, never between a #define name and its parenthesis, inline trivia only inside directive lines, #include/#pragma lines untouched) give byte-identical output and metadata on HLSL and MSL, or the same messages; k lines in front of every file move every reported line by k with file, column, message, source excerpt and caret line unchanged",
        "token boundaries are found by a coarse tokenizer of the harness whose pieces are unions of real tokens (identifiers, numbers with fraction / exponent / suffix, the period of a member access or swizzle, strings, runs of operator characters, single other characters), so every insertion point is a real token boundary (not every real boundary is tried); when a varied program differs, each insertion is tried alone and the first that is enough is reported with the text around it",
    ]

    def kind(self, case):
        w = case.split()
        return w[0] + (" " + w[1] if w[0] != "L" else "")

    def comparable(self, case, impl, model):
        return case.startswith("L ") and model is not None and not model.startswith("UNMODELLED")

    def oracle(self, case, impl, model=None):
        if impl.startswith("PANIC") or impl.startswith("TIMEOUT"):
            return "aborted: " + impl
        if case.startswith("L "):
            return None
        if impl.startswith("DIFF"):
            w = case.split()
            if w[0] == "W":
                return "inserting trivia at token boundaries of program %s (seed %s) changed the result: %s" % (w[1], w[2], impl[5:300])
            if impl.startswith("DIFF the diagnostic"):
                return "program %s: %s" % (w[1], impl[5:300])
            return "inserting %s %s lines before program %s did not shift the diagnostic by exactly that many lines: %s" % (w[2], w[3], w[1], impl[5:300])
        return None

    def known_class(self, case, impl, model):
        # `1.xx` is lexed as `1` `.` `xx` (a look-ahead of the float rule, preprocess/src/lexer.rs literal_float); with
        # anything between the period and the x the float rule takes `1.` and the program is rejected
        if case.startswith("W ") and impl.startswith("DIFF verdict OK -> ERR") and "failed to parse source" in impl \
                and re.search(r"single insertion in [^:]+: \[[^\]]*[0-9]\.\]\+\[.*\]\+\[x", impl):
            return "trivia-after-the-period-of-an-integer-swizzle"
        # a token made by ## lives in a file of its own named <scratch space>: its diagnostics stay at line 1
        m = re.match(r"DIFF position <scratch space>:1:(\d+) -> <scratch space>:1:(\d+) ", impl)
        if case.startswith("K ") and m and m.group(1) == m.group(2):
            return "diagnostic-for-a-pasted-token-stays-in-the-scratch-file"
        return None

    def nontrivial(self, case, impl):
        return impl.startswith("SAME") or case.startswith("L ")



# ---------------------------------------------------------------------------
# C07: compilation is deterministic
# ---------------------------------------------------------------------------
class C07(Prop):
    id = "C07"
    gens = ["GenHashSites"]
    header = 1
    n_quick = 10
    n_thorough = 10
    design_ref = "DESIGN.md §4 C07"
    assumptions = [
        "the only source of run-to-run variation in this single-threaded library is the iteration order of std HashMap/HashSet (per-instance random state); no clocks, threads, addresses or environment reads outside metal_invoker were found",
        "inventory: tools/inventory.py finds the places where a hash container is walked by name-based type inference (over-approximating) and cross-checks every `for` loop against clippy::iter_over_hash_type, which uses the compiler's own types; method-chain walks of a hash container bound to a name the script cannot type are only caught by the runtime comparison",
        "each listed site is discharged by a Coq theorem (sort by a total order on distinct elements, sort_by distinct keys, the usage fixpoint, the scope walk) or by review (set semantics, commutative reductions, order not observed)",
        "runtime search: every program is compiled 8 times in one process and in 2 fresh processes per target and pipeline mode; outputs, metadata, stages, pipeline state and diagnostics are compared byte for byte",
    ]

    def kind(self, case):
        w = case.split()
        return ("repo-file " if w[1].startswith("file:") else w[1] + " ") + w[2]

    def comparable(self, case, impl, model):
        return False

    def oracle(self, case, impl, model=None):
        if impl.startswith("DIFF"):
            return "two compilations of the same input differ: " + impl[5:400]
        if impl.startswith("TIMEOUT"):
            return "compilation did not terminate"
        return None

    def nontrivial(self, case, impl):
        return impl.startswith("SAME") and impl.rstrip().endswith("OK")



# ---------------------------------------------------------------------------
# C17: pipelines are selected and compiled independently
# ---------------------------------------------------------------------------
class C17(Prop):
    id = "C17"
    gens = ["GenPipelineUses"]
    header = 1
    n_quick = 10
    n_thorough = 400
    design_ref = "DESIGN.md §4 C17"
    assumptions = [
        "the driver model takes the front end's module and build_pipeline as parameters; that build_pipeline for one pipeline does not look at the other pipeline definitions is the source obligation C17_pipeline_list_uses (every read of Module::pipelines is at the selected index) plus the metamorphic comparison",
        "P cases: compute pipelines only (which pipelines are compiled, in which order, which error); I cases: 1-4 pipelines of ten kinds (compute, vertex+pixel, mesh+pixel, task+mesh(+pixel)) sharing entry points and resources, whole file vs by name vs with the other Pipeline blocks removed, on HLSL (DirectX, Vulkan) and MSL, all four result fields",
        "whether the front end itself is insensitive to the presence of other Pipeline blocks is only observed (I cases), not proved",
    ]

    def kind(self, case):
        w = case.split()
        if w[0] == "P":
            return "P n=%d filter=%s nopipe=%s" % (len(w) - 3, "none" if w[1] == "-" else ("unknown" if w[1] == "Z" else "name"), w[2])
        return "I n=%d %s" % (len(w[1].split(",")), w[2])

    def comparable(self, case, impl, model):
        return case.startswith("P ") and model is not None and not model.startswith("UNMODELLED")

    def oracle(self, case, impl, model=None):
        if impl.startswith("PANIC") or impl.startswith("TIMEOUT"):
            return "compile aborted: " + impl
        if impl.startswith("TARGETS-DISAGREE"):
            return "the targets disagree on which pipelines are compiled: " + impl
        if case.startswith("I "):
            if impl.startswith("DIFF"):
                return impl[5:400]
            if impl.startswith("FAILS-TOGETHER"):
                return "every pipeline compiles in a file of its own, the file with all of them does not: " + impl[15:300]
        return None

    def known_class(self, case, impl, model):
        if case.startswith("I ") and case.rstrip().endswith(" Msl") and impl.startswith("FAILS-TOGETHER") and "InvalidPipelineForMeshIntrinsic" in impl:
            return "msl-mesh-function-beside-other-pipeline"
        return None

    def nontrivial(self, case, impl):
        return impl.startswith("OK ") or impl.startswith("SAME")



# ---------------------------------------------------------------------------
# C05: reflection metadata agrees with the emitted source
# ---------------------------------------------------------------------------
class C05(Prop):
    id = "C05"
    gens = ["GenBindings"]
    header = 9
    n_quick = 1200
    n_thorough = 30000
    design_ref = "DESIGN.md §4 C05"
    assumptions = [
        "proved on the slot-assignment model of C06: which declarations have a binding record, and the shape of the inline descriptor struct; that the annotation printers and the metadata builders read that one record is checked on the implementation output, not proved",
        "oracle tools/c05ref.py parses the emitted HLSL (register(..), [[vk::binding(..)]], [[vk::offset(..)]] members, numthreads) and MSL (ArgumentBufferN members with [[id(n)]]) and compares name, group, slot/offset, descriptor type, count, entry points, thread-group size and (Metal) usage against the metadata",
        "programs: 0-7 resource globals of all object kinds, arrays, bindless arrays, bind-group attributes, cbuffers, static samplers, static globals, an entry point with a helper function each mentioning a random subset of the globals, entry names that are reserved words of a target, one or two pipelines, {all, by name, no-pipeline} x four target configurations",
    ]

    def kind(self, case):
        w = case.split()
        return "%s %s decls=%d" % (w[0], w[2], max(0, len(w) - 9))

    def comparable(self, case, impl, model):
        return False

    def oracle(self, case, impl, model=None):
        if impl.startswith("PANIC") or impl.startswith("TIMEOUT"):
            return "compile aborted: " + impl[:200]
        import c05ref
        return c05ref.check(case, impl)

    def known_class(self, case, impl, model):
        import c05ref
        why = c05ref.check(case, impl) or ""
        m = re.match(r"resource (g\d+) is declared in the source without a binding annotation and without a metadata entry", why)
        if m:
            i = int(m.group(1)[1:])
            decls = case.split()[9:]
            if i < len(decls) and decls[i].split(",")[1] == "0":
                return "unbounded-array-not-bound"
        if "+N" in case and why.startswith("metadata lists a binding name twice"):
            return "resources-in-different-namespaces-share-a-reflected-name"
        # Metal renames a resource whose name is reserved there (fragment -> fragment_0); the metadata keeps the declared name
        m = re.match(r"argument buffer member (\w+?)_(\d+) has no metadata entry", why)
        if m and case.split()[0] == "Msl" and case.split()[3].endswith("+R") and m.group(1) in c05ref.RENAMED:
            return "msl-metadata-keeps-the-declared-name-of-a-renamed-resource"
        return None

    def nontrivial(self, case, impl):
        return impl.startswith("OK") and len(case.split()) > 10



# ---------------------------------------------------------------------------
# C18: targets agree on what is target-independent
# ---------------------------------------------------------------------------
class C18(Prop):
    id = "C18"
    gens = ["GenBindings", "GenDefines"]
    header = 1
    n_quick = 400
    n_thorough = 8000
    design_ref = "DESIGN.md §4 C18"
    assumptions = [
        "proved on the macro model of C12 (tied to the preprocessor by C12's correspondence): tables that differ only in the definitions of RSSL_TARGET_HLSL / RSSL_TARGET_MSL expand every token list and every file that does not mention them to the same tokens or the same error; and on the slot model of C06/C05: the set of bound declarations, their kinds and counts do not depend on the parameter record, static samplers aside",
        "that the front end after preprocessing is shared by all targets is read off compile(): the target is consulted only after type_check (the match on args.target); not a theorem",
        "observed on the implementation: every repository source, the C14 programs (accepted and rejected) and generated resource programs are compiled for DirectX, Vulkan, Vulkan+buffer addresses and Metal; front-end diagnostics, DirectX/Vulkan success, stages, thread-group sizes, pipeline state, binding names / kinds / counts, and the HLSL texts modulo annotations are compared",
        "inputs that test the RSSL_TARGET_* macros are compared only between the HLSL targets",
    ]

    def kind(self, case):
        w = case.split()
        return ("R-program" if w[1] == "R" else w[1].split(":")[0]) + " " + w[-1]

    def comparable(self, case, impl, model):
        return False

    def oracle(self, case, impl, model=None):
        if impl.startswith("DISAGREE"):
            return "targets disagree: " + impl[9:400]
        if impl.startswith("PANIC") or impl.startswith("TIMEOUT"):
            return "compile aborted: " + impl[:200]
        return None

    def known_class(self, case, impl, model):
        # a resource whose name one target reserves: the HLSL targets report the generated name, Metal the declared one
        m = re.match(r"DISAGREE bindings (\[.*?\]) \((\w+)\) vs (\[.*?\]) \((\w+)\)", impl)
        if m and "+R" in case:
            import c05ref
            def norm(txt):
                return re.sub(r'"(%s)_\d+"' % "|".join(c05ref.RENAMED), r'"\1"', txt)
            if m.group(1) != m.group(3) and norm(m.group(1)) == norm(m.group(3)):
                return "reserved-word-resource-name-differs-across-targets"
        return None

    def nontrivial(self, case, impl):
        return impl.startswith("AGREE ok")


def _angle_then_paren(line):
    """`a < ... > (`: a `<`, later a `>` at the same parenthesis depth that is directly followed by `(` - what the
    parser may read as a template argument list in front of a call (shifts and comparisons nested in parentheses
    between the two do not matter)"""
    toks = re.findall(r"<<=|>>=|<<|>>|<=|>=|->|[A-Za-z_]\w*|\d[\w.]*|\S", line)
    for i, t in enumerate(toks):
        if t != "<":
            continue
        depth = 0
        for j in range(i + 1, len(toks)):
            u = toks[j]
            if u in "([{":
                depth += 1
            elif u in ")]}":
                depth -= 1
                if depth < 0:
                    break
            elif u == ";" and depth == 0:
                break
            elif u == ">" and depth == 0 and j + 1 < len(toks) and toks[j + 1] == "(":
                return True
    return False


class C04(Prop):
    id = "C04"
    gens = ["GenBindings", "GenNames", "GenSyntax", "GenLexer"]
    header = 2
    n_quick = 400
    n_thorough = 12000
    design_ref = "DESIGN.md §4 C04"
    assumptions = [
        "the end-to-end statement (second output == first output, same slot for every resource) is observed on the implementation: the third-party corpus under tests/ (every entry point), every repository source, the C14/C07 programs, generated resource programs and generated programs using every declaration kind; it is not a theorem about the whole compiler",
        "proved on the models: a path written by the exporter resolves, from where it is read, to the symbol it was written for (model of find_identifier / walk_into_scopes and of is_hidden_from_root); the name map of the emitted program is the identity (C15 model); the printed declarations get the same slots whatever the default group, and for DirectX whatever object kind they are re-spelt as (C06 model); expression texts read back as the same tree (C09); literals read back as the same value (C10)",
        "the scope model is tied to the implementation only through the fixpoint runs themselves (capture programs are in the corpus); programs the first compilation rejects are skipped (counted)",
        "slot comparison: group, name and api slot of every binding and the inline constant block; descriptor kind, bindless flag and static sampler state are legitimately not recoverable from the emitted text and are not compared",
    ]

    def kind(self, case):
        w = case.split()
        if w[0] == "G":
            return "corpus " + w[1]
        return "R-program" if w[1] == "R" else w[1].split(":")[0]

    def comparable(self, case, impl, model):
        return False

    def oracle(self, case, impl, model=None):
        if impl.startswith("FIX") or impl.startswith("SKIP") or impl.startswith("BAD"):
            return None
        if impl.startswith("PANIC first"):
            return None   # a compilation that aborts is C08's business
        if impl.startswith("REJECT"):
            return "the emitted text is not accepted: " + impl[7:300]
        if impl.startswith("DRIFT"):
            return "the emitted text is not a fixpoint: " + impl[6:400]
        if impl.startswith("SLOTS"):
            return "a resource moved to another slot: " + impl[6:400]
        return "second compilation aborted: " + impl[:300]

    def known_class(self, case, impl, model):
        if impl.startswith("REJECT"):
            # read as explicit template arguments, the chain fails to parse, or parses and fails later (not a constant
            # expression, call of a non-function): the reported line has the shape either way
            parts = impl.split(" | ")[1:]
            if any(_angle_then_paren(x) for x in parts):
                return "comparison-chain-read-as-template-arguments"
            if re.search(r"redefinition of '(\w+)' \| template<(?:typename \w+, )*typename \1(?:, typename \w+)*, typename \1\b", impl) or re.search(r"redefinition of '(\w+)' \| template<typename \1, typename \1", impl):
                return "template-parameters-named-after-one-struct-twice"
            src = self._source(case)
            # modifiers that reach a restricted position through a typedef are written out in place
            m = re.search(r"modifier '(volatile|const)' is not valid on a (global variable|function return|constant buffer member|field)", impl)
            if src and m and re.search(r"\btypedef\b[^;]*\b%s\b" % m.group(1), src):
                return "modifier-through-typedef-written-in-a-restricted-position"
            if src and "invalid type declarator modifier" in impl and re.search(r"sizeof\(\w+(\[\d*\])+\)", impl) and re.search(r"\bsizeof\s*\(\s*[a-z_]\w*(\.\w+)*\s*\)", src):
                return "sizeof-of-an-array-expression"
            if src and "no matching function for call to" in impl and re.search(r"\b\w+\s*\([^(){};]*=[^(){};]*\)\s*;", src):
                return "default-argument-on-forward-declaration"
            m = re.search(r"'(\w+)' was not declared in this scope", impl)
            if src and m and "template" in src and re.search(r"\benum\s+%s\b" % re.escape(m.group(1)), src[src.index("template"):]):
                return "template-instantiated-before-its-enum-argument"
        return None

    @staticmethod
    def _source(case):
        w = case.split()
        if len(w) == 2 and w[0] == "S":
            root = os.path.dirname(os.path.dirname(os.path.abspath(__file__)))
            for prefix, base in (("verif:", root), ("file:", os.environ.get("RSSL_REPO", "/repo")), ("abs:", "")):
                if w[1].startswith(prefix):
                    try:
                        return open(os.path.join(base, w[1][len(prefix):]) if base else w[1][len(prefix):], encoding="utf-8", errors="replace").read()
                    except OSError:
                        return None
        return None

    def nontrivial(self, case, impl):
        return impl.startswith("FIX")


def _c08_program(case):
    import subprocess
    w = case.split()
    try:
        r = subprocess.run([os.path.join(os.path.dirname(os.path.dirname(os.path.abspath(__file__))), ".cache", "target", "debug", "implrun"), "c08show"] + w[1:],
                           capture_output=True, text=True, errors="replace", timeout=60)
        return r.stdout
    except Exception:
        return ""


def _angle_depth(text):
    d = m = 0
    for c in text:
        if c == "<":
            d += 1
            m = max(m, d)
        elif c == ">":
            d = max(0, d - 1)
        elif c in ";{}":
            d = 0
    return m


def _nesting(text):
    """deepest bracket nesting, and the longest run of prefix operators (a chain of unary operators nests as deeply)"""
    d = m = 0
    for c in text:
        if c in "([{":
            d += 1
            m = max(m, d)
        elif c in ")]}":
            d = max(0, d - 1)
    run = max((len(x) for x in re.findall(r"(?:[-!~+]\s*){2,}", text)), default=0)
    ifs = len(re.findall(r"\bif\b|\?", text))
    return max(m, run // 2, ifs)


_FN_CACHE = {}


def _fn_at(rel, line):
    """name of the function of the repository source `rel` that contains `line` (panic sites are identified by
    function, not by line number)"""
    from rsparse import strip_comments
    import inventory
    if rel not in _FN_CACHE:
        try:
            src = strip_comments(open(os.path.join(os.environ.get("RSSL_REPO", "/repo"), rel), encoding="utf-8").read())
        except OSError:
            _FN_CACHE[rel] = None
            return "?"
        starts = [0]
        for i, c in enumerate(src):
            if c == "\n":
                starts.append(i + 1)
        _FN_CACHE[rel] = (starts, inventory.functions(src))
    if _FN_CACHE[rel] is None:
        return "?"
    starts, funcs = _FN_CACHE[rel]
    if line - 1 >= len(starts):
        return "?"
    fn = inventory.enclosing(funcs, starts[line - 1])
    return fn[0] if fn else "?"


class C08(Prop):
    id = "C08"
    gens = ["GenPanicSites", "GenLexer", "GenEvaluator", "GenNames", "GenBindings"]
    header = 99          # case lines are seeds: nothing to shrink word by word
    n_quick = 150
    n_thorough = 6000
    design_ref = "DESIGN.md §4 C08"
    assumptions = [
        "theorems: the modelled components (lexer, macro expander, file driver with the #include nesting limit, constant evaluator, name generator) never produce their abort / exhaustion values; for the parser, type checker, exporters and formatter there is no model",
        "the inventory of abort sites (panic!/todo!/unimplemented!/unreachable!/assert*!/unwrap()/expect() per file and function, regenerated from the sources) is pinned to the reviewed table coq/props/C08Sites.v; the sites are not individually proved unreachable",
        "search (support, not proof): every case runs in a child process on a thread with an 8 MiB stack (the default main-thread stack), debug build with overflow checks, 30 s watchdog; aborts, stack overflows and timeouts are attributed to the case in flight. Inputs: character soups and token soups up to 4 KB, generated programs (valid and with one token-level mutation), short soups in one position of a valid program, nested / repeated constructs (depth 1..500, 2000 in the thorough tier), every repository input unmodified on 5 targets x {all, no-pipeline} and mutated, x {all, named, no-pipeline} x layout validation on/off",
        "a diagnostic 'renders' when CompileError's Display produces text without panicking (checked on every rejected input)",
        "time: the watchdog (30 s on a debug build for inputs of at most 4 KB) stands in for 'a small polynomial of the input size'; the largest time seen is recorded",
    ]

    # (known finding, source file, function, message): a panic is identified by where it is raised and what it says
    KNOWN_PANICS = [
        ("struct-template-export", r"(hlsl/src/ast_generate|msl/src/generator)\.rs", "generate_root_definition", r"not yet implemented: RootDefinition::StructTemplate"),
        ("function-template-default-arguments", r"typer/src/typer/functions\.rs", None, r"not yet implemented: default template arguments"),
        ("non-type-template-arguments", r"typer/src/typer/types\.rs", "apply_template_type_substitution", r"not yet implemented: Non-type template arguments"),
        ("slot-arithmetic-overflow", r"ir/src/ir_module\.rs", "process_definition", r"attempt to (add|multiply) with overflow"),
        ("non-resource-object-global", r"ir/src/ir_types\.rs", "get_register_type", r"get_register_type called on non-root object types"),
        ("declared-function-without-definition", r"(hlsl/src/ast_generate|msl/src/generator)\.rs", "generate_function_inner", r"called `Option::unwrap\(\)` on a `None` value"),
        ("type-named-like-function", r"typer/src/typer/scopes\.rs", "find_identifier_in_scope", r"assertion failed: overloads\.is_empty\(\)"),
        ("template-value-parameter-used-as-type", r"typer/src/typer/scopes\.rs", "find_identifier_in_scope", r"internal error: entered unreachable code"),
        ("struct-inherits-methods", r"typer/src/typer/structs\.rs", None, r"not yet implemented: Inherited methods are not implemented"),
        ("msl-struct-cast-of-huge-array", r"msl/src/generator\.rs", None, r"attempt to multiply with overflow"),
        ("function-template-declared-without-body", r"typer/src/typer/functions\.rs", "parse_function_body", r"called `Option::unwrap\(\)` on a `None` value"),
    ]

    def kind(self, case):
        w = case.split()
        cfg = w[0].split("/")
        k = w[1] + ((" " + w[2]) if w[1] == "D" else "") + (" mutated" if w[1] in ("P", "M") and w[-1] != "0" else "")
        return "%s %s" % (k, cfg[0])

    def comparable(self, case, impl, model):
        return False

    def oracle(self, case, impl, model=None):
        if impl.startswith("OK") or impl.startswith("ERR") or impl.startswith("BAD"):
            return None
        if impl.startswith("PANIC"):
            return "compile panicked: " + impl[6:300]
        if impl.startswith("ABORT"):
            return "compile aborted the process (%s)" % impl[6:100]
        if impl.startswith("TIMEOUT"):
            return "compile did not return within the watchdog time"
        return "unexpected harness output: " + impl[:200]

    def known_class(self, case, impl, model):
        if impl.startswith("PANIC"):
            m = re.match(r"PANIC (\S+?):(\d+): (.*)", impl)
            if not m:
                return None
            rel, line, msg = m.group(1), int(m.group(2)), m.group(3)
            for kid, fpat, fn, mpat in self.KNOWN_PANICS:
                if re.fullmatch(fpat, rel) and re.search(mpat, msg) and (fn is None or _fn_at(rel, line) == fn):
                    return kid
            return None
        if impl.startswith("TIMEOUT"):
            if _angle_depth(_c08_program(case)) >= 16:
                return "nested-template-arguments-exponential"
            # macros that reach themselves through one another: the expansion terminates (C12) but can take time
            # exponential in the nesting of the invocations
            w = case.split()
            if len(w) == 3 and w[1] == "Q":
                import subprocess, c12ref
                try:
                    line = subprocess.run([os.path.join(os.path.dirname(os.path.dirname(os.path.abspath(__file__))), ".cache", "target", "debug", "implrun"), "c12line", w[2]],
                                          capture_output=True, text=True, errors="replace", timeout=60).stdout.strip()
                    if line and c12ref.program_facts(line)[0]:
                        return "mutually-recursive-macros-expansion-time"
                except Exception:
                    pass
            # one initialiser per array element: with enough memory the allocation does not fail, it takes for ever
            if re.search(r"\bF corpus/programs/msl_struct_cast_of_huge_array_allocation\.rssl$", case.strip()) and case.startswith(("Msl", "Metal")):
                return "msl-struct-cast-of-huge-array"
            return None
        if impl.startswith("ABORT"):
            text = _c08_program(case)
            nums = [int(x) for x in re.findall(r"(?:bind_group\(|space|DefaultBindGroup\s*=\s*)(\d+)", text)]
            if any(n >= (1 << 20) for n in nums) and not case.startswith("Msl") and not case.startswith("Metal"):
                return "huge-bind-group-index"
            if _nesting(text) >= 400:
                return "deep-nesting-stack-overflow"
            # a template that instantiates itself with a larger argument each time: the two recorded programs
            if re.search(r"\bF corpus/programs/endless_(struct|function)_template\.rssl$", case.strip()):
                return "endless-template-instantiation"
            if re.search(r"\bF corpus/programs/msl_struct_cast_of_huge_array_allocation\.rssl$", case.strip()) and case.startswith(("Msl", "Metal")):
                return "msl-struct-cast-of-huge-array"
            return None
        return None

    def nontrivial(self, case, impl):
        return impl.startswith("OK") or impl.startswith("ERR")

    def replay_extra(self, case):
        return {"config": case.split()[0], "program": _c08_program(case), "how": "implrun run C08 --cases <file with the case line> --impl <out> (supervised child process); `implrun c08show <words after the configuration>` prints the program"}


class C03(Prop):
    id = "C03"
    gens = []
    header = 99
    n_quick = 600
    n_thorough = 12000
    design_ref = "DESIGN.md §4 C03"
    # injected violations the property's text requires to be rejected (the generator has more kinds; the others are
    # counted but not demanded)
    REQUIRED = {"const-write", "const-compound", "const-incr", "rvalue-write", "rvalue-incr", "call-write", "literal-write", "out-rvalue", "out-const", "inout-literal",
                "arity-more", "arity-less", "arg-struct", "arg-void", "ret-struct", "ret-void-value", "ret-missing-value", "const-member-write", "const-param-write",
                "const-array-write", "swizzle-repeat-write", "cbuffer-write", "static-const-global-write", "out-other-scalar", "out-other-vector", "inout-other-vector",
                "out-wider-vector", "out-member-of-const", "out-swizzle-repeat", "out-enum-for-int",
                "const-nested-member-write", "const-nested-array-write", "const-nested-incr", "out-nested-member-of-const", "cbuffer-nested-write", "const-array-of-struct-write",
                "mswz-row-out-of-range", "mswz-col-out-of-range", "mswz-pair-out-of-range", "mswz-out-arg-out-of-range", "swz-out-of-range",
                "method-out-const", "method-out-cbuffer", "method-inout-member-of-const", "method-out-rvalue", "method-out-other-scalar", "method-arity-more", "method-arity-less",
                "method-out-swizzle-of-const", "intrinsic-method-out-const", "intrinsic-method-out-cbuffer", "intrinsic-method-out-rvalue"}
    assumptions = [
        "theorems are about the checker `wt` (coq/model/IRType.v), the specification of well-typed IR: a passed check means every node's type is the one derived bottom-up, every operand has exactly the required type, writes go to lvalues whose path goes through nothing const, calls match their signature, returns and initialisers match; there is no model of the elaborator, so 'every accepted program passes' is observed (the extracted checker runs on the IR of every program the harness type checks), not proved",
        "each node of the dump carries the type Expression::get_type answers (its assertions are caught and reported as IRFAULT); nodes the checker does not model (object members, matrix swizzles, mesh / make-signed intrinsics) are taken at that type, their operands are still checked",
        "conditions of if / while / for are not required to be bool and aggregate initialisers are only checked element by element (the property's list does not name them)",
        "rejection: a well-typed generated program plus one function with a single injected violation must be rejected; 52 violation kinds are demanded (writes to const / non-lvalues in every form, out / inout arguments, arity, unconvertible arguments, wrong returns - at calls of functions, of struct methods and of methods of intrinsic objects), 11 further kinds are counted only",
    ]

    def kind(self, case):
        w = case.split()
        if w[0] == "V":
            return "violation " + w[3]
        return "IR " + w[1].split(":")[0]

    def model_input(self, case, impl):
        return impl if impl.startswith("IR ") else "SKIP"

    def comparable(self, case, impl, model):
        return False

    def oracle(self, case, impl, model=None):
        w = case.split()
        if impl.startswith("PANIC"):
            return None          # C08's business
        if w[0] == "W":
            if impl.startswith("IRFAULT"):
                return "the IR's own typing rules fail: " + impl[8:300]
            if impl.startswith("TYPEFAULT"):
                return "the type checker built a node whose type its own consistency assertion rejects: " + impl[10:300]
            if impl.startswith("IR ") and model is not None:
                if model.startswith("ILL"):
                    return "accepted program with ill-typed IR: " + model[:400]
                if model.startswith("BAD-DUMP"):
                    return "IR dump not understood by the checker: " + model[:200]
            return None
        if w[0] == "V" and impl.startswith("ACCEPTED") and w[3] in self.REQUIRED:
            return "a program with the injected violation `%s` is accepted: %s" % (w[3], impl[9:300])
        return None

    def known_class(self, case, impl, model):
        if model and model.startswith("ILL") and "default argument has another type than the parameter" in model:
            return "default-argument-keeps-literal-type"
        return None

    def nontrivial(self, case, impl):
        return impl.startswith("IR ") or impl.startswith("REJECTED")


class C01(Prop):
    id = "C01"
    gens = []
    header = 99
    n_quick = 500
    n_thorough = 20000
    design_ref = "DESIGN.md §4 C01"
    assumptions = [
        "the emitted HLSL is read back with the project's own front end (it is inside the input language: C04) and the typed IR of the emitted text is compared with the typed IR of the source, item by item: function bodies with literal values (bit patterns), operators, conversions, call targets, argument lists and parameter directions, global initialisers, struct layouts, enum values; theorems: the comparison succeeds only if the second IR is the first with its local variables renamed one-to-one, and it never reports a difference between identical dumps",
        "proved (C01_same_behaviour): if the dump of IR1 is the encoding `enc_func f1` of a function tree and the comparison succeeds, the dump of IR2 is the encoding of a function that, under the evaluator of coq/model/Sem.v (locals are cells addressed by VariableId; reads, writes through member / swizzle / subscript paths, compound assignment, increments, copy-in / copy-out calls, conditionals, loops with break / continue, switch with fall-through, discard, return), is discarded in the same cases, returns the same value, copies the same values back through out / inout parameters and has the same effect on everything that is not a local, for every fuel, argument list, outside state and interpretation of the operator / literal / conversion / accessor / callee / global words. The hypothesis is checked on every run: the extracted checker decodes every function dump into a tree and re-encodes it (the 4th and 5th number of its EQUIV line; an undecodable function dump is reported)",
        "assumed, not proved: (1) the front end's reading of the emitted text is HLSL's reading of it — the emitted text has every conversion explicit, overloads resolved to distinct names and literals typed by suffix, so what is left to HLSL's rules is what C09/C10/C11/C16 cover; (2) `enc_func` is not proved injective (a dump could in principle be the encoding of a second tree); (3) what the words do (the interpretation) is a parameter: the theorem is that both sides use the same words in the same places, not what `Add` computes",
        "'bit-identical for all argument values' follows from the theorem for every interpretation; it is not tested on values of a concrete HLSL machine",
        "resources are outside the property's subset: items that mention resource types are compared, but a difference there (BufferAddress lowered to ByteAddressBuffer for DirectX) is counted, not reported",
    ]

    def kind(self, case):
        w = case.split()
        return w[1] + " " + w[2].split(":")[0]

    def model_input(self, case, impl):
        return impl if impl.startswith("PAIRS ") else "SKIP"

    def comparable(self, case, impl, model):
        return False

    def oracle(self, case, impl, model=None):
        if impl.startswith("REREAD-REJECTED"):
            return "the emitted text is not accepted by the front end: " + impl[16:300]
        if impl.startswith("REREAD-PANIC"):
            return "the front end aborts on the emitted text: " + impl[13:300]
        if impl.startswith("MISSING"):
            return "the emitted text does not define the same items as the source (- only in the source, + only in the text): " + impl[8:400]
        if impl.startswith("PAIRS") and model is not None:
            if model.startswith("DIFF"):
                return "the emitted text means something else than the source: " + model[5:400]
            if model.startswith("BAD"):
                return "dump not understood: " + model[:100]
            w = model.split()
            if w[0] == "EQUIV" and len(w) == 5 and w[4] != "0":
                return "%s function dump(s) are not the encoding of a function tree of the model (coq/model/Sem.v enc_func): the hypothesis of C01_same_behaviour is not met" % w[4]
        return None

    def known_class(self, case, impl, model):
        if impl.startswith("REREAD-REJECTED"):
            line = impl.split(" | ", 1)[1] if " | " in impl else ""
            if _angle_then_paren(line):
                return "comparison-chain-read-as-template-arguments"
        if model and re.match(r"DIFF global_\S+ word \d+: (3 vs 1|2 vs 0)$", model):
            return "volatile-global-through-typedef"
        return None

    def nontrivial(self, case, impl):
        return impl.startswith("PAIRS")


class C02(Prop):
    id = "C02"
    gens = []
    header = 99
    n_quick = 400
    n_thorough = 12000
    design_ref = "DESIGN.md §4 C02"
    assumptions = [
        "proved on models: on the usage fixpoint (the C07 model of GlobalUsageAnalysis::recurse) a function receives a global exactly when the global is threaded and the function reaches it, every call's appended arguments are parameters of the caller, call and signature append the same sorted list; the trampoline in front of out / inout functions gives references copy-in / copy-out behaviour for every body, every aliasing of the arguments and every store (with a witness that references alone do not)",
        "observed on the implementation: the Metal text is the HLSL text (tied to the typed IR by C01) token by token, differences being accepted only under the rules of tools/c02ref.py — `metal::` names and the renames read from the two exporters' tables, `constant` for `static const`, dropped loop attributes, removed declarations of threaded globals, reference parameters, the tagged overload plus a trampoline of a fixed shape, appended parameters / arguments, `(S)0` as an aggregate of zeros, `.x` for vector-to-scalar casts — and each rule is checked against facts computed from the IR independently of the exporter (which globals are threaded, reachability per function, out / inout positions, defaults, which functions are called)",
        "outside the rules (counted, not judged): programs with resources, semantics or entry points, and functions that use an intrinsic the Metal exporter lowers by a helper, an operator or as_type<> (mul, lerp, asfloat, sign, select, ...); the value semantics of the metal:: functions themselves is not modelled",
    ]

    def kind(self, case):
        return case.split()[1].split(":")[0]

    def comparable(self, case, impl, model):
        return False

    def oracle(self, case, impl, model=None):
        import c02ref
        return c02ref.check(case, impl)

    def known_class(self, case, impl, model):
        import c02ref
        why = c02ref.check(case, impl) or ""
        if "has default arguments followed by the threaded globals" in why or "default argument(s) out and appends the globals" in why:
            return "default-argument-before-threaded-global"
        if "which hides the struct member" in why:
            return "threaded-global-named-like-a-member"
        if "as parameters of one name" in why:
            return "threaded-globals-share-a-short-name"
        if "which hides another global of that name that its body uses" in why:
            return "threaded-global-hides-a-constant-of-its-name"
        if re.search(r"receives the globals \[.*\]", why):
            m = re.search(r"receives the globals (\[[^\]]*\])", why)
            names = re.findall(r"'(\w+)'", m.group(1)) if m else []
            if len(names) != len(set(names)):
                return "threaded-globals-share-a-short-name"
        return None

    def nontrivial(self, case, impl):
        return impl.startswith("M2")


PROPS = {p.id: p for p in [C06(), C19(), C11(), C16(), C13(), C10(), C15(), C09(), C12(), C14(), C07(), C17(), C05(), C18(), C04(), C08(), C03(), C01(), C02()]}
