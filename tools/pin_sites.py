#!/usr/bin/env python3
"""Rewrite coq/props/C08Sites.v from the current sources.  Run by hand after reviewing `git diff coq/props/C08Sites.v`:
the table is the reviewed inventory, so only commit it when every new or removed site has been looked at."""
import os, re, sys
sys.path.insert(0, os.path.dirname(os.path.abspath(__file__)))
import extract_tables
root = os.path.dirname(os.path.dirname(os.path.abspath(__file__)))
gen = extract_tables.gen_panic_sites()
body = gen[gen.index("Definition panic_sites"):].replace("Definition panic_sites", "Definition pinned_sites")
path = os.path.join(root, "coq", "props", "C08Sites.v")
old = open(path).read()
head = old[:old.index("Definition pinned_sites")]
open(path, "w").write(head + body)
