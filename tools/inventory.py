"""Inventory of iteration over hash containers in the workspace (C07).

A site is an expression that walks a HashMap/HashSet in its internal order: `for .. in <hash>`, or
`<hash>.iter() / .keys() / .values() / .into_iter() / .drain(..) / .iter_mut() / .values_mut()` and
`Vec::from_iter(<hash>...)` / `.extend(<hash>)`.  A binding is hash-typed when it is declared with a HashMap/HashSet
type, initialised from HashMap::/HashSet::, is a field so typed, or is the result of a function returning one.
Each site is classified by what is done with the walk:
  sorted      the elements are collected into a Vec that is sorted before use
  into-set    the elements are only inserted into another hash container / extended into one
  reduce      any / all / count / len / sum / max / min / contains / find on a predicate that at most one element meets
  fixpoint    the keys drive the usage fixpoint (order-independent by theorem)
  scopes      the outer walk over name scopes (order-independent by theorem)
  ordered     none of the above: the order of the walk can reach the output
"""
import os
import re
import sys

sys.path.insert(0, os.path.dirname(os.path.abspath(__file__)))
from rsparse import strip_comments, match_close  # noqa

REPO = os.environ.get("RSSL_REPO", "/repo")
CRATES = ["text", "preprocess", "ast", "parser", "ir", "typer", "hlsl", "msl", "formatter", "src"]

HASH_TYPE = r"(?:std::collections::)?Hash(?:Map|Set)\b"


def rust_files():
    out = []
    for c in CRATES:
        base = os.path.join(REPO, c)
        for root, dirs, files in os.walk(base):
            if "/tests" in root or "/target" in root:
                continue
            for f in sorted(files):
                if f.endswith(".rs"):
                    out.append(os.path.join(root, f))
    return sorted(out)


def functions(src):
    """(name, body_start, body_end) of every fn, innermost resolution by position."""
    out = []
    for m in re.finditer(r"\bfn\s+(\w+)", src):
        i = src.find("{", m.end())
        semi = src.find(";", m.end())
        if i < 0 or (0 <= semi < i):
            continue
        try:
            j = match_close(src, i)
        except Exception:
            continue
        out.append((m.group(1), i, j))
    return out


def enclosing(funcs, pos):
    best = None
    for name, a, b in funcs:
        if a <= pos <= b and (best is None or a >= best[1]):
            best = (name, a, b)
    return best


def hash_names(src):
    names = set()
    # let [mut] x: HashMap<..> / let [mut] x = HashMap::new()
    for m in re.finditer(r"\blet\s+(?:mut\s+)?(\w+)\s*(?::\s*([^=;]+?))?\s*=\s*([^;]*?);", src, re.S):
        ty, init = m.group(2) or "", m.group(3) or ""
        if re.search(HASH_TYPE, ty) or re.match(r"\s*" + HASH_TYPE + r"\s*(::|<)", init):
            names.add(m.group(1))
    # fields and parameters: name: [&[mut]] HashMap<
    for m in re.finditer(r"\b(\w+)\s*:\s*&?\s*(?:mut\s+)?(?:'\w+\s+)?" + HASH_TYPE, src):
        names.add(m.group(1))
    # aliases: let v = std::mem::take(&mut a.b.NAME) / a.NAME.clone() / &a.NAME
    for m in re.finditer(r"\blet\s+(?:mut\s+)?(\w+)\s*=\s*(?:std::mem::take\s*\(\s*&mut\s+|&\s*(?:mut\s+)?)?[\w\.\[\]\s]*?\.\s*(\w+)\s*(?:\.clone\(\))?\s*\)?\s*;", src):
        if m.group(2) in names:
            names.add(m.group(1))
    # tuple struct wrappers: struct X(HashMap<..>) -> self.0
    wrappers = set(m.group(1) for m in re.finditer(r"struct\s+(\w+)\s*\(\s*" + HASH_TYPE, src))
    # functions returning hash containers
    fns = set(m.group(1) for m in re.finditer(r"\bfn\s+(\w+)\s*(?:<[^>]*>)?\s*\([^)]*\)\s*->\s*&?\s*(?:mut\s+)?" + HASH_TYPE, src))
    return names, wrappers, fns


WALK = r"\.\s*(iter|iter_mut|keys|values|values_mut|into_iter|drain|into_keys|into_values)\s*\("
CHAIN = r"((?:&\s*(?:mut\s+)?)?(?:\*\s*)?(?:self\s*\.\s*)?\w+(?:\s*\[[^\[\]]*\])?(?:\s*\.\s*(?:\w+|\d+)(?:\s*\([^()]*\))?(?:\s*\[[^\[\]]*\])?)*)"


def chain_is_hash(chain, names, fns, fn_text):
    c = re.sub(r"\s+", "", chain).lstrip("&*")
    c = re.sub(r"^mut", "", c)
    segs = [x for x in re.split(r"\.", c) if x]
    if not segs:
        return False
    last = segs[-1]
    mm = re.match(r"\w+", last)
    if not mm:
        return False
    lname = mm.group(0)
    if last.endswith(")"):
        return lname in fns
    if re.fullmatch(r"\d+", lname):
        # a tuple field: a candidate when the function handles hash containers at all
        return any(re.search(r"\b" + re.escape(n) + r"\b", fn_text) for n in names) or "HashMap" in fn_text or "HashSet" in fn_text
    return lname in names


def sort_call(text):
    """the text of `v.sort...( ... )` with blanks removed: the key of the sort is part of the site's description"""
    i = text.find("(")
    try:
        j = match_close(text, i, "(", ")")
    except Exception:
        j = min(len(text) - 1, i + 80)
    return re.sub(r"\s+", "", text[:j + 1])


def classify(fn_text, rel, expr):
    after = fn_text[rel:]
    before = fn_text[max(0, rel - 260):rel]
    stmt_end = after.find(";")
    stmt = after[:stmt_end if stmt_end >= 0 else len(after)]
    m = re.search(r"let\s+(?:mut\s+)?(\w+)\s*(?::[^=;]+)?=\s*[^;]*$", before, re.S)
    target = m.group(1) if m else None
    sort_re = r"\s*\.\s*sort(_by|_by_key|_unstable|_unstable_by|_unstable_by_key)?\s*\("
    if target:
        ms = re.search(r"\b" + re.escape(target) + sort_re, after[:400])
        if ms:
            return "sorted " + sort_call(after[ms.start():])
    if expr.startswith("for:"):
        # a loop that pushes into a vector which is sorted after the loop
        i = after.find("{")
        if i >= 0:
            try:
                j = match_close(after, i)
            except Exception:
                j = len(after) - 1
            body, rest = after[i:j], after[j:j + 600]
            pushed = set(re.findall(r"\b(\w+)\s*\.\s*push\s*\(", body))
            for v in pushed:
                ms = re.search(r"\b" + re.escape(v) + sort_re, rest)
                if ms:
                    return "sorted " + sort_call(rest[ms.start():])
            if re.search(r"\.\s*(extend|insert)\s*\(", body) and not pushed and "write!" not in body:
                return "into-set"
            if pushed:
                return "collected-unsorted"
            if "assert!" in body and not re.search(r"\b(push|insert|extend|write!|=)\b", re.sub(r"assert(_eq)?!\([^;]*;", "", body)):
                return "assert-only"
    if re.search(r"\.\s*(any|all|count|sum|max|min|len|is_empty|contains|contains_key)\s*\(", stmt) and ".collect" not in stmt and ".fold" not in stmt:
        return "reduce"
    if re.search(r"\bextend\s*\(\s*&?\s*$", before):
        return "into-set"
    if ".collect" in stmt or ".fold" in stmt or "from_iter" in before[-40:]:
        return "collected-unsorted"
    return "ordered"


def sites():
    out = []
    all_fns = set()
    all_names = set()
    per_file = {}
    for path in rust_files():
        src = strip_comments(open(path, encoding="utf-8").read())
        src = re.split(r"#\[cfg\(test\)\]", src)[0]
        names, wrappers, fns = hash_names(src)
        per_file[path] = (src, names, wrappers)
        all_fns |= fns
        all_names |= names
    for path, (src, names, wrappers) in sorted(per_file.items()):
        funcs = functions(src)
        rel = os.path.relpath(path, REPO)
        cands = set()

        def consider(pos, chain, text):
            fn = enclosing(funcs, pos)
            fn_text = src[fn[1]:fn[2]] if fn else src
            local_names = set(names)
            # fields of other files are visible through values passed around: use every known field name too
            if chain_is_hash(chain, local_names | all_names, all_fns, fn_text):
                cands.add((pos, fn[0] if fn else "?", text))

        for m in re.finditer(CHAIN + WALK, src):
            consider(m.start(1), m.group(1), re.sub(r"\s+", "", m.group(0)))
        for m in re.finditer(r"\bfor\s+[^;{]*?\bin\s+" + CHAIN + r"\s*\{", src):
            consider(m.start(1), m.group(1), "for:" + re.sub(r"\s+", "", m.group(1)))
        for m in re.finditer(r"\b(?:extend)\s*\(\s*" + CHAIN + r"\s*\)", src):
            consider(m.start(1), m.group(1), "arg:" + re.sub(r"\s+", "", m.group(1)))
        # collecting any iterable into a Vec: always a candidate (the element order is the iterable's order)
        for m in re.finditer(r"\bfrom_iter\s*\(\s*" + CHAIN + r"\s*\)", src):
            fn = enclosing(funcs, m.start(1))
            cands.add((m.start(1), fn[0] if fn else "?", "arg:" + re.sub(r"\s+", "", m.group(1))))
        for pos, fname, text in sorted(cands):
            fn = enclosing(funcs, pos)
            fn_text = src[fn[1]:fn[2]] if fn else src
            cls = classify(fn_text, pos - (fn[1] if fn else 0), text)
            # the review of a walk is a review of what the function does with the elements, before and after any
            # sort (a loop that keeps "the first one seen" and sorts afterwards is still order-dependent): every
            # class carries a digest of the whole function, so an edit anywhere in it asks for a new review
            import hashlib
            cls += " @" + hashlib.sha1(re.sub(r"\s+", "", fn_text).encode("utf-8")).hexdigest()[:10]
            out.append((rel, fname, text, cls))
    return out


def clippy_for_loops():
    """`for` loops over hash containers as the compiler's types see them (clippy::iter_over_hash_type)."""
    import json
    import subprocess
    env = dict(os.environ)
    env["CARGO_TARGET_DIR"] = os.path.join(os.path.dirname(os.path.dirname(os.path.abspath(__file__))), ".cache", "clippy_target")
    env["CARGO_NET_OFFLINE"] = "true"
    r = subprocess.run(["cargo", "clippy", "--workspace", "--offline", "--message-format=json", "--", "-A", "clippy::all",
                        "-W", "clippy::iter_over_hash_type"], cwd=REPO, env=env, capture_output=True, text=True)
    found = []
    ok = False
    for line in r.stdout.splitlines():
        try:
            d = json.loads(line)
        except Exception:
            continue
        if d.get("reason") == "build-finished":
            ok = bool(d.get("success"))
        if d.get("reason") != "compiler-message":
            continue
        msg = d["message"]
        code = (msg.get("code") or {}).get("code") or ""
        if "iter_over_hash_type" not in code:
            continue
        sp = msg["spans"][0]
        path = os.path.join(REPO, sp["file_name"])
        src = strip_comments(open(path, encoding="utf-8").read())
        # byte offset of the line start
        pos = 0
        for _ in range(sp["line_start"] - 1):
            pos = src.find("\n", pos) + 1
        fn = enclosing(functions(src), pos + sp["column_start"])
        text = sp["text"][0]["text"].strip()
        m = re.match(r"for\s+.*?\bin\s+(.*?)\s*\{", text)
        found.append((sp["file_name"], fn[0] if fn else "?", "for:" + re.sub(r"\s+", "", m.group(1) if m else text)))
    if not ok:
        return None
    return sorted(set(found))


if __name__ == "__main__":
    for s in sites():
        print("%-40s %-36s %-64s %s" % s)
    print("--- clippy")
    for s in clippy_for_loops() or ["clippy failed"]:
        print(s)
