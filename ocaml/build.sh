#!/bin/sh
# build.sh <ID> : compile ocaml/gen/E<ID>.ml + driver into .cache/bin/modelrun_<ID>
set -e
cd "$(dirname "$0")"
ID="$1"
OUT=../.cache/bin; B=../.cache/ocaml_$ID
mkdir -p "$OUT" "$B"
cp driver.ml gen/E$ID.ml gen/E$ID.mli "$B"/
echo "let () = Driver.loop E$ID.run_top" > "$B"/main.ml
cd "$B"
ocamlfind ocamlopt -O2 -w -a -package str driver.ml E$ID.mli E$ID.ml main.ml -o ../bin/modelrun_$ID 2>/dev/null || \
ocamlfind ocamlopt -w -a driver.ml E$ID.mli E$ID.ml main.ml -o ../bin/modelrun_$ID
