(* Generic line driver for the extracted models: every extracted entry point has type
   char list -> char list (Coq string -> string under ExtrOcamlString). *)
let explode s = List.init (String.length s) (String.get s)
let implode l = let b = Buffer.create 64 in List.iter (Buffer.add_char b) l; Buffer.contents b
let loop (run : char list -> char list) =
  try
    while true do
      let l = input_line stdin in
      print_string (implode (run (explode l)));
      print_char '\n'
    done
  with End_of_file -> ()
