//! C06: binding slot allocation.  A case line is
//!   <cfg> <dflt> <decl>*      cfg = P:<4 bits> (direct call of assign_api_bindings) | T:<target> (through compile())
//!   decl = kind,arr,set,ss,ext   kind = c | n | s | f | o:<ObjectType variant>
//! The implementation output has the same shape as the model's (see coq/extract/EC06.v).
use crate::common::*;
use rssl::ir;

pub const OBJ_KINDS: &[(&str, &str)] = &[
    ("Buffer", "Buffer<float4>"),
    ("RWBuffer", "RWBuffer<float4>"),
    ("ByteAddressBuffer", "ByteAddressBuffer"),
    ("RWByteAddressBuffer", "RWByteAddressBuffer"),
    ("BufferAddress", "BufferAddress"),
    ("RWBufferAddress", "RWBufferAddress"),
    ("StructuredBuffer", "StructuredBuffer<uint>"),
    ("RWStructuredBuffer", "RWStructuredBuffer<uint>"),
    ("Texture2D", "Texture2D<float4>"),
    ("Texture2DArray", "Texture2DArray<float4>"),
    ("RWTexture2D", "RWTexture2D<float4>"),
    ("RWTexture2DArray", "RWTexture2DArray<float4>"),
    ("TextureCube", "TextureCube<float4>"),
    ("TextureCubeArray", "TextureCubeArray<float4>"),
    ("Texture3D", "Texture3D<float4>"),
    ("RWTexture3D", "RWTexture3D<float4>"),
    ("ConstantBuffer", "ConstantBuffer<S0>"),
    ("SamplerState", "SamplerState"),
    ("SamplerComparisonState", "SamplerComparisonState"),
    ("RaytracingAccelerationStructure", "RaytracingAccelerationStructure"),
];

#[derive(Clone, Debug)]
pub struct Decl {
    pub kind: String,
    pub arr: Option<u32>,
    pub set: Option<u32>,
    pub ss: bool,
    pub ext: bool,
}

impl Decl {
    pub fn word(&self) -> String {
        let o = |v: Option<u32>| v.map(|x| x.to_string()).unwrap_or("-".into());
        format!("{},{},{},{},{}", self.kind, o(self.arr), o(self.set), self.ss as u8, self.ext as u8)
    }
    pub fn parse(w: &str) -> Option<Decl> {
        let p: Vec<&str> = w.split(',').collect();
        if p.len() != 5 {
            return None;
        }
        let o = |s: &str| if s == "-" { Some(None) } else { s.parse::<u32>().ok().map(Some) };
        Some(Decl { kind: p[0].to_string(), arr: o(p[1])?, set: o(p[2])?, ss: p[3] == "1", ext: p[4] == "1" })
    }
}

pub fn render(decls: &[Decl], dflt: u32, style_seed: u64) -> String {
    let mut s = String::from("struct S0 { uint m; };\n");
    let mut rng = Rng::new(style_seed);
    for (i, d) in decls.iter().enumerate() {
        let arr = d.arr.map(|n| format!("[{}]", n)).unwrap_or_default();
        // the group is given either by attribute or by register(spaceN); pick by a deterministic style bit
        let use_attr = rng.chance(1, 2);
        let (attr, reg) = match d.set {
            Some(g) if use_attr => (format!("[[rssl::bind_group({})]] ", g), String::new()),
            Some(g) => (String::new(), format!(" : register(space{})", g)),
            None => (String::new(), String::new()),
        };
        let storage = if d.ext { "" } else { "static " };
        match d.kind.as_str() {
            "c" => s += &format!("{}cbuffer g{}{} {{ uint m{}; }}\n", attr, i, reg, i),
            "n" => s += &format!("{}uint g{}{};\n", storage, i, arr),
            "s" => s += &format!("struct g{} {{ uint x; }};\n", i),
            "f" => s += &format!("void g{}() {{}}\n", i),
            k => {
                let name = k.strip_prefix("o:").unwrap_or(k);
                let ty = OBJ_KINDS.iter().find(|(n, _)| *n == name).map(|(_, t)| *t).unwrap_or(name);
                let init = if d.ss { " = StaticSampler { Filter = MIN_MAG_MIP_LINEAR; }" } else { "" };
                s += &format!("{}{}{} g{}{}{}{};\n", attr, storage, ty, i, arr, reg, init);
            }
        }
    }
    s += "[numthreads(1, 1, 1)] void CSMAIN() {}\n";
    s += &format!("Pipeline Main {{ ComputeShader = CSMAIN; DefaultBindGroup = {}; }}\n", dflt);
    s
}

fn show_loc(set: u32, loc: ir::ApiLocation, count: Option<u32>) -> String {
    let c = count.map(|x| x.to_string()).unwrap_or("-".into());
    match loc {
        ir::ApiLocation::Index(i) => format!("I,{},{},{}", set, i, c),
        ir::ApiLocation::InlineConstant(o) => format!("C,{},{},{}", set, o, c),
    }
}

fn run_direct(bits: &str, dflt: u32, decls: &[Decl], style: u64) -> String {
    let b: Vec<bool> = bits.chars().map(|c| c == '1').collect();
    let params = rssl::AssignBindingsParams {
        require_slot_type: b[0],
        support_buffer_address: b[1],
        metal_slot_layout: b[2],
        static_samplers_have_slots: b[3],
    };
    let src = render(decls, dflt, style);
    let module = match front_end(&src) {
        Ok(m) => m,
        Err(e) => return format!("REJECT:{}", e),
    };
    let r = catch(|| {
        let m = module.select_pipeline("Main").unwrap();
        m.assign_api_bindings(&params)
    });
    let m = match r {
        Ok(m) => m,
        Err(_) => return "PANIC".into(),
    };
    let mut out = Vec::new();
    for (i, d) in decls.iter().enumerate() {
        let name = format!("g{}", i);
        let w = match d.kind.as_str() {
            "c" => {
                let cb = m.cbuffer_registry.iter().find(|c| c.name.node == name).unwrap();
                match cb.api_binding {
                    Some(b) => show_loc(b.set, b.location, Some(1)),
                    None => "-".into(),
                }
            }
            "s" | "f" => "-".into(),
            _ => {
                let gv = m.global_registry.iter().find(|g| g.name.node == name && !g.is_intrinsic).unwrap();
                match gv.api_slot {
                    Some(b) => show_loc(b.set, b.location, Some(d.arr.unwrap_or(1))),
                    None => "-".into(),
                }
            }
        };
        out.push(w);
    }
    out.push("|".into());
    for b in &m.inline_constant_buffers {
        out.push(format!("{},{},{}", b.set, b.api_location, b.size_in_bytes));
    }
    out.join(" ")
}

pub fn target_of(name: &str) -> Option<(rssl::Target, bool)> {
    match name {
        "HlslForDirectX" => Some((rssl::Target::HlslForDirectX, false)),
        "HlslForVulkan" => Some((rssl::Target::HlslForVulkan, false)),
        "HlslForVulkan+BA" => Some((rssl::Target::HlslForVulkan, true)),
        "Msl" => Some((rssl::Target::Msl, false)),
        _ => None,
    }
}

fn run_compile(target: &str, dflt: u32, decls: &[Decl], style: u64) -> String {
    let (t, ba) = match target_of(target) {
        Some(x) => x,
        None => return "BAD-TARGET".into(),
    };
    let src = render(decls, dflt, style);
    let r = catch(|| {
        let mut inc = MemFiles::single("main.rssl", &src);
        let args = rssl::CompileArgs::new("main.rssl", &mut inc, t).support_buffer_address(ba);
        rssl::compile(args)
    });
    let pipes = match r {
        Ok(Ok(p)) => p,
        Ok(Err(e)) => return format!("REJECT:{}", e.to_string().lines().next().unwrap_or("")),
        Err(_) => return "PANIC".into(),
    };
    let meta = &pipes[0].metadata;
    let mut out = Vec::new();
    for (i, _d) in decls.iter().enumerate() {
        let name = format!("g{}", i);
        let mut found = Vec::new();
        for (set, g) in meta.bind_groups.iter().enumerate() {
            for b in &g.bindings {
                if b.name == name {
                    found.push(show_loc(set as u32, b.api_binding, b.descriptor_count));
                }
            }
        }
        out.push(match found.len() {
            0 => "-".to_string(),
            1 => found.pop().unwrap(),
            _ => format!("DUP[{}]", found.join(";")),
        });
    }
    out.push("|".into());
    for (set, g) in meta.bind_groups.iter().enumerate() {
        if let Some(ic) = &g.inline_constants {
            out.push(format!("{},{},{}", set, ic.api_location, ic.size_in_bytes));
        }
    }
    out.join(" ")
}

pub fn run_line(line: &str) -> String {
    let w: Vec<&str> = line.split_whitespace().collect();
    if w.len() < 2 {
        return "BAD-CASE".into();
    }
    let dflt: u32 = w[1].parse().unwrap_or(0);
    let decls: Option<Vec<Decl>> = w[2..].iter().map(|x| Decl::parse(x)).collect();
    let decls = match decls {
        Some(d) => d,
        None => return "BAD-CASE".into(),
    };
    // rendering style (attribute vs register(space)) is a function of the line, so a line replays exactly
    let style = line.bytes().fold(1469598103934665603u64, |h, b| (h ^ b as u64).wrapping_mul(1099511628211));
    if let Some(bits) = w[0].strip_prefix("P:") {
        if bits.len() != 4 {
            return "BAD-CASE".into();
        }
        run_direct(bits, dflt, &decls, style)
    } else if let Some(t) = w[0].strip_prefix("T:") {
        run_compile(t, dflt, &decls, style)
    } else {
        "BAD-CASE".into()
    }
}

const CFGS: &[&str] = &["P:1001", "P:0001", "P:0101", "P:0010", "T:HlslForDirectX", "T:HlslForVulkan", "T:HlslForVulkan+BA", "T:Msl"];

pub fn gen_decl(rng: &mut Rng, reduced: bool) -> Decl {
    let r = rng.below(100);
    let kind = if r < 10 {
        "c".to_string()
    } else if r < 16 {
        (*rng.pick(&["n", "s", "f"])).to_string()
    } else if reduced {
        format!("o:{}", rng.pick(&["Texture2D", "StructuredBuffer", "BufferAddress", "SamplerState", "RWByteAddressBuffer"]))
    } else if rng.chance(1, 3) {
        // bias towards the kinds with special handling
        format!("o:{}", rng.pick(&["BufferAddress", "RWBufferAddress", "ByteAddressBuffer", "StructuredBuffer", "SamplerState", "SamplerComparisonState"]))
    } else {
        format!("o:{}", rng.pick(OBJ_KINDS).0)
    };
    let is_obj = kind.starts_with("o:");
    let is_sampler = kind == "o:SamplerState" || kind == "o:SamplerComparisonState";
    let arr = if kind == "c" || kind == "s" || kind == "f" { None } else if rng.chance(2, 5) { Some(rng.range(1, 3) as u32) } else { None };
    let set = if kind == "s" || kind == "f" || kind == "n" { None } else if rng.chance(1, 2) { Some(rng.below(3) as u32) } else { None };
    let ss = is_sampler && arr.is_none() && rng.chance(1, 2);
    let _ = is_obj;
    Decl { kind, arr, set, ss, ext: true }
}

pub fn gen_cases(seed: u64, n: usize, thorough: bool) -> Vec<String> {
    let mut rng = Rng::new(seed);
    let mut out = Vec::new();
    // exhaustive part: all sequences of length <= L over a reduced alphabet (one representative per cost class)
    let reps: Vec<Decl> = {
        let mut v = Vec::new();
        for (k, ss_ok) in [("c", false), ("n", false), ("o:Texture2D", false), ("o:StructuredBuffer", false), ("o:BufferAddress", false), ("o:SamplerState", true)] {
            for arr in [None, Some(2u32)] {
                if (k == "c") && arr.is_some() {
                    continue;
                }
                for set in [None, Some(1u32)] {
                    if k == "n" && set.is_some() {
                        continue;
                    }
                    v.push(Decl { kind: k.into(), arr, set, ss: false, ext: true });
                    if ss_ok && arr.is_none() {
                        v.push(Decl { kind: k.into(), arr, set, ss: true, ext: true });
                    }
                }
            }
        }
        v
    };
    let max_len = if thorough { 3 } else { 2 };
    for cfg in CFGS {
        for dflt in 0..3u32 {
            if !thorough && cfg.starts_with("T:") && dflt == 1 {
                continue;
            }
            let mut idx = vec![0usize; 0];
            // enumerate sequences by length
            for len in 0..=max_len {
                idx.clear();
                idx.resize(len, 0);
                loop {
                    let ds: Vec<String> = idx.iter().map(|&i| reps[i].word()).collect();
                    out.push(format!("{} {} {}", cfg, dflt, ds.join(" ")).trim_end().to_string());
                    let mut k = 0;
                    while k < len {
                        idx[k] += 1;
                        if idx[k] < reps.len() {
                            break;
                        }
                        idx[k] = 0;
                        k += 1;
                    }
                    if k == len {
                        break;
                    }
                }
            }
        }
    }
    // full alphabet singles and pairs (every kind x array x group), direct configs
    for cfg in &CFGS[..4] {
        for (k, _) in OBJ_KINDS {
            for arr in [None, Some(1u32), Some(2), Some(3)] {
                for set in [None, Some(0u32), Some(1), Some(2)] {
                    let d = Decl { kind: format!("o:{}", k), arr, set, ss: false, ext: true };
                    let tail = Decl { kind: "o:Texture2D".into(), arr: None, set, ss: false, ext: true };
                    out.push(format!("{} {} {} {}", cfg, 1, d.word(), tail.word()));
                }
            }
        }
    }
    // random longer sequences over the full alphabet
    for _ in 0..n {
        let cfg = *rng.pick(CFGS);
        let dflt = rng.below(3) as u32;
        let len = if rng.chance(1, 10) { rng.range(13, 40) } else { rng.range(1, 12) } as usize;
        let reduced = rng.chance(1, 4);
        let mut ds = Vec::new();
        for _ in 0..len {
            let mut d = gen_decl(&mut rng, reduced);
            // occasionally a non-extern object global (local copy of a handle)
            if d.kind.starts_with("o:") && !d.ss && rng.chance(1, 40) {
                d.ext = false;
            }
            ds.push(d.word());
        }
        out.push(format!("{} {} {}", cfg, dflt, ds.join(" ")));
    }
    out
}
