//! C16: overload resolution.  Case:  <sig> ... | <arg> ... | <perm>
//!   sig = id:nondefault:param,param,...   param = <Scalar><s|vN>[o][c]     arg = <Scalar><s|vN><l|r>[c]
//!   perm = indices into the sig list: the declaration order of the second compilation
//! Output: <verdict in given order> ; <verdict in permuted order>   verdict = SEL <id> | AMBIGUOUS | NOMATCH | REJECT:...
use crate::common::*;

const SCALARS: &[(&str, &str)] = &[("Bool", "bool"), ("Int32", "int"), ("UInt32", "uint"), ("Float16", "half"), ("Float32", "float"), ("Float64", "double")];

fn split_type(w: &str) -> Option<(&str, &str)> {
    // scalar name, then s | vN, then flags
    for (name, _) in SCALARS.iter().chain([("IntLiteral", ""), ("FloatLiteral", "")].iter()) {
        if let Some(rest) = w.strip_prefix(name) {
            if rest.starts_with('s') || rest.starts_with('v') {
                return Some((name, rest));
            }
        }
    }
    None
}

fn type_src(name: &str, suf: &str) -> Option<(String, String)> {
    let base = SCALARS.iter().find(|(n, _)| *n == name).map(|(_, s)| *s)?;
    if let Some(flags) = suf.strip_prefix('s') {
        Some((base.to_string(), flags.to_string()))
    } else {
        let d = suf.chars().nth(1)?;
        Some((format!("{}{}", base, d), suf[2..].to_string()))
    }
}

struct Sig {
    id: String,
    non_default: usize,
    params: Vec<String>,
}

fn parse_sig(w: &str) -> Option<Sig> {
    let p: Vec<&str> = w.split(':').collect();
    if p.len() != 3 {
        return None;
    }
    Some(Sig { id: p[0].to_string(), non_default: p[1].parse().ok()?, params: p[2].split(',').filter(|x| !x.is_empty()).map(|x| x.to_string()).collect() })
}

fn render(sigs: &[&Sig], args: &[&str]) -> Option<String> {
    let mut s = String::new();
    for sig in sigs {
        let mut ps = Vec::new();
        for (i, p) in sig.params.iter().enumerate() {
            let (name, suf) = split_type(p)?;
            let (ty, flags) = type_src(name, suf)?;
            let mut t = String::new();
            if flags.contains('o') {
                t += "out ";
            }
            if flags.contains('c') {
                t += "const ";
            }
            t += &format!("{} p{}", ty, i);
            if i >= sig.non_default {
                t += &format!(" = ({})0", ty);
            }
            ps.push(t);
        }
        s += &format!("void f({}) {{}}\n", ps.join(", "));
    }
    let mut decls = String::new();
    let mut helpers = String::new();
    let mut call = Vec::new();
    for (i, a) in args.iter().enumerate() {
        let (name, suf) = split_type(a)?;
        if name == "IntLiteral" {
            call.push("1".to_string());
            continue;
        }
        if name == "FloatLiteral" {
            call.push("1.0".to_string());
            continue;
        }
        let (ty, flags) = type_src(name, suf)?;
        if flags.contains('l') {
            if flags.contains('c') {
                decls += &format!("    const {} a{} = ({})0;\n", ty, i, ty);
            } else {
                decls += &format!("    {} a{} = ({})0;\n", ty, i, ty);
            }
            call.push(format!("a{}", i));
        } else {
            helpers += &format!("{} r{}() {{ return ({})0; }}\n", ty, i, ty);
            call.push(format!("r{}()", i));
        }
    }
    s += &helpers;
    s += &format!("void g() {{\n{}    f({});\n}}\n", decls, call.join(", "));
    Some(s)
}

fn verdict(sigs: &[&Sig], args: &[&str]) -> String {
    let src = match render(sigs, args) {
        Some(s) => s,
        None => return "BAD-CASE".into(),
    };
    let mut sm = rssl::text::SourceManager::new();
    let mut inc = MemFiles::single("main.rssl", &src);
    let tokens = match rssl::preprocess::preprocess("main.rssl", &mut sm, &mut inc, &[]) {
        Ok(t) => t,
        Err(_) => return "REJECT:preprocess".into(),
    };
    let tokens = rssl::preprocess::prepare_tokens(&tokens);
    let tree = match rssl::parser::parse(&tokens) {
        Ok(t) => t,
        Err(_) => return "REJECT:parse".into(),
    };
    match rssl::typer::type_check(&tree) {
        Ok(module) => {
            let reg = &module.function_registry;
            let mut f_ids = Vec::new();
            let mut g_id = None;
            for id in reg.iter() {
                if reg.get_intrinsic_data(id).is_some() {
                    continue;
                }
                match reg.get_function_name(id) {
                    "f" => f_ids.push(id),
                    "g" => g_id = Some(id),
                    _ => {}
                }
            }
            let g = match g_id.and_then(|id| reg.get_function_implementation(id).as_ref()) {
                Some(i) => format!("{:?}", i),
                None => return "NO-G".into(),
            };
            // the call statement is the last statement of g; the outermost Call of it comes first in its text
            let pos = match g.rfind("kind: Expression(Call(FunctionId(") {
                Some(p) => p + "kind: Expression(Call(FunctionId(".len(),
                None => return format!("NO-CALL"),
            };
            let num: String = g[pos..].chars().take_while(|c| c.is_ascii_digit()).collect();
            let fid: u32 = num.parse().unwrap_or(u32::MAX);
            match f_ids.iter().position(|x| x.0 == fid) {
                Some(i) => format!("SEL {}", sigs[i].id),
                None => format!("SEL-UNKNOWN {}", fid),
            }
        }
        Err(e) => {
            use rssl::text::CompileErrorExt;
            let msg = format!("{}", e.display(&sm));
            if msg.contains("ambiguous call to") {
                "AMBIGUOUS".into()
            } else if msg.contains("no matching function for call to") {
                "NOMATCH".into()
            } else {
                let l = msg.lines().next().unwrap_or("");
                format!("REJECT:{}", l.split(": ").last().unwrap_or(l))
            }
        }
    }
}

pub fn run_line(line: &str) -> String {
    let parts: Vec<&str> = line.split('|').collect();
    if parts.len() != 3 {
        return "BAD-CASE".into();
    }
    let sigs: Option<Vec<Sig>> = parts[0].split_whitespace().map(parse_sig).collect();
    let sigs = match sigs {
        Some(s) => s,
        None => return "BAD-CASE".into(),
    };
    let args: Vec<&str> = parts[1].split_whitespace().collect();
    let perm: Vec<usize> = parts[2].split_whitespace().filter_map(|x| x.parse().ok()).collect();
    let a: Vec<&Sig> = sigs.iter().collect();
    let b: Vec<&Sig> = perm.iter().filter_map(|&i| sigs.get(i)).collect();
    let v1 = verdict(&a, &args);
    let v2 = if b.len() == sigs.len() { verdict(&b, &args) } else { "BAD-PERM".into() };
    format!("{} ; {}", v1, v2)
}

fn gen_type(rng: &mut Rng, wide: bool) -> String {
    let sc = rng.pick(SCALARS).0;
    let r = rng.below(if wide { 12 } else { 10 });
    let dim = if r < 4 { "s".to_string() } else if r < 10 { format!("v{}", rng.range(2, 4)) } else { "v1".to_string() };
    format!("{}{}", sc, dim)
}

pub fn gen_cases(seed: u64, n: usize, thorough: bool) -> Vec<String> {
    let mut rng = Rng::new(seed);
    let mut out = Vec::new();
    // exhaustive: 2 overloads x 1 parameter over the scalar types x every scalar argument incl. literals
    let scal: Vec<String> = SCALARS.iter().map(|(n, _)| format!("{}s", n)).collect();
    let mut arg_alpha: Vec<String> = Vec::new();
    for s in &scal {
        arg_alpha.push(format!("{}l", s));
        arg_alpha.push(format!("{}r", s));
    }
    arg_alpha.push("IntLiteralsr".into());
    arg_alpha.push("FloatLiteralsr".into());
    let mut ptypes: Vec<String> = scal.clone();
    if thorough {
        for (n, _) in SCALARS {
            ptypes.push(format!("{}v2", n));
            ptypes.push(format!("{}v3", n));
        }
        for (n, _) in SCALARS {
            arg_alpha.push(format!("{}v2l", n));
            arg_alpha.push(format!("{}v3r", n));
        }
    }
    for (i, p1) in ptypes.iter().enumerate() {
        for p2 in ptypes.iter().skip(i + 1) {
            for a in &arg_alpha {
                out.push(format!("0:1:{} 1:1:{} | {} | 1 0", p1, p2, a));
            }
        }
    }
    if thorough {
        // 3 overloads x 1 parameter over scalars
        for i in 0..scal.len() {
            for j in i + 1..scal.len() {
                for k in j + 1..scal.len() {
                    for a in &arg_alpha {
                        out.push(format!("0:1:{} 1:1:{} 2:1:{} | {} | 2 0 1", scal[i], scal[j], scal[k], a));
                    }
                }
            }
        }
    }
    // three candidates of two parameters that differ only in vector width (the second stage of the resolution ranks them
    // by exact / expanded / contracted arguments), under every declaration order, for vector and scalar arguments
    let perms3 = ["0 1 2", "0 2 1", "1 0 2", "1 2 0", "2 0 1", "2 1 0"];
    for (sc, _) in SCALARS.iter().skip(1).take(4) {
        let shapes: Vec<String> = ["v2", "v3", "v4"].iter().flat_map(|a| ["v2", "v3", "v4"].iter().map(move |b| format!("{}{},{}{}", sc, a, sc, b))).collect();
        let mut sets: Vec<[usize; 3]> = Vec::new();
        for i in 0..shapes.len() { for j in i + 1..shapes.len() { for k in j + 1..shapes.len() { sets.push([i, j, k]); } } }
        let step = if thorough { 1 } else { 7 };
        for (n_, set) in sets.iter().enumerate() {
            if n_ % step != 0 { continue; }
            for args in [format!("{}v4r {}v4r", sc, sc), format!("{}v3r {}v4r", sc, sc), format!("{}sr {}sr", sc, sc)] {
                for p in perms3.iter().skip(1) {
                    out.push(format!("0:2:{} 1:2:{} 2:2:{} | {} | {}", shapes[set[0]], shapes[set[1]], shapes[set[2]], args, p));
                }
            }
        }
    }
    // random sets: 2-5 overloads, 1-3 parameters
    for _ in 0..n {
        let nover = rng.range(2, 5) as usize;
        let npar = rng.range(1, 3) as usize;
        let wide = rng.chance(1, 6);
        let mut sigs: Vec<String> = Vec::new();
        let mut seen = std::collections::HashSet::new();
        let mut guard = 0;
        while sigs.len() < nover && guard < 50 {
            guard += 1;
            // usually the same arity; sometimes one more parameter with a default
            let extra = if rng.chance(1, 8) { 1 } else { 0 };
            let mut ps = Vec::new();
            for _ in 0..npar + extra {
                let mut t = gen_type(&mut rng, wide);
                if rng.chance(1, 10) {
                    t += "o";
                }
                if wide && rng.chance(1, 12) {
                    t += "c";
                }
                ps.push(t);
            }
            // overloads may not differ only by in/out or const
            let key: Vec<String> = ps.iter().take(npar).map(|p| p.trim_end_matches(|c| c == 'o' || c == 'c').to_string()).collect();
            if !seen.insert(key.join(",")) {
                continue;
            }
            sigs.push(format!("{}:{}:{}", sigs.len(), npar, ps.join(",")));
        }
        // argument tuples: mostly close to one of the candidates, sometimes arbitrary
        for _ in 0..3 {
            let mut args = Vec::new();
            for i in 0..npar {
                let base = if rng.chance(2, 3) {
                    let s = rng.pick(&sigs);
                    let p = s.split(':').nth(2).unwrap().split(',').nth(i).unwrap().trim_end_matches(|c| c == 'o' || c == 'c').to_string();
                    p
                } else {
                    gen_type(&mut rng, wide)
                };
                let r = rng.below(12);
                args.push(if r == 0 {
                    "IntLiteralsr".to_string()
                } else if r == 1 {
                    "FloatLiteralsr".to_string()
                } else if r < 7 {
                    format!("{}l", base)
                } else if r == 7 && wide {
                    format!("{}lc", base)
                } else {
                    format!("{}r", base)
                });
            }
            // a random permutation of the declaration order
            let mut perm: Vec<usize> = (0..sigs.len()).collect();
            for i in (1..perm.len()).rev() {
                let j = rng.below(i as u64 + 1) as usize;
                perm.swap(i, j);
            }
            let perm_s: Vec<String> = perm.iter().map(|x| x.to_string()).collect();
            out.push(format!("{} | {} | {}", sigs.join(" "), args.join(" "), perm_s.join(" ")));
        }
    }
    out
}
