//! C13: compile-time constant evaluation.
//! Case line:  <debug 0|1> <IR of the initialiser in prefix words> # <source type> # <source expression>
//!   expr  := L <const> | C <cty> <expr> | U <Op> <expr> | B <Op> <expr> <expr> | Z <size|-> | X
//!   const := b 0|1 | i <Kind> <z> | d <Kind> <f64 bits> | s <Kind> <f32 bits> | e <enum id> <const>
//!   cty   := S <ScalarType> | E <enum id> <underlying ScalarType> | O
//! Output: OK <const> | NOTCONST | PANIC [; ...]   (floats as bit patterns, NaN canonicalised)
//! The IR is taken from `static T g = e;` (never evaluated), the value from `static const T g = e;`.
use crate::common::*;
use rssl::ir;

fn show_const(c: &ir::Constant) -> String {
    use ir::Constant::*;
    let f64s = |k: &str, v: f64| if v.is_nan() { format!("d {} NaN", k) } else { format!("d {} {}", k, v.to_bits()) };
    let f32s = |k: &str, v: f32| if v.is_nan() { format!("s {} NaN", k) } else { format!("s {} {}", k, v.to_bits()) };
    match c {
        Bool(b) => format!("b {}", *b as u8),
        IntLiteral(v) => format!("i IntLiteral {}", v),
        Int32(v) => format!("i Int32 {}", v),
        UInt32(v) => format!("i UInt32 {}", v),
        Int64(v) => format!("i Int64 {}", v),
        UInt64(v) => format!("i UInt64 {}", v),
        FloatLiteral(v) => f64s("FloatLiteral", *v),
        Float16(v) => f32s("Float16", *v),
        Float32(v) => f32s("Float32", *v),
        Float64(v) => f64s("Float64", *v),
        String(_) => "str".to_string(),
        Enum(id, inner) => format!("e {} {}", id.0, show_const(inner)),
    }
}

fn scalar_name(s: ir::ScalarType) -> String {
    use ir::ScalarType::*;
    match s {
        Bool => "Bool",
        IntLiteral => "IntLiteral",
        Int32 => "Int32",
        UInt32 => "UInt32",
        FloatLiteral => "FloatLiteral",
        Float16 => "Float16",
        Float32 => "Float32",
        Float64 => "Float64",
    }
    .to_string()
}

fn ser(e: &ir::Expression, m: &ir::Module, out: &mut Vec<String>) {
    match e {
        ir::Expression::Literal(c) => {
            out.push("L".into());
            out.push(show_const(c));
        }
        ir::Expression::EnumValue(id) => {
            let v = m.enum_registry.get_enum_value(*id);
            out.push("L".into());
            out.push(format!("e {} {}", v.enum_id.0, show_const(&v.value)));
        }
        ir::Expression::Cast(ty, inner) => {
            let t = m.type_registry.remove_modifier(*ty);
            match m.type_registry.get_type_layer(t) {
                ir::TypeLayer::Scalar(s) => out.push(format!("C S {}", scalar_name(s))),
                ir::TypeLayer::Enum(id) => out.push(format!("C E {} {}", id.0, scalar_name(m.enum_registry.get_underlying_scalar(id)))),
                _ => out.push("C O".into()),
            }
            ser(inner, m, out);
        }
        ir::Expression::IntrinsicOp(op, args) => {
            if args.len() == 1 {
                out.push(format!("U {:?}", op));
                ser(&args[0], m, out);
            } else if args.len() == 2 {
                out.push(format!("B {:?}", op));
                ser(&args[0], m, out);
                ser(&args[1], m, out);
            } else {
                out.push("X".into());
            }
        }
        ir::Expression::SizeOf(ty) => {
            let t = m.type_registry.remove_modifier(*ty);
            match m.type_registry.get_type_layer(t) {
                ir::TypeLayer::Scalar(s) => match s.get_size() {
                    Some(z) => out.push(format!("Z {}", z)),
                    None => out.push("Z -".into()),
                },
                ir::TypeLayer::Enum(id) => out.push(format!("Z {}", m.enum_registry.get_underlying_scalar(id).get_size().unwrap_or(0))),
                _ => out.push("Z -".into()),
            }
        }
        _ => out.push("X".into()),
    }
}

const PRELUDE: &str = "enum EA { EA0 = 1, EA1 = 5, EA2 };\nenum EB { EB0 = 2u, EB1 };\n";

fn program(ty: &str, expr: &str, is_const: bool) -> String {
    format!("{}static {}{} g = {};\n", PRELUDE, if is_const { "const " } else { "" }, ty, expr)
}

/// IR of the initialiser from the non-const variant
fn ir_of(ty: &str, expr: &str) -> Result<String, String> {
    let m = front_end(&program(ty, expr, false))?;
    let g = m.global_registry.iter().find(|g| g.name.node == "g" && !g.is_intrinsic).ok_or("no g")?;
    match &g.init {
        Some(ir::Initializer::Expression(e)) => {
            let mut out = Vec::new();
            ser(e, &m, &mut out);
            Ok(out.join(" "))
        }
        _ => Err("init".into()),
    }
}

fn value_of(ty: &str, expr: &str) -> String {
    let r = catch(|| front_end(&program(ty, expr, true)));
    match r {
        Err(_) => "PANIC".into(),
        Ok(Err(e)) => format!("REJECT:{}", e),
        Ok(Ok(m)) => {
            let g = m.global_registry.iter().find(|g| g.name.node == "g" && !g.is_intrinsic).unwrap();
            match &g.constexpr_value {
                Some(c) => format!("OK {}", show_const(c)),
                None => "NOTCONST".into(),
            }
        }
    }
}

/// `<debug> N <n> <first const>`: an enum whose first enumerator has this value and n more follow without initialisers
fn run_enum(w: &[&str]) -> String {
    if w.len() < 4 { return "BAD-CASE".into(); }
    let n: usize = match w[2].parse() { Ok(n) => n, Err(_) => return "BAD-CASE".into() };
    let first = match (w[3], w.get(4).copied(), w.get(5).copied()) {
        ("b", Some("0"), _) => "false".to_string(),
        ("b", Some("1"), _) => "true".to_string(),
        ("i", Some(kind), Some(z)) => {
            let mag = z.trim_start_matches('-');
            let lit = if z.starts_with('-') { format!("(-{})", mag) } else { mag.to_string() };
            match kind { "IntLiteral" => lit, "Int32" => format!("(int){}", lit), "UInt32" => format!("{}u", mag), _ => return "BAD-CASE".into() }
        }
        _ => return "BAD-CASE".into(),
    };
    let mut src = format!("enum EN {{ A0 = {}", first);
    for i in 1..=n { src += &format!(", A{}", i); }
    src += " };\n";
    let o = crate::probe::compile_src(&[("main.rssl", &src)], "main.rssl", "HlslForDirectX", true, false, None, &[]);
    if o.kind == "PANIC" { return "PANIC".into(); }
    if o.kind != "OK" {
        return if o.text.contains("can not fit in any type") { "ENUM-NO-TYPE".into() } else { format!("REJECT:{}", o.text.lines().next().unwrap_or("")) };
    }
    match catch(|| front_end(&src)) {
        Ok(Ok(m)) => {
            let id = ir::EnumId(0);
            let mut out = format!("ENUM {}", scalar_name(m.enum_registry.get_underlying_scalar(id)));
            for v in m.enum_registry.get_values(id) {
                out += &match &m.enum_registry.get_enum_value(*v).value {
                    ir::Constant::Int32(x) => format!(" {}", x),
                    ir::Constant::UInt32(x) => format!(" {}", x),
                    other => format!(" ?{:?}", other),
                };
            }
            out
        }
        Ok(Err(e)) => format!("REJECT:{}", e),
        Err(_) => "PANIC".into(),
    }
}

fn find_case(b: &ir::ScopeBlock) -> Option<ir::Constant> {
    for st in &b.0 {
        match &st.kind {
            ir::StatementKind::CaseLabel(c) => return Some(c.clone()),
            ir::StatementKind::Switch(_, inner) | ir::StatementKind::Block(inner) => { if let Some(c) = find_case(inner) { return Some(c); } }
            _ => {}
        }
    }
    None
}

/// `<debug> Q # <expr>`: the same int expression as a const initialiser, an enum value, a case label, an array size and
/// a numthreads argument; every position reports the value it computed
fn run_positions(expr: &str) -> String {
    let v = match value_of("int", expr).strip_prefix("OK i Int32 ").map(|s| s.to_string()) { Some(v) => v, None => return "SKIP not an int constant".into() };
    let vz: i64 = v.parse().unwrap_or(0);
    let mut out = format!("POS const={}", v);
    // enum value
    out += &match catch(|| front_end(&format!("{}enum EQ {{ QA = {} }};\n", PRELUDE, expr))) {
        Ok(Ok(m)) => {
            let id = ir::EnumId(m.enum_registry.get_enum_count() - 1);
            match m.enum_registry.get_values(id).first().map(|x| m.enum_registry.get_enum_value(*x).value.clone()) {
                Some(ir::Constant::Int32(x)) => format!(" enum={}", x),
                Some(ir::Constant::UInt32(x)) => format!(" enum={}", x),
                other => format!(" enum=?{:?}", other),
            }
        }
        Ok(Err(e)) => format!(" enum=REJECT:{}", e),
        Err(_) => " enum=PANIC".to_string(),
    };
    // case label
    out += &match catch(|| front_end(&format!("{}int qf(int x) {{ switch (x) {{ case {}: return 1; default: return 0; }} }}\n", PRELUDE, expr))) {
        Ok(Ok(m)) => {
            let mut found = None;
            for id in m.function_registry.iter() {
                if let Some(f) = m.function_registry.get_function_implementation(id) {
                    if m.function_registry.get_function_name(id) == "qf" { found = find_case(&f.scope_block); }
                }
            }
            match found { Some(c) => format!(" case={}", show_const(&c).replace(' ', ":")), None => " case=?".to_string() }
        }
        Ok(Err(e)) => format!(" case=REJECT:{}", e),
        Err(_) => " case=PANIC".to_string(),
    };
    // array size
    if (1..=65536).contains(&vz) {
        out += &match catch(|| front_end(&format!("{}static float qa[{}];\n", PRELUDE, expr))) {
            Ok(Ok(m)) => {
                let g = m.global_registry.iter().find(|g| g.name.node == "qa" && !g.is_intrinsic).map(|g| g.type_id);
                match g.map(|t| m.type_registry.get_type_layer(m.type_registry.remove_modifier(t))) {
                    Some(ir::TypeLayer::Array(_, Some(n))) => format!(" array={}", n),
                    other => format!(" array=?{:?}", other),
                }
            }
            Ok(Err(e)) => format!(" array=REJECT:{}", e),
            Err(_) => " array=PANIC".to_string(),
        };
    }
    // numthreads
    if (1..=64).contains(&vz) {
        let src = format!("{}[numthreads({}, 1, 1)] void CSQ() {{}}\nPipeline PQ {{ ComputeShader = CSQ; }}\n", PRELUDE, expr);
        let o = crate::probe::compile_src(&[("main.rssl", &src)], "main.rssl", "HlslForDirectX", false, false, None, &[]);
        let t = if o.kind == "OK" {
            match o.pipelines.first().and_then(|p| p.stages.first()).and_then(|s| s.thread_group_size) { Some(t) => t.0.to_string(), None => "?none".to_string() }
        } else { format!("{}:{}", if o.kind == "PANIC" { "PANIC" } else { "REJECT" }, o.text.lines().next().unwrap_or("").replace(' ', "_")) };
        out += &format!(" threads={}", t);
    }
    out
}

pub fn run_line(line: &str) -> String {
    let w: Vec<&str> = line.split_whitespace().collect();
    if w.len() > 1 && w[1] == "N" { return run_enum(&w); }
    if w.len() > 1 && w[1] == "Q" { return match line.split_once(" # ") { Some((_, e)) => run_positions(e.trim()), None => "BAD-CASE".into() }; }
    let parts: Vec<&str> = line.split(" # ").collect();
    if parts.len() != 3 {
        return "BAD-CASE".into();
    }
    let ir_words = parts[0].splitn(2, ' ').nth(1).unwrap_or("");
    let (ty, expr) = (parts[1], parts[2]);
    // the recorded IR must be what the front end still produces for this source
    match catch(|| ir_of(ty, expr)) {
        Ok(Ok(s)) if s == ir_words => {}
        Ok(Ok(s)) => return format!("IR-CHANGED {}", s),
        Ok(Err(e)) => return format!("REJECT:{}", e),
        Err(_) => return "PANIC-IN-FRONTEND".into(),
    }
    value_of(ty, expr)
}

// ---------- source expression generator ----------
const INTS: &[&str] = &["0", "1", "2", "3", "5", "31", "32", "33", "2147483647", "2147483648", "4294967295", "4294967296", "9223372036854775808", "18446744073709551615", "65535", "127", "128"];
const FLOATS: &[&str] = &["0.0", "1.0", "0.5", "2.5", "1e10", "3e38", "1e39", "1e-40", "16777217.0", "4294967296.0", "2147483648.0", "0.1", "1e300", "4e9"];

fn gen_int_like(rng: &mut Rng, depth: u32, ty: &str) -> String {
    // ty: "lit" | "int" | "uint"
    let r = rng.below(if depth == 0 { 3 } else { 14 });
    let lit = |rng: &mut Rng| (*rng.pick(INTS)).to_string();
    match r {
        0 | 1 | 2 => match ty {
            "int" => {
                if rng.chance(1, 4) {
                    "(-2147483647 - 1)".to_string()
                } else {
                    format!("(int){}", *rng.pick(&["0", "1", "2", "31", "32", "33", "2147483647", "5", "65535", "-1", "-2147483647"]))
                }
            }
            "uint" => format!("{}u", *rng.pick(&["0", "1", "2", "31", "32", "33", "4294967295", "2147483648", "5", "65535"])),
            _ => lit(rng),
        },
        3 | 4 | 5 | 6 => {
            let op = *rng.pick(&["+", "-", "*", "/", "%", "<<", ">>", "&", "|", "^"]);
            // operands of the same type, occasionally a different one (implicit conversions)
            let t2 = if rng.chance(1, 6) { *rng.pick(&["lit", "int", "uint"]) } else { ty };
            format!("({} {} {})", gen_int_like(rng, depth - 1, ty), op, gen_int_like(rng, depth - 1, t2))
        }
        7 => format!("(-{})", gen_int_like(rng, depth - 1, ty)),
        8 => format!("(~{})", gen_int_like(rng, depth - 1, ty)),
        9 => format!("(+{})", gen_int_like(rng, depth - 1, ty)),
        10 => {
            let from = *rng.pick(&["lit", "int", "uint", "bool", "float", "double", "enum"]);
            let target = match ty { "int" => "int", "uint" => "uint", _ => *rng.pick(&["int", "uint"]) };
            format!("(({}){})", target, gen_any(rng, depth - 1, from))
        }
        11 => format!("({} ? {} : {})", gen_any(rng, depth - 1, "bool"), gen_int_like(rng, depth - 1, ty), gen_int_like(rng, depth - 1, ty)),
        _ => match ty {
            "int" => format!("(int){}", gen_int_like(rng, depth - 1, "lit")),
            "uint" => format!("(uint){}", gen_int_like(rng, depth - 1, "lit")),
            _ => gen_int_like(rng, depth - 1, "lit"),
        },
    }
}

fn gen_any(rng: &mut Rng, depth: u32, ty: &str) -> String {
    match ty {
        "lit" | "int" | "uint" => gen_int_like(rng, depth, ty),
        "bool" => {
            let r = rng.below(if depth == 0 { 2 } else { 9 });
            match r {
                0 => "true".into(),
                1 => "false".into(),
                2 | 3 | 4 => {
                    let t = *rng.pick(&["lit", "int", "uint", "float", "double", "bool", "enum"]);
                    let op = *rng.pick(&["<", "<=", ">", ">=", "==", "!="]);
                    format!("({} {} {})", gen_any(rng, depth - 1, t), op, gen_any(rng, depth - 1, t))
                }
                5 => format!("({} {} {})", gen_any(rng, depth - 1, "bool"), *rng.pick(&["&&", "||"]), gen_any(rng, depth - 1, "bool")),
                6 => format!("(!{})", gen_any(rng, depth - 1, "bool")),
                _ => {
                    let t = *rng.pick(&["lit", "int", "uint", "float", "double"]);
                    format!("((bool){})", gen_any(rng, depth - 1, t))
                }
            }
        }
        "float" | "double" | "half" | "flit" => {
            let r = rng.below(if depth == 0 { 2 } else { 6 });
            match r {
                0 | 1 => {
                    let l = *rng.pick(FLOATS);
                    match ty {
                        "float" => format!("{}f", l),
                        "half" => format!("(half){}", l),
                        "double" => format!("(double){}", l),
                        _ => l.to_string(),
                    }
                }
                2 => format!("(-{})", gen_any(rng, depth - 1, ty)),
                _ => {
                    let from = *rng.pick(&["lit", "int", "uint", "bool", "float", "double", "half", "flit"]);
                    let t = if ty == "flit" { "float" } else { ty };
                    format!("(({}){})", t, gen_any(rng, depth - 1, from))
                }
            }
        }
        "enum" => {
            let r = rng.below(if depth == 0 { 3 } else { 6 });
            match r {
                0 => "EA0".into(),
                1 => "EA1".into(),
                2 => "EB1".into(),
                3 => {
                    let t = *rng.pick(&["lit", "int"]);
                    format!("((EA){})", gen_int_like(rng, depth - 1, t))
                }
                4 => format!("({} | {})", gen_any(rng, depth - 1, "enum"), gen_any(rng, depth - 1, "enum")),
                _ => format!("((EB){})", gen_int_like(rng, depth - 1, "uint")),
            }
        }
        _ => "0".into(),
    }
}

pub fn gen_cases(seed: u64, n: usize, _thorough: bool) -> Vec<String> {
    let mut rng = Rng::new(seed);
    let mut out = Vec::new();
    // enumerators without initialisers after a first value at and around the ends of every range
    for first in ["b 0", "b 1", "i IntLiteral 0", "i IntLiteral 7", "i IntLiteral -3", "i IntLiteral 2147483646", "i IntLiteral 2147483647", "i IntLiteral 2147483648", "i IntLiteral 4294967294",
                  "i IntLiteral 4294967295", "i IntLiteral 4294967296", "i IntLiteral -2147483648", "i IntLiteral -2147483649", "i IntLiteral -1", "i Int32 0", "i Int32 -5", "i Int32 2147483645",
                  "i Int32 2147483646", "i Int32 2147483647", "i Int32 -2147483648", "i Int32 -1", "i UInt32 0", "i UInt32 5", "i UInt32 2147483647", "i UInt32 2147483648", "i UInt32 4294967293",
                  "i UInt32 4294967294", "i UInt32 4294967295"] {
        for k in 0..4 { out.push(format!("1 N {} {}", k, first)); }
    }
    // the positions that demand a constant: the same int expression in each of them
    for e in ["1", "2 + 3", "(1 << 4) - 1", "64", "1024 / 4", "65536", "-7", "(int)3u", "7 % 4", "(2147483647 - 2147483646)", "(int)2.9f", "true ? 8 : 9", "(-2147483647 - 1)", "2147483647", "0"] {
        out.push(format!("1 Q # {}", e));
    }
    for _ in 0..n / 10 {
        let e = gen_int_like(&mut rng, 3, "int");
        out.push(format!("1 Q # (int)({})", e));
        out.push(format!("1 Q # (int)((({}) & 63) + 1)", e));
    }
    let mut push = |ty: &str, expr: String, out: &mut Vec<String>| {
        if let Ok(Ok(ir)) = catch(|| ir_of(ty, &expr)) {
            for debug in ["1"] {
                out.push(format!("{} {} # {} # {}", debug, ir, ty, expr));
            }
        }
    };
    // systematic: every binary operator on every pair of boundary operands, in int, uint and literal arithmetic
    let ops = ["+", "-", "*", "/", "%", "<<", ">>", "&", "|", "^", "<", "<=", ">", ">=", "==", "!="];
    let ints = ["0", "1", "(-1)", "(-2147483647 - 1)", "2147483647", "31", "32", "33"];
    let uints = ["0u", "1u", "4294967295u", "2147483648u", "31u", "32u", "33u"];
    let lits = ["0", "1", "31", "32", "127", "128", "4294967296", "9223372036854775808", "18446744073709551615"];
    for op in ops {
        let boolres = matches!(op, "<" | "<=" | ">" | ">=" | "==" | "!=");
        for a in ints {
            for b in ints {
                push(if boolres { "bool" } else { "int" }, format!("(int){} {} (int){}", a, op, b), &mut out);
            }
        }
        for a in uints {
            for b in uints {
                push(if boolres { "bool" } else { "uint" }, format!("{} {} {}", a, op, b), &mut out);
            }
        }
        for a in lits {
            for b in lits {
                push(if boolres { "bool" } else { "uint" }, format!("{} {} {}", a, op, b), &mut out);
            }
        }
    }
    for a in ints {
        for u in ["-", "~", "+", "!"] {
            push("int", format!("{}((int){})", u, a), &mut out);
        }
    }
    for f in FLOATS {
        for t in ["int", "uint", "bool", "float", "half", "double"] {
            push(t, format!("({}){}", t, f), &mut out);
            push(t, format!("({})(-{})", t, f), &mut out);
            push(t, format!("({})({}f)", t, f), &mut out);
        }
    }
    for i in INTS {
        for t in ["int", "uint", "bool", "float", "half", "double"] {
            push(t, format!("({}){}", t, i), &mut out);
            push(t, format!("({})(-{})", t, i), &mut out);
        }
    }
    // random typed expression trees to depth 5
    for _ in 0..n {
        let ty = *rng.pick(&["int", "uint", "bool", "float", "double", "half", "EA"]);
        let src_ty = match ty { "EA" => "enum", t => t };
        let depth = rng.range(1, 5) as u32;
        let e = gen_any(&mut rng, depth, src_ty);
        push(ty, e, &mut out);
    }
    out
}
