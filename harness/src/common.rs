//! Shared helpers: PRNG, in-memory include handler, panic capture.
use std::collections::HashMap;

/// splitmix64: every random choice of a run derives from one seed.
#[derive(Clone)]
pub struct Rng(pub u64);

impl Rng {
    pub fn new(seed: u64) -> Self {
        Rng(seed ^ 0x9E37_79B9_7F4A_7C15)
    }
    pub fn next(&mut self) -> u64 {
        self.0 = self.0.wrapping_add(0x9E37_79B9_7F4A_7C15);
        let mut z = self.0;
        z = (z ^ (z >> 30)).wrapping_mul(0xBF58_476D_1CE4_E5B9);
        z = (z ^ (z >> 27)).wrapping_mul(0x94D0_49BB_1331_11EB);
        z ^ (z >> 31)
    }
    pub fn below(&mut self, n: u64) -> u64 {
        if n == 0 { 0 } else { self.next() % n }
    }
    pub fn range(&mut self, lo: u64, hi: u64) -> u64 {
        lo + self.below(hi - lo + 1)
    }
    pub fn chance(&mut self, num: u64, den: u64) -> bool {
        self.below(den) < num
    }
    pub fn pick<'a, T>(&mut self, xs: &'a [T]) -> &'a T {
        &xs[self.below(xs.len() as u64) as usize]
    }
    pub fn fork(&mut self) -> Rng {
        Rng(self.next())
    }
}

/// Include handler over an in-memory file map.
pub struct MemFiles {
    pub files: HashMap<String, String>,
}

impl MemFiles {
    pub fn single(name: &str, text: &str) -> Self {
        let mut files = HashMap::new();
        files.insert(name.to_string(), text.to_string());
        MemFiles { files }
    }
    pub fn from(list: &[(&str, &str)]) -> Self {
        let mut files = HashMap::new();
        for (n, t) in list {
            files.insert(n.to_string(), t.to_string());
        }
        MemFiles { files }
    }
}

impl rssl::text::IncludeHandler for MemFiles {
    fn load(&mut self, file_name: &str, _parent_name: &str) -> Result<rssl::text::FileData, rssl::text::IncludeError> {
        match self.files.get(file_name) {
            Some(t) => Ok(rssl::text::FileData {
                real_name: file_name.to_string(),
                contents: t.clone(),
            }),
            None => Err(rssl::text::IncludeError::FileNotFound),
        }
    }
}

/// Run `f`, turning a panic into Err(message).
pub fn catch<T>(f: impl FnOnce() -> T) -> Result<T, String> {
    let r = std::panic::catch_unwind(std::panic::AssertUnwindSafe(f));
    match r {
        Ok(v) => Ok(v),
        Err(e) => {
            let msg = if let Some(s) = e.downcast_ref::<&str>() {
                s.to_string()
            } else if let Some(s) = e.downcast_ref::<String>() {
                s.clone()
            } else {
                "panic".to_string()
            };
            Err(msg)
        }
    }
}

thread_local! { static PANIC_SITE: std::cell::RefCell<Option<String>> = const { std::cell::RefCell::new(None) }; }

/// The source file (relative to the repository) of the last panic on this thread.
pub fn take_panic_site() -> Option<String> { PANIC_SITE.with(|s| s.borrow_mut().take()) }

pub fn quiet_panics() {
    let loud = std::env::var("VERIF_LOUD").is_ok();
    let default_hook = std::panic::take_hook();
    std::panic::set_hook(Box::new(move |info| {
        if let Some(l) = info.location() {
            let f = l.file();
            let f = f.strip_prefix("/repo/").unwrap_or(f);
            PANIC_SITE.with(|s| *s.borrow_mut() = Some(format!("{}:{}", f, l.line())));
        }
        if loud { default_hook(info); }
    }));
}

/// Front end only: preprocess + parse + type check a single in-memory file.
pub fn front_end(source: &str) -> Result<rssl::ir::Module, String> {
    let mut sm = rssl::text::SourceManager::new();
    let mut inc = MemFiles::single("main.rssl", source);
    let tokens = rssl::preprocess::preprocess("main.rssl", &mut sm, &mut inc, &[])
        .map_err(|_| "preprocess".to_string())?;
    let tokens = rssl::preprocess::prepare_tokens(&tokens);
    let tree = rssl::parser::parse(&tokens).map_err(|_| "parse".to_string())?;
    rssl::typer::type_check(&tree).map_err(|_| "type".to_string())
}

/// Include handler over a directory tree (the third-party corpus under tests/): a name is tried relative to the
/// directory of the including file, then relative to the root.
pub struct DiskFiles {
    pub root: String,
}

fn norm(path: &str) -> String {
    let mut parts: Vec<&str> = Vec::new();
    for p in path.split('/') {
        if p == ".." { parts.pop(); } else if !p.is_empty() && p != "." { parts.push(p); }
    }
    parts.join("/")
}

impl rssl::text::IncludeHandler for DiskFiles {
    fn load(&mut self, file_name: &str, parent_name: &str) -> Result<rssl::text::FileData, rssl::text::IncludeError> {
        let parent_dir = match parent_name.rfind('/') { Some(i) => &parent_name[..i], None => "" };
        for cand in [norm(&format!("{}/{}", parent_dir, file_name)), norm(file_name)] {
            if let Ok(t) = std::fs::read_to_string(format!("{}/{}", self.root, cand)) {
                return Ok(rssl::text::FileData { real_name: cand, contents: t });
            }
        }
        Err(rssl::text::IncludeError::FileNotFound)
    }
}

pub const CORPUS_DEFINES: &[(&str, &str)] = &[("FFX_GPU", "1"), ("FFX_HLSL", "1"), ("globallycoherent", "")];

/// entry points of the third-party corpus: (root directory relative to the repository, entry file)
pub fn corpus_entries() -> Vec<(String, String)> {
    let repo = std::env::var("RSSL_REPO").unwrap_or("/repo".into());
    let mut out = Vec::new();
    for (root, exts) in [("tests/capsaicin", &["comp", "frag", "vert", "geom"][..]), ("tests/ffx_fsr2", &["hlsl"][..])] {
        let mut stack = vec![String::new()];
        while let Some(dir) = stack.pop() {
            if let Ok(rd) = std::fs::read_dir(format!("{}/{}/{}", repo, root, dir)) {
                let mut es: Vec<_> = rd.filter_map(|e| e.ok()).collect();
                es.sort_by_key(|e| e.path());
                for e in es {
                    let name = e.file_name().to_string_lossy().to_string();
                    let rel = if dir.is_empty() { name.clone() } else { format!("{}/{}", dir, name) };
                    if e.path().is_dir() { stack.push(rel); }
                    else if exts.iter().any(|x| name.ends_with(&format!(".{}", x))) { out.push((root.to_string(), rel)); }
                }
            }
        }
    }
    out.sort();
    out
}

/// A result as one line of text: every control character and Unicode line separator is escaped, so that neither the
/// supervisor nor the Python side (universal newlines) can split it.
pub fn one_line(s: &str) -> String {
    let mut out = String::with_capacity(s.len());
    for c in s.chars() {
        match c {
            '\n' => out.push_str("\\n"),
            c if (c as u32) < 0x20 || ((c as u32) >= 0x7f && (c as u32) < 0xa0) || c == '\u{2028}' || c == '\u{2029}' => out.push_str(&format!("\\u{{{:x}}}", c as u32)),
            c => out.push(c),
        }
    }
    out
}
