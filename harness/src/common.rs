//! Shared helpers: PRNG, in-memory include handler, panic capture.
use std::collections::HashMap;

/// splitmix64: every random choice of a run derives from one seed.
#[derive(Clone)]
pub struct Rng(pub u64);

impl Rng {
    pub fn new(seed: u64) -> Self {
        Rng(seed ^ 0x9E37_79B9_7F4A_7C15)
    }
    pub fn next(&mut self) -> u64 {
        self.0 = self.0.wrapping_add(0x9E37_79B9_7F4A_7C15);
        let mut z = self.0;
        z = (z ^ (z >> 30)).wrapping_mul(0xBF58_476D_1CE4_E5B9);
        z = (z ^ (z >> 27)).wrapping_mul(0x94D0_49BB_1331_11EB);
        z ^ (z >> 31)
    }
    pub fn below(&mut self, n: u64) -> u64 {
        if n == 0 { 0 } else { self.next() % n }
    }
    pub fn range(&mut self, lo: u64, hi: u64) -> u64 {
        lo + self.below(hi - lo + 1)
    }
    pub fn chance(&mut self, num: u64, den: u64) -> bool {
        self.below(den) < num
    }
    pub fn pick<'a, T>(&mut self, xs: &'a [T]) -> &'a T {
        &xs[self.below(xs.len() as u64) as usize]
    }
    pub fn fork(&mut self) -> Rng {
        Rng(self.next())
    }
}

/// Include handler over an in-memory file map.
pub struct MemFiles {
    pub files: HashMap<String, String>,
}

impl MemFiles {
    pub fn single(name: &str, text: &str) -> Self {
        let mut files = HashMap::new();
        files.insert(name.to_string(), text.to_string());
        MemFiles { files }
    }
    pub fn from(list: &[(&str, &str)]) -> Self {
        let mut files = HashMap::new();
        for (n, t) in list {
            files.insert(n.to_string(), t.to_string());
        }
        MemFiles { files }
    }
}

impl rssl::text::IncludeHandler for MemFiles {
    fn load(&mut self, file_name: &str, _parent_name: &str) -> Result<rssl::text::FileData, rssl::text::IncludeError> {
        match self.files.get(file_name) {
            Some(t) => Ok(rssl::text::FileData {
                real_name: file_name.to_string(),
                contents: t.clone(),
            }),
            None => Err(rssl::text::IncludeError::FileNotFound),
        }
    }
}

/// Run `f`, turning a panic into Err(message).
pub fn catch<T>(f: impl FnOnce() -> T) -> Result<T, String> {
    let r = std::panic::catch_unwind(std::panic::AssertUnwindSafe(f));
    match r {
        Ok(v) => Ok(v),
        Err(e) => {
            let msg = if let Some(s) = e.downcast_ref::<&str>() {
                s.to_string()
            } else if let Some(s) = e.downcast_ref::<String>() {
                s.clone()
            } else {
                "panic".to_string()
            };
            Err(msg)
        }
    }
}

pub fn quiet_panics() {
    if std::env::var("VERIF_LOUD").is_ok() { return; }
    std::panic::set_hook(Box::new(|_| {}));
}

/// Front end only: preprocess + parse + type check a single in-memory file.
pub fn front_end(source: &str) -> Result<rssl::ir::Module, String> {
    let mut sm = rssl::text::SourceManager::new();
    let mut inc = MemFiles::single("main.rssl", source);
    let tokens = rssl::preprocess::preprocess("main.rssl", &mut sm, &mut inc, &[])
        .map_err(|_| "preprocess".to_string())?;
    let tokens = rssl::preprocess::prepare_tokens(&tokens);
    let tree = rssl::parser::parse(&tokens).map_err(|_| "parse".to_string())?;
    rssl::typer::type_check(&tree).map_err(|_| "type".to_string())
}
