//! C18: targets agree on what is target-independent.
//! Case: X <program> <mode all|nopipe>    program = c05-style resource program spec, a C07/C14/C17 program, or a repo file
//! Output: AGREE <verdict> | DISAGREE <what>
use crate::common::*;
use crate::probe::compile_src;

const TARGETS: &[&str] = &["HlslForDirectX", "HlslForVulkan", "HlslForVulkan+BA", "Msl"];

fn front_error_class(text: &str) -> Option<String> {
    // front-end diagnostics carry file:line:col; exporter errors start with "error: metal generate" / "error: hlsl"
    let first = text.lines().next().unwrap_or("");
    let parts: Vec<&str> = first.splitn(4, ':').collect();
    if parts.len() == 4 && parts[1].trim().parse::<u32>().is_ok() { Some(text.to_string()) } else { None }
}

fn binding_facts(meta: &str) -> Vec<(String, String, String)> {
    // (name, descriptor kind, count) of every entry; static samplers and buffer addresses normalised away
    let mut out = Vec::new();
    let mut rest = meta;
    while let Some(i) = rest.find("DescriptorBinding { name: \"") {
        let r = &rest[i + 27..];
        let name = r[..r.find('"').unwrap_or(0)].to_string();
        let ty = r.find("descriptor_type: ").map(|j| { let t = &r[j + 17..]; t[..t.find(',').unwrap_or(0)].to_string() }).unwrap_or_default();
        let cnt = r.find("descriptor_count: ").map(|j| { let t = &r[j + 18..]; t[..t.find(", is_bindless").unwrap_or(0)].to_string() }).unwrap_or_default();
        let is_static = r.find("static_sampler: ").map(|j| r[j + 16..].starts_with("Some")).unwrap_or(false);
        let ty = match ty.as_str() { "BufferAddress" => "ByteBuffer".to_string(), "RwBufferAddress" => "RwByteBuffer".to_string(), t => t.to_string() };
        if !is_static { out.push((name, ty, cnt)); }
        rest = &rest[i + 27..];
    }
    out.sort();
    out
}

pub fn compare(src_files: &[(String, String)], nopipe: bool) -> String { compare_with(src_files, nopipe, false) }

/// `layout`: with the layout-consistency validation of the shared front end switched on
pub fn compare_with(src_files: &[(String, String)], nopipe: bool, layout: bool) -> String {
    let list: Vec<(&str, &str)> = src_files.iter().map(|(a, b)| (a.as_str(), b.as_str())).collect();
    // an input that tests the RSSL_TARGET_* macros is only compared between the targets for which they have the same values
    let tests_macros = src_files.iter().any(|(_, t)| t.contains("RSSL_TARGET"));
    let targets: &[&str] = if tests_macros { &TARGETS[..3] } else { TARGETS };
    let outs: Vec<_> = targets.iter().map(|t| compile_src(&list, &src_files[0].0, t, nopipe, layout, None, &[])).collect();
    if outs.iter().any(|o| o.kind == "PANIC") { return format!("DISAGREE a target aborted: {:?}", outs.iter().map(|o| o.kind).collect::<Vec<_>>()); }
    // 1. front-end verdict and diagnostic
    let fronts: Vec<Option<String>> = outs.iter().map(|o| if o.kind == "ERR" { front_error_class(&o.text) } else { None }).collect();
    if fronts.iter().any(|f| f.is_some()) {
        if fronts.iter().all(|f| *f == fronts[0]) { return "AGREE front-end-error".into(); }
        return format!("DISAGREE front-end diagnostics differ: {:?}", fronts.iter().map(|f| f.as_ref().map(|s| s.lines().next().unwrap_or("").to_string())).collect::<Vec<_>>());
    }
    // 2. the HLSL flavours succeed or fail together
    if (outs[0].kind == "OK") != (outs[1].kind == "OK") {
        return format!("DISAGREE DirectX {} vs Vulkan {}: {} / {}", outs[0].kind, outs[1].kind, outs[0].text.lines().next().unwrap_or(""), outs[1].text.lines().next().unwrap_or(""));
    }
    let ok: Vec<usize> = (0..outs.len()).filter(|i| outs[*i].kind == "OK").collect();
    if ok.len() < 2 { return format!("AGREE exporter-errors {}", ok.len()); }
    let base = ok[0];
    for &i in &ok[1..] {
        let (a, b) = (&outs[base], &outs[i]);
        if a.pipelines.len() != b.pipelines.len() { return format!("DISAGREE {} has {} pipelines, {} has {}", TARGETS[base], a.pipelines.len(), TARGETS[i], b.pipelines.len()); }
        for (pa, pb) in a.pipelines.iter().zip(b.pipelines.iter()) {
            let sa: Vec<String> = pa.stages.iter().map(|s| format!("{:?}/{:?}", s.stage, s.thread_group_size)).collect();
            let sb: Vec<String> = pb.stages.iter().map(|s| format!("{:?}/{:?}", s.stage, s.thread_group_size)).collect();
            if sa != sb { return format!("DISAGREE stages {:?} ({}) vs {:?} ({})", sa, TARGETS[base], sb, TARGETS[i]); }
            let (ga, gb) = (format!("{:?}", pa.graphics_pipeline_state), format!("{:?}", pb.graphics_pipeline_state));
            if ga != gb { return format!("DISAGREE pipeline state differs between {} and {}", TARGETS[base], TARGETS[i]); }
            let (fa, fb) = (binding_facts(&format!("{:?}", pa.metadata)), binding_facts(&format!("{:?}", pb.metadata)));
            if fa != fb { return format!("DISAGREE bindings {:?} ({}) vs {:?} ({})", fa, TARGETS[base], fb, TARGETS[i]); }
        }
    }
    // 3. the two HLSL texts differ only in annotations and buffer-address lowering: compare with those stripped
    if outs[0].kind == "OK" && outs[1].kind == "OK" {
        for (pa, pb) in outs[0].pipelines.iter().zip(outs[1].pipelines.iter()) {
            let (ta, tb) = (strip_annotations(&String::from_utf8_lossy(&pa.data)), strip_annotations(&String::from_utf8_lossy(&pb.data)));
            if ta != tb {
                let pos = ta.bytes().zip(tb.bytes()).take_while(|(x, y)| x == y).count();
                let st = pos.saturating_sub(40);
                return format!("DISAGREE HLSL texts differ beyond annotations: `{}` vs `{}`", ta[st..(pos + 40).min(ta.len())].replace('\n', "\\n"), tb[st..(pos + 40).min(tb.len())].replace('\n', "\\n"));
            }
        }
    }
    format!("AGREE ok {}", ok.len())
}

fn strip_annotations(text: &str) -> String {
    // remove `: register(...)`, `[[vk::...]]` attributes and blank lines
    let mut out = String::new();
    for line in text.lines() {
        let mut l = line.to_string();
        while let Some(i) = l.find(" : register(") { if let Some(j) = l[i..].find(')') { l.replace_range(i..i + j + 1, ""); } else { break; } }
        while let Some(i) = l.find("[[vk::") { if let Some(j) = l[i..].find("]]") { l.replace_range(i..i + j + 2, ""); } else { break; } }
        let t = l.split_whitespace().collect::<Vec<_>>().join(" ");
        if !t.is_empty() { out += &t; out.push('\n'); }
    }
    out
}

pub fn run_line(line: &str) -> String {
    let w: Vec<&str> = line.split_whitespace().collect();
    if w.len() < 3 || w[0] != "X" { return "BAD-CASE".into(); }
    // the last word is the mode: all | nopipe, with `+L` for layout validation switched on
    let (mode, layout) = match w[w.len() - 1].strip_suffix("+L") { Some(m) => (m, true), None => (w[w.len() - 1], false) };
    let nopipe = mode == "nopipe";
    let spec = &w[1..w.len() - 1];
    let files: Vec<(String, String)> = if spec[0] == "R" {
        if spec.len() < 8 { return "BAD-CASE".into(); }
        // c05-style program: R <dflt> <entry> <x> <y> <z> U.. H.. decls
        let decls: Vec<crate::c06::Decl> = match spec[8..].iter().map(|x| crate::c06::Decl::parse(x)).collect::<Option<Vec<_>>>() { Some(d) => d, None => return "BAD-CASE".into() };
        let list = |w: &str| -> Vec<usize> { w[1..].split(',').filter_map(|x| x.parse().ok()).collect() };
        let src = crate::c05::render(&decls, spec[1].parse().unwrap_or(0), spec[2], (spec[3].parse().unwrap_or(1), spec[4].parse().unwrap_or(1), spec[5].parse().unwrap_or(1)), &list(spec[6]), &list(spec[7]), true);
        vec![("main.rssl".into(), src)]
    } else if let Some(rel) = spec[0].strip_prefix("file:") {
        match std::fs::read_to_string(format!("{}/{}", std::env::var("RSSL_REPO").unwrap_or("/repo".into()), rel)) { Ok(t) => vec![("main.rssl".into(), t)], Err(_) => return "BAD-CASE".into() }
    } else if let Some(name) = spec[0].strip_prefix("c14:") {
        match crate::c14::program_files(name) { Some(f) => f, None => return "BAD-CASE".into() }
    } else if let Some(p) = spec[0].strip_prefix("probe:") {
        // probe:<macro name>:<k>: a program whose thread-group size and resources depend on a predefined macro
        let mut it = p.split(':');
        let (name, k) = (it.next().unwrap_or("X"), it.next().and_then(|x| x.parse::<u32>().ok()).unwrap_or(0));
        vec![("main.rssl".into(), probe_program(name, k))]
    } else if let Some(name) = spec[0].strip_prefix("c07:") {
        match crate::c07::program_source(name) { Some(t) => vec![("main.rssl".into(), t)], None => return "BAD-CASE".into() }
    } else if let Some(k) = spec[0].strip_prefix("gfx:") {
        // a vertex + pixel pipeline with fixed-function state: formats, blending (shared and per attachment), culling
        let k: usize = k.parse().unwrap_or(0);
        const STATES: &[&str] = &[
            "RenderTargetFormat0 = \"R8G8B8A8_UNORM\";",
            "RenderTargetFormat0 = \"R8G8B8A8_UNORM\"; BlendState = { BlendEnabled = true; SrcBlend = \"SrcAlpha\"; DstBlend = \"OneMinusSrcAlpha\"; BlendOp = \"Add\"; }",
            "RenderTargetFormat0 = \"R8G8B8A8_UNORM\"; RenderTargetFormat1 = \"R16G16B16A16_FLOAT\"; BlendState1 = { BlendEnabled = true; SrcBlend = \"One\"; DstBlend = \"One\"; BlendOp = \"Add\"; }",
            "RenderTargetFormat0 = \"R8G8B8A8_UNORM\"; BlendState3 = { BlendEnabled = true; SrcBlend = \"One\"; DstBlend = \"Zero\"; BlendOp = \"Add\"; }",
            "RenderTargetFormat2 = \"R32_FLOAT\"; DepthTargetFormat = \"D32_FLOAT\"; CullMode = \"Back\"; WindingOrder = \"Clockwise\";",
            "DepthTargetFormat = \"D32_FLOAT\"; CullMode = \"Front\"; WindingOrder = \"CounterClockwise\"; BlendState = { BlendEnabled = false; }",
            "CullMode = \"None\"; BlendState = { BlendEnabled = true; SrcBlendAlpha = \"One\"; DstBlendAlpha = \"Zero\"; BlendOpAlpha = \"Add\"; }",
        ];
        let st = STATES[k % STATES.len()];
        vec![("main.rssl".into(), format!("float4 VSMAIN(uint vid : SV_VertexID) : SV_Position {{ return float4(0.0, 0.0, 0.0, 1.0); }}\nfloat4 PSMAIN(float4 pos : SV_Position) : SV_Target0 {{ return pos; }}\nPipeline Main {{ VertexShader = VSMAIN; PixelShader = PSMAIN; {} }}\n", st))]
    } else if let Some(k) = spec[0].strip_prefix("layout:") {
        // a buffer element type whose HLSL and Metal layouts differ (odd k) or agree (even k)
        let k: u32 = k.parse().unwrap_or(0);
        let body = match k % 4 { 0 => "float4 a; float4 b;", 1 => "float3 position; float3 velocity;", 2 => "uint a; float b;", _ => "float a; half b; half2 c;" };
        let use_ = match (k / 4) % 3 { 0 => "StructuredBuffer<El> g_in;\n[numthreads(64, 1, 1)] void CSMAIN(uint3 id : SV_DispatchThreadID) { El e = g_in[id.x]; g_out.Store(0, 1u); }",
                                       1 => "ByteAddressBuffer g_in;\n[numthreads(64, 1, 1)] void CSMAIN(uint3 id : SV_DispatchThreadID) { El e = g_in.Load<El>(0); g_out.Store(0, 1u); }",
                                       _ => "RWStructuredBuffer<El> g_in;\n[numthreads(64, 1, 1)] void CSMAIN(uint3 id : SV_DispatchThreadID) { El e = g_in[id.x]; g_in[id.x] = e; g_out.Store(0, 1u); }" };
        vec![("main.rssl".into(), format!("struct El {{ {} }};\nRWByteAddressBuffer g_out;\n{}\nPipeline Main {{ ComputeShader = CSMAIN; }}\n", body, use_))]
    } else { return "BAD-CASE".into() };
    compare_with(&files, nopipe, layout)
}

fn probe_program(name: &str, k: u32) -> String {
    let cond = match k {
        0 => format!("#ifdef {}", name),
        1 => format!("#ifndef {}", name),
        2 => format!("#if defined({}) && {} >= 1", name, name),
        3 => format!("#if {} > 2000", name),
        4 => format!("#if {} == 2021", name),
        _ => format!("#if {} + 0 == {}", name, k),
    };
    format!("{}\nTexture2D<float4> g_a;\n#define GROUP 64\n#else\nByteAddressBuffer g_b;\n#define GROUP 32\n#endif\nRWByteAddressBuffer g_out;\n[numthreads(GROUP, 1, 1)] void CS() {{ g_out.Store(0, 1u); }}\nPipeline Main {{ ComputeShader = CS; }}\n", cond)
}

/// the names the compiler predefines (string literals of the initial-defines section of compile()), plus names programs
/// commonly test
pub fn predefined_names() -> Vec<String> {
    let root = std::env::var("RSSL_REPO").unwrap_or("/repo".into());
    let src = std::fs::read_to_string(format!("{}/src/compile.rs", root)).unwrap_or_default();
    let region = src.split("let mut defines").nth(1).and_then(|r| r.split("defines.extend").next()).unwrap_or("");
    let mut out: Vec<String> = Vec::new();
    let mut rest = region;
    while let Some(i) = rest.find('"') {
        let r = &rest[i + 1..];
        let j = r.find('"').unwrap_or(r.len());
        let lit = &r[..j];
        if !lit.is_empty() && lit.chars().all(|c| c.is_ascii_alphanumeric() || c == '_') && !lit.chars().next().unwrap().is_ascii_digit() && !lit.starts_with("RSSL_TARGET") { out.push(lit.to_string()); }
        rest = &r[(j + 1).min(r.len())..];
    }
    for n in ["__HLSL_VERSION", "__cplusplus", "__METAL_VERSION__", "RSSL", "__RSSL__", "__spirv__", "__hlsl_dx_compiler", "__SHADER_TARGET_MAJOR"] { out.push(n.to_string()); }
    out.sort();
    out.dedup();
    out
}

pub fn gen_cases(seed: u64, n: usize, _thorough: bool) -> Vec<String> {
    let mut rng = Rng::new(seed);
    let mut out = Vec::new();
    for name in predefined_names() { for k in 0..6 { out.push(format!("X probe:{}:{} all", name, k)); } }
    let root = std::env::var("RSSL_REPO").unwrap_or("/repo".into());
    for dir in ["tests/basic", "hlsl/tests", "msl/tests"] {
        if let Ok(rd) = std::fs::read_dir(format!("{}/{}", root, dir)) {
            let mut es: Vec<_> = rd.filter_map(|e| e.ok()).map(|e| e.path()).filter(|p| p.extension().map(|x| x == "rssl").unwrap_or(false)).collect();
            es.sort();
            for p in es { for m in ["all", "nopipe"] { out.push(format!("X file:{}/{} {}", dir, p.file_name().unwrap().to_string_lossy(), m)); } }
        }
    }
    for name in crate::c14::program_names() { for m in ["all", "nopipe"] { out.push(format!("X c14:{} {}", name, m)); } }
    // the layout validation is part of the shared front end: its verdict is the same for every target
    for k in 0..12 { for m in ["all+L", "nopipe+L", "all"] { out.push(format!("X layout:{} {}", k, m)); } }
    // fixed-function pipeline state is target independent
    for k in 0..7 { out.push(format!("X gfx:{} all", k)); }
    for name in ["layout", "globals", "groups"] { out.push(format!("X c07:{} all+L", name)); }
    let entries = ["CSMAIN", "main", "kernel", "Main", "compute"];
    for _ in 0..n {
        let nd = rng.range(0, 7) as usize;
        let mut decls: Vec<crate::c06::Decl> = (0..nd).map(|_| crate::c06::gen_decl(&mut rng, false)).collect();
        for d in decls.iter_mut() { if d.kind == "n" { d.kind = "s".into(); d.arr = None; } if rng.chance(1, 10) { d.ext = false; } }
        let pick = |rng: &mut Rng| -> String { (0..nd).filter(|_| rng.chance(1, 2)).map(|i| i.to_string()).collect::<Vec<_>>().join(",") };
        let (u, h) = (pick(&mut rng), pick(&mut rng));
        let ds: Vec<String> = decls.iter().map(|d| d.word()).collect();
        let mode = if rng.chance(1, 4) { "nopipe" } else { "all" };
        // one program in eight names its resources with words one of the targets reserves (c05: `<entry>+R`)
        // one in ten declares them through typedefs (c05: `<entry>+T`)
        // one in five is a pipeline of several stages, half of them with the stage properties in reverse order
        let entry = if rng.chance(1, 8) { "CSMAIN+R".to_string() } else if rng.chance(1, 10) { "CSMAIN+T".to_string() } else if rng.chance(1, 5) { rng.pick(&["VSPS", "VSPS+O", "TASKMESH", "TASKMESH+O", "MESH", "MESH+O"]).to_string() } else { rng.pick(&entries).to_string() };
        out.push(format!("X R {} {} {} {} {} U{} H{} {} {}", rng.below(3), entry, rng.range(1, 8), rng.range(1, 4), rng.range(1, 2), u, h, ds.join(" "), mode).split_whitespace().collect::<Vec<_>>().join(" "));
    }
    out
}
