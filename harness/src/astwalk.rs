//! One traversal of rssl::ast used two ways: collecting the names that stand in type position
//! (and the nodes the printer documents as unsupported), and resolving the parser's three ambiguity
//! nodes the way the type checker does once it knows which names are types.
use rssl::ast::*;
use rssl::text::Located;
use std::collections::BTreeSet;

pub struct Walk {
    pub resolve: bool,
    pub types: BTreeSet<String>,
    pub unsupported: Option<&'static str>,
    pub ambiguous_seen: usize,
}

pub fn sid(id: &ScopedIdentifier) -> String {
    let mut s = String::new();
    if id.base == ScopedIdentifierBase::Absolute { s += "::"; }
    s += &id.identifiers.iter().map(|x| x.node.clone()).collect::<Vec<_>>().join("::");
    s
}

impl Walk {
    pub fn collector() -> Walk { Walk { resolve: false, types: BTreeSet::new(), unsupported: None, ambiguous_seen: 0 } }
    pub fn resolver(types: BTreeSet<String>) -> Walk { Walk { resolve: true, types, unsupported: None, ambiguous_seen: 0 } }

    fn is_type(&self, id: &ScopedIdentifier) -> bool { self.types.contains(&sid(id)) }

    pub fn module(&mut self, m: &mut Module) { self.roots(&mut m.root_definitions); }

    fn roots(&mut self, rs: &mut Vec<RootDefinition>) {
        for r in rs.iter_mut() {
            match r {
                RootDefinition::Struct(s) => {
                    if !self.resolve { self.types.insert(s.name.node.clone()); }
                    for b in &mut s.base_types { self.ty(b); }
                    self.tparams(&mut s.template_params);
                    for e in &mut s.members {
                        match e {
                            StructEntry::Variable(v) => { self.ty(&mut v.ty); self.defs(&mut v.defs); self.attrs(&mut v.attributes); }
                            StructEntry::Method(f) => self.func(f),
                        }
                    }
                }
                RootDefinition::Enum(e) => {
                    if !self.resolve { self.types.insert(e.name.node.clone()); }
                    for v in &mut e.values { if let Some(x) = &mut v.value { self.lexpr(x); } }
                }
                RootDefinition::Typedef(_) => self.unsupported = Some("typedef"),
                RootDefinition::ConstantBuffer(c) => {
                    self.annots(&c.location_annotations);
                    for m in &mut c.members { self.ty(&mut m.ty); self.defs(&mut m.defs); }
                    self.attrs(&mut c.attributes);
                }
                RootDefinition::GlobalVariable(g) => { self.ty(&mut g.global_type); self.defs(&mut g.defs); self.attrs(&mut g.attributes); }
                RootDefinition::Function(f) => self.func(f),
                RootDefinition::Namespace(_, inner) => self.roots(inner),
                RootDefinition::Pipeline(_) => self.unsupported = Some("pipeline"),
            }
        }
    }

    fn tparams(&mut self, t: &mut TemplateParamList) {
        for p in &mut t.0 {
            match p {
                TemplateParam::Type(tp) => {
                    if let (false, Some(n)) = (self.resolve, &tp.name) { self.types.insert(n.node.clone()); }
                    if tp.default.is_some() { self.unsupported = Some("template default"); }
                }
                TemplateParam::Value(vp) => {
                    self.ty(&mut vp.value_type);
                    if vp.default.is_some() { self.unsupported = Some("template default"); }
                }
            }
        }
    }

    fn func(&mut self, f: &mut FunctionDefinition) {
        self.ty(&mut f.returntype.return_type);
        self.annots(&f.returntype.location_annotations);
        self.tparams(&mut f.template_params);
        for p in &mut f.params {
            self.ty(&mut p.param_type);
            self.decl(&mut p.declarator);
            self.annots(&p.location_annotations);
            if let Some(e) = &mut p.default_expr { self.expr(e); }
        }
        if let Some(b) = &mut f.body { for s in b { self.stmt(s); } }
        self.attrs(&mut f.attributes);
    }

    fn annots(&mut self, a: &[LocationAnnotation]) {
        for x in a { if let LocationAnnotation::PackOffset(_) = x { self.unsupported = Some("packoffset"); } }
    }

    fn attrs(&mut self, a: &mut Vec<Attribute>) { for x in a { for e in &mut x.arguments { self.lexpr(e); } } }

    fn defs(&mut self, ds: &mut Vec<InitDeclarator>) {
        for d in ds {
            self.decl(&mut d.declarator);
            self.annots(&d.location_annotations);
            if let Some(i) = &mut d.init { self.init(i); }
        }
    }

    fn init(&mut self, i: &mut Initializer) {
        match i {
            Initializer::Expression(e) => self.lexpr(e),
            Initializer::Aggregate(v) => for x in v { self.init(x); },
            Initializer::StaticSampler(_) => self.unsupported = Some("static sampler"),
        }
    }

    fn decl(&mut self, d: &mut Declarator) {
        match d {
            Declarator::Empty => {}
            Declarator::Identifier(_, a) => self.attrs(a),
            Declarator::Pointer(p) => { self.attrs(&mut p.attributes); self.decl(&mut p.inner); }
            Declarator::Reference(p) => { self.attrs(&mut p.attributes); self.decl(&mut p.inner); }
            Declarator::Array(p) => { self.attrs(&mut p.attributes); if let Some(e) = &mut p.array_size { self.lexpr(e); } self.decl(&mut p.inner); }
        }
    }

    fn ty(&mut self, t: &mut Type) {
        if !self.resolve { self.types.insert(sid(&t.layout.0)); }
        for a in t.layout.1.iter_mut() { self.eot(a); }
    }

    fn tyid(&mut self, t: &mut TypeId) { self.ty(&mut t.base); self.decl(&mut t.abstract_declarator); }

    fn eot(&mut self, a: &mut ExpressionOrType) {
        match a {
            ExpressionOrType::Expression(e) => self.lexpr(e),
            ExpressionOrType::Type(t) => self.tyid(t),
            ExpressionOrType::Either(e, t) => {
                self.ambiguous_seen += 1;
                if self.resolve {
                    let mut new = if self.is_type(&t.base.layout.0) { ExpressionOrType::Type(t.clone()) } else { ExpressionOrType::Expression(e.clone()) };
                    self.eot(&mut new);
                    *a = new;
                }
            }
        }
    }

    fn lexpr(&mut self, e: &mut Located<Expression>) { self.expr(&mut e.node); }

    fn expr(&mut self, e: &mut Expression) {
        match e {
            Expression::Literal(_) | Expression::Identifier(_) => {}
            Expression::UnaryOperation(_, a) => self.lexpr(a),
            Expression::BinaryOperation(_, a, b) | Expression::ArraySubscript(a, b) => { self.lexpr(a); self.lexpr(b); }
            Expression::TernaryConditional(a, b, c) => { self.lexpr(a); self.lexpr(b); self.lexpr(c); }
            Expression::Member(a, _) => self.lexpr(a),
            Expression::Call(f, t, args) => { self.lexpr(f); for x in t.iter_mut() { self.eot(x); } for x in args { self.lexpr(x); } }
            Expression::Cast(t, a) => { self.tyid(t); self.lexpr(a); }
            Expression::BracedInit(t, v) => { self.tyid(t); for x in v { self.init(x); } }
            Expression::SizeOf(a) => self.eot(a),
            Expression::AmbiguousParseBranch(branches) => {
                self.ambiguous_seen += 1;
                if self.resolve {
                    // typer: the first branch (other than the last) all of whose expected names are types, else the last
                    let (last, main) = branches.split_last().unwrap();
                    let pick = main.iter().find(|b| b.expected_type_names.iter().all(|n| self.is_type(n))).unwrap_or(last);
                    let mut new = pick.expr.node.clone();
                    self.expr(&mut new);
                    *e = new;
                }
            }
        }
    }

    fn stmt(&mut self, s: &mut Statement) {
        self.attrs(&mut s.attributes);
        match &mut s.kind {
            StatementKind::Empty | StatementKind::Break | StatementKind::Continue | StatementKind::Discard => {}
            StatementKind::Expression(e) => self.expr(e),
            StatementKind::Var(v) => self.vardef(v),
            StatementKind::AmbiguousDeclarationOrExpression(v, e) => {
                self.ambiguous_seen += 1;
                if self.resolve {
                    let mut new = if self.is_type(&v.local_type.layout.0) { StatementKind::Var(v.clone()) } else { StatementKind::Expression(e.clone()) };
                    match &mut new { StatementKind::Var(v) => self.vardef(v), StatementKind::Expression(e) => self.expr(e), _ => {} }
                    s.kind = new;
                }
            }
            StatementKind::Block(b) => for x in b { self.stmt(x); },
            StatementKind::If(c, a) => { self.lexpr(c); self.stmt(a); }
            StatementKind::IfElse(c, a, b) => { self.lexpr(c); self.stmt(a); self.stmt(b); }
            StatementKind::For(i, c, n, b) => {
                match i { InitStatement::Empty => {} InitStatement::Expression(e) => self.lexpr(e), InitStatement::Declaration(v) => self.vardef(v) }
                if let Some(c) = c { self.lexpr(c); }
                if let Some(n) = n { self.lexpr(n); }
                self.stmt(b);
            }
            StatementKind::While(c, b) => { self.lexpr(c); self.stmt(b); }
            StatementKind::DoWhile(b, c) => { self.stmt(b); self.lexpr(c); }
            StatementKind::Switch(c, b) => { self.lexpr(c); self.stmt(b); }
            StatementKind::Return(e) => if let Some(e) = e { self.lexpr(e); },
            StatementKind::CaseLabel(e, b) => { self.lexpr(e); self.stmt(b); }
            StatementKind::DefaultLabel(b) => self.stmt(b),
        }
    }

    fn vardef(&mut self, v: &mut VarDef) { self.ty(&mut v.local_type); self.defs(&mut v.defs); }
}
