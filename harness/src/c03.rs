//! C03: accepted programs elaborate to well-typed IR; ill-typed programs are rejected.
//! Case:  W <program spec>        the typed IR of every function of the program, as words (see `dump`)
//!        V <seed> <size> <kind>  a generated program with one injected typing violation of the given kind: must be rejected
//! program spec: gen:<seed>:<size> | file:<repo path> | corpus:<root>:<entry> | c14:<name> | verif:<path>
//! Output (W):  IR <n functions> ;; <function dump> ;; ...   |  REJECTED <first line>  |  PANIC ..
//!   every expression node:  <tag> <type> <lv 0|1> <payload> <children>;  the type is what Expression::get_type answers
//! Output (V):  REJECTED <first line> | ACCEPTED | SKIP <why the injection did not apply> | PANIC
use crate::common::*;
use rssl::ir;

struct D<'a> { m: &'a ir::Module, out: Vec<String>, bad: Option<String> }

fn scalar(s: ir::ScalarType) -> &'static str {
    use ir::ScalarType::*;
    match s { Bool => "b", IntLiteral => "il", Int32 => "i", UInt32 => "u", FloatLiteral => "fl", Float16 => "h", Float32 => "f", Float64 => "d" }
}

impl<'a> D<'a> {
    fn w(&mut self, s: impl Into<String>) { self.out.push(s.into()); }

    fn ty(&mut self, id: ir::TypeId) {
        let m = self.m;
        match m.type_registry.get_type_layer(id) {
            ir::TypeLayer::Void => self.w("tv"),
            ir::TypeLayer::Scalar(s) => self.w(format!("ts {}", scalar(s))),
            ir::TypeLayer::Vector(inner, n) => { self.w(format!("tV {}", n)); self.ty(inner); }
            ir::TypeLayer::Matrix(inner, r, c) => { self.w(format!("tM {} {}", r, c)); self.ty(inner); }
            ir::TypeLayer::Struct(id) => self.w(format!("tS {}", id.0)),
            ir::TypeLayer::StructTemplate(id) => self.w(format!("tT {}", id.0)),
            ir::TypeLayer::Enum(id) => self.w(format!("tE {}", id.0)),
            ir::TypeLayer::Array(inner, len) => { self.w(format!("tA {}", len.map(|l| l.to_string()).unwrap_or("-".into()))); self.ty(inner); }
            ir::TypeLayer::TemplateParam(id) => self.w(format!("tP {}", id.0)),
            ir::TypeLayer::Modifier(md, inner) => {
                let bits = (md.is_const as u32) | ((md.volatile as u32) << 1) | ((md.row_major as u32) << 2) | ((md.column_major as u32) << 3) | ((md.unorm as u32) << 4) | ((md.snorm as u32) << 5);
                self.w(format!("tQ {}", bits));
                self.ty(inner);
            }
            ir::TypeLayer::Object(o) => {
                use ir::ObjectType::*;
                let (name, arg): (String, Option<ir::TypeId>) = match o {
                    Buffer(t) => ("Buffer".into(), Some(t)), RWBuffer(t) => ("RWBuffer".into(), Some(t)),
                    ByteAddressBuffer => ("ByteAddressBuffer".into(), None), RWByteAddressBuffer => ("RWByteAddressBuffer".into(), None),
                    BufferAddress => ("BufferAddress".into(), None), RWBufferAddress => ("RWBufferAddress".into(), None),
                    StructuredBuffer(t) => ("StructuredBuffer".into(), Some(t)), RWStructuredBuffer(t) => ("RWStructuredBuffer".into(), Some(t)),
                    Texture2D(t) => ("Texture2D".into(), Some(t)), Texture2DMips(t) => ("Texture2DMips".into(), Some(t)), Texture2DMipsSlice(t) => ("Texture2DMipsSlice".into(), Some(t)),
                    Texture2DArray(t) => ("Texture2DArray".into(), Some(t)), Texture2DArrayMips(t) => ("Texture2DArrayMips".into(), Some(t)), Texture2DArrayMipsSlice(t) => ("Texture2DArrayMipsSlice".into(), Some(t)),
                    RWTexture2D(t) => ("RWTexture2D".into(), Some(t)), RWTexture2DArray(t) => ("RWTexture2DArray".into(), Some(t)),
                    TextureCube(t) => ("TextureCube".into(), Some(t)), TextureCubeArray(t) => ("TextureCubeArray".into(), Some(t)),
                    Texture3D(t) => ("Texture3D".into(), Some(t)), Texture3DMips(t) => ("Texture3DMips".into(), Some(t)), Texture3DMipsSlice(t) => ("Texture3DMipsSlice".into(), Some(t)),
                    RWTexture3D(t) => ("RWTexture3D".into(), Some(t)), ConstantBuffer(t) => ("ConstantBuffer".into(), Some(t)),
                    SamplerState => ("SamplerState".into(), None), SamplerComparisonState => ("SamplerComparisonState".into(), None),
                    TriangleStream(t) => ("TriangleStream".into(), Some(t)), RaytracingAccelerationStructure => ("RaytracingAccelerationStructure".into(), None),
                    RayQuery(n) => (format!("RayQuery{}", n), None), RayDesc => ("RayDesc".into(), None),
                };
                match arg { Some(t) => { self.w(format!("tO1 {}", name)); self.ty(t); } None => self.w(format!("tO0 {}", name)) }
            }
        }
    }

    /// the type Expression::get_type gives the node (the IR's own typing rules; its assertions are caught)
    fn ann(&mut self, e: &ir::Expression) {
        let m = self.m;
        match catch(|| e.get_type(m)) {
            Ok(Ok(ety)) => { self.ty(ety.0); self.w(if ety.1 == ir::ValueType::Lvalue { "1" } else { "0" }); }
            Ok(Err(_)) => { if self.bad.is_none() { self.bad = Some(format!("get_type fails on {:?}", e).chars().take(200).collect()); } self.w("tv"); self.w("0"); }
            Err(msg) => { if self.bad.is_none() { self.bad = Some(format!("get_type panics ({}) on {:?}", msg.lines().next().unwrap_or(""), e).chars().take(240).collect()); } self.w("tv"); self.w("0"); }
        }
    }

    fn expr(&mut self, e: &ir::Expression) {
        use ir::Expression::*;
        let m = self.m;
        match e {
            Literal(_) => { self.w("Lit"); self.ann(e); }
            Variable(_) | MemberVariable(_, _) | Global(_) | ConstantVariable(_) => {
                // existence of the referenced definition
                let ok = match e {
                    Variable(_) => true,
                    MemberVariable(sid, i) => (sid.0 as usize) < m.struct_registry.len() && (*i as usize) < m.struct_registry[sid.0 as usize].members.len(),
                    Global(g) => (g.0 as usize) < m.global_registry.len(),
                    ConstantVariable(c) => (c.0.0 as usize) < m.cbuffer_registry.len() && (c.1 as usize) < m.cbuffer_registry[c.0.0 as usize].members.len(),
                    _ => true,
                };
                if !ok { if self.bad.is_none() { self.bad = Some(format!("dangling reference {:?}", e)); } self.w("Var"); self.w("tv"); self.w("1"); return; }
                self.w("Var"); self.ann(e);
            }
            EnumValue(_) => { self.w("EVal"); self.ann(e); }
            TernaryConditional(c, a, b) => { self.w("Tern"); self.ann(e); self.expr(c); self.expr(a); self.expr(b); }
            Sequence(l) => { self.w("Seq"); self.ann(e); self.w(l.len().to_string()); for x in l { self.expr(x); } }
            Swizzle(v, sw) => {
                self.w("Swz"); self.ann(e); self.w(sw.len().to_string());
                for s in sw { self.w(match s { ir::SwizzleSlot::X => "0", ir::SwizzleSlot::Y => "1", ir::SwizzleSlot::Z => "2", ir::SwizzleSlot::W => "3" }); }
                self.expr(v);
            }
            MatrixSwizzle(v, sw) => { self.w("MSwz"); self.ann(e); self.w(sw.len().to_string()); for s in sw { self.w((s.0 as u32 * 4 + s.1 as u32).to_string()); } self.expr(v); }
            ArraySubscript(a, i) => { self.w("Sub"); self.ann(e); self.expr(a); self.expr(i); }
            StructMember(x, sid, idx) => {
                self.w("SMem"); self.ann(e); self.w(sid.0.to_string());
                let def = m.struct_registry.get(sid.0 as usize);
                match def.and_then(|d| d.members.get(*idx as usize)) { Some(mem) => { let t = mem.type_id; self.ty(t); } None => { if self.bad.is_none() { self.bad = Some(format!("dangling struct member {:?}", e).chars().take(200).collect()); } self.w("tv"); } }
                self.expr(x);
            }
            ObjectMember(x, name) => { self.w("Opq"); self.ann(e); self.w(format!("ObjectMember.{}", name)); self.w("1"); self.expr(x); }
            Call(fid, ct, args) => {
                let sig = m.function_registry.get_function_signature(*fid);
                self.w("Call"); self.ann(e);
                self.w(match ct { ir::CallType::FreeFunction => "free", ir::CallType::MethodExternal => "method", ir::CallType::MethodInternal => "internal" });
                self.w(if m.function_registry.get_intrinsic_data(*fid).is_some() { "intrinsic" } else { "user" });
                self.w(sig.param_types.len().to_string());
                self.w(sig.non_default_params.min(sig.param_types.len()).to_string());
                for p in &sig.param_types {
                    self.w(match p.input_modifier { ir::InputModifier::In => "0", ir::InputModifier::Out => "1", ir::InputModifier::InOut => "2" });
                    self.ty(p.type_id);
                }
                self.ty(sig.return_type.return_type);
                self.w(args.len().to_string());
                for a in args { self.expr(a); }
            }
            Constructor(_, slots) => {
                self.w("Ctor"); self.ann(e); self.w(slots.len().to_string());
                for s in slots { self.w(s.arity.to_string()); }
                for s in slots { self.expr(&s.expr); }
            }
            Cast(_, x) => { self.w("Cast"); self.ann(e); self.expr(x); }
            SizeOf(_) => { self.w("SizeOf"); self.ann(e); }
            IntrinsicOp(op, args) => {
                let name = format!("{:?}", op);
                if name.starts_with("Make") || name.starts_with("MeshOutput") {
                    self.w("Opq"); self.ann(e); self.w(name); self.w(args.len().to_string());
                } else {
                    self.w("Op"); self.ann(e); self.w(name); self.w(args.len().to_string());
                }
                for a in args { self.expr(a); }
            }
        }
    }

    fn init(&mut self, i: &Option<ir::Initializer>) {
        match i {
            None => self.w("IN"),
            Some(ir::Initializer::Expression(e)) => { self.w("IE"); self.expr(e); }
            Some(ir::Initializer::Aggregate(l)) => { self.w("IA"); self.w(l.len().to_string()); for x in l { self.init(&Some(x.clone())); } }
        }
    }

    fn vardef(&mut self, v: &ir::VarDef) {
        let t = self.m.variable_registry.get_local_variable(v.id).type_id;
        self.ty(t);
        self.init(&v.init);
    }

    fn block(&mut self, b: &ir::ScopeBlock) {
        self.w(b.0.len().to_string());
        for s in &b.0 { self.stmt(s); }
    }

    fn stmt(&mut self, s: &ir::Statement) {
        use ir::StatementKind::*;
        match &s.kind {
            Expression(e) => { self.w("SExpr"); self.expr(e); }
            Var(v) => { self.w("SVar"); self.vardef(v); }
            Block(b) => { self.w("SBlock"); self.block(b); }
            If(c, b) => { self.w("SIf"); self.expr(c); self.block(b); }
            IfElse(c, a, b) => { self.w("SIfElse"); self.expr(c); self.block(a); self.block(b); }
            For(init, c, inc, b) => {
                self.w("SFor");
                match init {
                    ir::ForInit::Empty => self.w("FE"),
                    ir::ForInit::Expression(e) => { self.w("FX"); self.expr(e); }
                    ir::ForInit::Definitions(ds) => { self.w("FD"); self.w(ds.len().to_string()); for d in ds { self.vardef(d); } }
                }
                match c { Some(e) => { self.w("Y"); self.expr(e); } None => self.w("N") }
                match inc { Some(e) => { self.w("Y"); self.expr(e); } None => self.w("N") }
                self.block(b);
            }
            While(c, b) => { self.w("SWhile"); self.expr(c); self.block(b); }
            DoWhile(b, c) => { self.w("SDo"); self.block(b); self.expr(c); }
            Switch(c, b) => { self.w("SSwitch"); self.expr(c); self.block(b); }
            Break => self.w("SBreak"), Continue => self.w("SContinue"), Discard => self.w("SDiscard"),
            Return(None) => self.w("SRet0"),
            Return(Some(e)) => { self.w("SRet"); self.expr(e); }
            CaseLabel(c) => {
                self.w("SCase");
                match c {
                    ir::Constant::Enum(id, _) => self.w(format!("tE {}", id.0)),
                    other => { let m = self.m; match catch(|| other.get_type(m).0) { Ok(t) => self.ty(t), Err(_) => self.w("tv") } }
                }
            }
            DefaultLabel => self.w("SDefault"),
        }
    }
}

/// every function that has a body (template definitions have none; their instantiations do)
pub fn dump(m: &ir::Module) -> (Vec<String>, Option<String>) {
    let mut funcs = Vec::new();
    let mut bad = None;
    for fid in m.function_registry.iter() {
        let imp = match m.function_registry.get_function_implementation(fid) { Some(i) => i, None => continue };
        let sig = m.function_registry.get_function_signature(fid);
        let mut d = D { m, out: Vec::new(), bad: None };
        d.w("F"); d.w(fid.0.to_string());
        d.ty(sig.return_type.return_type);
        d.w(imp.params.len().to_string());
        for p in &imp.params {
            d.w(match p.param_type.input_modifier { ir::InputModifier::In => "0", ir::InputModifier::Out => "1", ir::InputModifier::InOut => "2" });
            d.ty(p.param_type.type_id);
            match &p.default_expr { Some(e) => { d.w("Y"); d.expr(e); } None => d.w("N") }
        }
        d.block(&imp.scope_block);
        if bad.is_none() { bad = d.bad.take(); }
        funcs.push(d.out.join(" "));
    }
    // global initialisers as pseudo functions
    for (i, g) in m.global_registry.iter().enumerate() {
        if let Some(init) = &g.init {
            let mut d = D { m, out: Vec::new(), bad: None };
            d.w("G"); d.w(i.to_string());
            d.ty(g.type_id);
            d.init(&Some(init.clone()));
            if bad.is_none() { bad = d.bad.take(); }
            funcs.push(d.out.join(" "));
        }
    }
    (funcs, bad)
}

fn load(spec: &str) -> Option<(Vec<(String, String)>, Option<String>, bool)> {
    // (files, disk root, corpus defines)
    let repo = std::env::var("RSSL_REPO").unwrap_or("/repo".into());
    if let Some(s) = spec.strip_prefix("gen:") {
        let mut it = s.split(':');
        let seed: u64 = it.next()?.parse().ok()?;
        let size: u32 = it.next()?.parse().ok()?;
        return Some((vec![("main.rssl".into(), crate::pgen::generate(seed, size))], None, false));
    }
    if let Some(s) = spec.strip_prefix("skel:") {
        return Some((vec![("main.rssl".into(), crate::c08::skeleton(s.parse().ok()?))], None, false));
    }
    if let Some(rel) = spec.strip_prefix("file:") { return Some((vec![("main.rssl".into(), std::fs::read_to_string(format!("{}/{}", repo, rel)).ok()?)], None, false)); }
    if let Some(rel) = spec.strip_prefix("verif:") { return Some((vec![("main.rssl".into(), std::fs::read_to_string(format!("{}/{}", std::env::var("RSSL_VERIF").unwrap_or("/verif".into()), rel)).ok()?)], None, false)); }
    if let Some(name) = spec.strip_prefix("c14:") { return Some((crate::c14::program_files(name)?, None, false)); }
    if let Some(s) = spec.strip_prefix("corpus:") {
        let mut it = s.splitn(2, ':');
        let root = it.next()?; let entry = it.next()?;
        let text = std::fs::read_to_string(format!("{}/{}/{}", repo, root, entry)).ok()?;
        return Some((vec![(entry.to_string(), text)], Some(format!("{}/{}", repo, root)), true));
    }
    None
}

struct Over { files: Vec<(String, String)>, disk: Option<DiskFiles> }
impl rssl::text::IncludeHandler for Over {
    fn load(&mut self, file_name: &str, parent_name: &str) -> Result<rssl::text::FileData, rssl::text::IncludeError> {
        for (n, t) in &self.files { if n == file_name { return Ok(rssl::text::FileData { real_name: n.clone(), contents: t.clone() }); } }
        match &mut self.disk { Some(d) => d.load(file_name, parent_name), None => Err(rssl::text::IncludeError::FileNotFound) }
    }
}

/// preprocess + parse + type check
pub fn type_check(files: &[(String, String)], root: Option<String>, defines: bool) -> Result<Result<ir::Module, String>, String> {
    catch(|| {
        let mut sm = rssl::text::SourceManager::new();
        let mut inc = Over { files: files.to_vec(), disk: root.map(|r| DiskFiles { root: r }) };
        let mut defs: Vec<(&str, &str)> = vec![("__HLSL_VERSION", "2021"), ("RSSL_TARGET_HLSL", "1"), ("RSSL_TARGET_MSL", "0")];
        if defines { defs.extend_from_slice(CORPUS_DEFINES); }
        use rssl::text::CompileErrorExt;
        let tokens = rssl::preprocess::preprocess(&files[0].0, &mut sm, &mut inc, &defs).map_err(|e| format!("{}", e.display(&sm)))?;
        let tokens = rssl::preprocess::prepare_tokens(&tokens);
        let tree = rssl::parser::parse(&tokens).map_err(|e| format!("{}", e.display(&sm)))?;
        rssl::typer::type_check(&tree).map_err(|e| format!("{}", e.display(&sm)))
    })
}

pub fn run_line(line: &str) -> String {
    let w: Vec<&str> = line.split_whitespace().collect();
    match w.first().copied() {
        Some("W") if w.len() == 2 => {
            let (files, root, defs) = match load(w[1]) { Some(x) => x, None => return "BAD-CASE".into() };
            match type_check(&files, root, defs) {
                Err(p) => {
                    // an abort inside the type rules of the IR (get_type / get_return_type) or at the type checker's own
                    // comparison of the type it computed with the type of the node it built is a typing fault of the
                    // elaborated IR, not merely an abort
                    let site = take_panic_site().unwrap_or_default();
                    let first = p.lines().next().unwrap_or("").to_string();
                    if site.starts_with("ir/src/intrinsics.rs") || site.starts_with("ir/src/ir_expressions.rs") || first.contains("] != [") {
                        format!("TYPEFAULT {} {}", site, first)
                    } else { format!("PANIC {}", first) }
                }
                Ok(Err(e)) => format!("REJECTED {}", e.lines().next().unwrap_or("")),
                Ok(Ok(m)) => {
                    let (funcs, bad) = dump(&m);
                    if let Some(b) = bad { return format!("IRFAULT {}", b); }
                    format!("IR {} ;; {}", funcs.len(), funcs.join(" ;; "))
                }
            }
        }
        Some("V") if w.len() == 4 => {
            let seed: u64 = match w[1].parse() { Ok(x) => x, Err(_) => return "BAD-CASE".into() };
            let size: u32 = match w[2].parse() { Ok(x) => x, Err(_) => return "BAD-CASE".into() };
            let base = crate::pgen::generate(seed, size);
            let files = vec![("main.rssl".to_string(), base.clone())];
            match type_check(&files, None, false) { Ok(Ok(_)) => {} _ => return "SKIP base program not accepted".into() }
            let injected = match inject(&base, w[3], seed) { Some(s) => s, None => return "SKIP injection point not found".into() };
            match type_check(&[("main.rssl".to_string(), injected.clone())], None, false) {
                Err(p) => format!("PANIC {}", p.lines().next().unwrap_or("")),
                Ok(Err(e)) => format!("REJECTED {}", e.lines().next().unwrap_or("")),
                Ok(Ok(_)) => format!("ACCEPTED {}", injected.lines().rev().take(12).collect::<Vec<_>>().into_iter().rev().collect::<Vec<_>>().join("\n")),
            }
        }
        _ => "BAD-CASE".into(),
    }
}

pub const VIOLATIONS: &[&str] = &["const-write", "const-compound", "const-incr", "rvalue-write", "rvalue-incr", "call-write", "literal-write", "out-rvalue", "out-const", "inout-literal", "arity-more", "arity-less",
    "arg-struct", "arg-void", "ret-struct", "ret-void-value", "ret-missing-value", "init-struct", "cond-struct", "binop-struct", "member-missing", "undeclared", "const-member-write", "const-param-write", "const-array-write",
    "swizzle-repeat-write", "cbuffer-write", "static-const-global-write", "out-other-scalar", "out-other-vector", "inout-other-vector", "out-wider-vector", "out-member-of-const", "out-swizzle-repeat",
    "out-enum-for-int", "const-nested-member-write", "const-nested-array-write", "const-nested-incr", "out-nested-member-of-const", "cbuffer-nested-write", "const-array-of-struct-write", "mswz-row-out-of-range", "mswz-col-out-of-range", "mswz-pair-out-of-range", "mswz-out-arg-out-of-range", "swz-out-of-range", "index-struct", "call-non-function", "ternary-mismatch", "enum-from-int", "void-var", "unknown-type",
    "method-out-const", "method-out-cbuffer", "method-inout-member-of-const", "method-out-rvalue", "method-out-other-scalar", "method-arity-more", "method-arity-less", "method-out-swizzle-of-const", "intrinsic-method-out-const", "intrinsic-method-out-cbuffer", "intrinsic-method-out-rvalue"];

fn zm(u: u64) -> String {
    format!("struct ZM{u} {{ int base; void rd(out int o) {{ o = base; }} void xch(int a, inout int io) {{ io += a + base; }} }};\n")
}

/// Append to the program a function that is well-typed except for one violation.
fn inject(base: &str, kind: &str, seed: u64) -> Option<String> {
    let u = seed % 1000;
    let pre = format!("void zov{u}(out float3 o) {{ o = float3(1, 2, 3); }}\nvoid ziov{u}(inout int2 o) {{ o += int2(1, 1); }}\nvoid zof{u}(out float o) {{ o = 1.0; }}\nvoid zoi{u}(out int o) {{ o = 1; }}\nstruct ZS{u} {{ int a; float2 b; }};\nenum ZE{u} {{ ZA{u}, ZB{u} }};\nvoid zout{u}(out int o, inout float io, int i) {{ o = i; io += 1.0; }}\nint zone{u}(int a) {{ return a; }}\ncbuffer ZCB{u} {{ int zc{u}; }}\nstatic const int zk{u} = 4;\n");
    let body = match kind {
        "const-write" => "const int c = 1; c = 2;".to_string(),
        "const-compound" => "const float c = 1.0; c *= 2.0;".to_string(),
        "const-incr" => "const int c = 1; c++;".to_string(),
        "rvalue-write" => "int a = 1; int b = 2; (a + b) = 3;".to_string(),
        "rvalue-incr" => "int a = 1; (a * 2)++;".to_string(),
        "call-write" => format!("zone{u}(1) = 2;"),
        "literal-write" => "5 = 2;".to_string(),
        "out-rvalue" => format!("int a = 1; float f = 1.0; zout{u}(a + 1, f, 2);"),
        "out-const" => format!("const int a = 1; float f = 1.0; zout{u}(a, f, 2);"),
        "inout-literal" => format!("int a = 1; zout{u}(a, 1.0, 2);"),
        "arity-more" => format!("int a = zone{u}(1, 2);"),
        "arity-less" => format!("int a = zone{u}();"),
        "arg-struct" => format!("ZS{u} s; s.a = 1; int a = zone{u}(s);"),
        "arg-void" => format!("float f = 1.0; int a = 0; int b = zone{u}(zout{u}(a, f, 1));"),
        "ret-struct" => format!("ZS{u} s; s.a = 1; return s;"),
        "ret-void-value" => "return;".to_string(),
        "ret-missing-value" => return Some(format!("{}\n{}void zbad{u}() {{ return 1; }}\n", base, pre)),
        "init-struct" => format!("ZS{u} s; s.a = 1; int a = s;"),
        "cond-struct" => format!("ZS{u} s; s.a = 1; if (s) {{ }}"),
        "binop-struct" => format!("ZS{u} s; s.a = 1; int a = s + 1;"),
        "member-missing" => format!("ZS{u} s; int a = s.nope;"),
        "undeclared" => format!("int a = zundeclared{u};"),
        "const-member-write" => format!("const ZS{u} s = (ZS{u})0; s.a = 1;"),
        // two or more steps below a const object: the member's own type carries no const
        "const-nested-member-write" => return Some(format!("{}\n{}struct ZI{u} {{ int value; int table[2]; }};\nstruct ZO{u} {{ ZI{u} inner; }};\nvoid zbad{u}() {{ const ZO{u} o = (ZO{u})0; o.inner.value = 1; }}\n", base, pre)),
        "const-nested-array-write" => return Some(format!("{}\n{}struct ZI{u} {{ int value; int table[2]; }};\nstruct ZO{u} {{ ZI{u} inner; }};\nvoid zbad{u}() {{ const ZO{u} o = (ZO{u})0; o.inner.table[1] = 1; }}\n", base, pre)),
        "const-nested-incr" => return Some(format!("{}\n{}struct ZI{u} {{ int value; int table[2]; }};\nstruct ZO{u} {{ ZI{u} inner; }};\nvoid zbad{u}() {{ const ZO{u} o = (ZO{u})0; ++o.inner.value; }}\n", base, pre)),
        "out-nested-member-of-const" => return Some(format!("{}\n{}struct ZI{u} {{ int value; int table[2]; }};\nstruct ZO{u} {{ ZI{u} inner; }};\nvoid zbad{u}() {{ const ZO{u} o = (ZO{u})0; zoi{u}(o.inner.value); }}\n", base, pre)),
        "cbuffer-nested-write" => return Some(format!("{}\n{}struct ZI{u} {{ int value; int table[2]; }};\nstruct ZO{u} {{ ZI{u} inner; }};\ncbuffer ZCN{u} {{ ZO{u} zcn{u}; }}\nvoid zbad{u}() {{ zcn{u}.inner.value = 2; }}\n", base, pre)),
        // components that the (non-square) matrix or the vector does not have
        "mswz-row-out-of-range" => "float2x4 m = (float2x4)0; float a = m._m30;".to_string(),
        "mswz-col-out-of-range" => "float4x2 m = (float4x2)0; float a = m._m03;".to_string(),
        "mswz-pair-out-of-range" => "float2x4 m = (float2x4)0; float2 a = m._31_42;".to_string(),
        "mswz-out-arg-out-of-range" => format!("float2x4 m = (float2x4)0; zof{u}(m._m21);"),
        "swz-out-of-range" => "float2 v = float2(1, 2); float a = v.z;".to_string(),
        "const-array-of-struct-write" => format!("const ZS{u} arr[2] = {{ (ZS{u})0, (ZS{u})0 }}; arr[1].b.x = 3.0;"),
        "const-param-write" => return Some(format!("{}\n{}int zbad{u}(const int p) {{ p = 2; return p; }}\n", base, pre)),
        "const-array-write" => "const int arr[2] = { 1, 2 }; arr[0] = 3;".to_string(),
        "swizzle-repeat-write" => "float2 v = float2(1, 2); v.xx = float2(3, 4);".to_string(),
        "cbuffer-write" => format!("zc{u} = 3;"),
        "static-const-global-write" => format!("zk{u} = 5;"),
        "out-other-scalar" => format!("int a = 1; zof{u}(a);"),
        "out-other-vector" => format!("int3 v = int3(0, 0, 0); zov{u}(v);"),
        "inout-other-vector" => format!("uint2 v = uint2(0, 0); ziov{u}(v);"),
        "out-wider-vector" => format!("float4 v = float4(0, 0, 0, 0); zov{u}(v);"),
        "out-member-of-const" => format!("const ZS{u} s = (ZS{u})0; zoi{u}(s.a);"),
        "out-swizzle-repeat" => format!("float2 v = float2(0, 0); zov{u}(v.xxy);"),
        "out-enum-for-int" => format!("ZE{u} e = ZA{u}; zoi{u}(e);"),
        // the same rules at calls of struct methods and of methods of intrinsic objects (the object is an argument of its own)
        "method-out-const" => return Some(format!("{}\n{}{}int zbad{u}() {{ const int a = 1; ZM{u} m; m.base = 0; m.rd(a); return 0; }}\n", base, pre, zm(u))),
        "method-out-cbuffer" => return Some(format!("{}\n{}{}int zbad{u}() {{ ZM{u} m; m.base = 0; m.rd(zc{u}); return 0; }}\n", base, pre, zm(u))),
        "method-inout-member-of-const" => return Some(format!("{}\n{}{}int zbad{u}() {{ const ZS{u} s = (ZS{u})0; ZM{u} m; m.base = 0; m.xch(5, s.a); return 0; }}\n", base, pre, zm(u))),
        "method-out-rvalue" => return Some(format!("{}\n{}{}int zbad{u}() {{ int a = 1; ZM{u} m; m.base = 0; m.rd(a + 1); return 0; }}\n", base, pre, zm(u))),
        "method-out-other-scalar" => return Some(format!("{}\n{}{}int zbad{u}() {{ float f = 1.0; ZM{u} m; m.base = 0; m.rd(f); return 0; }}\n", base, pre, zm(u))),
        "method-arity-more" => return Some(format!("{}\n{}{}int zbad{u}() {{ int a = 1; ZM{u} m; m.base = 0; m.rd(a, a); return 0; }}\n", base, pre, zm(u))),
        "method-arity-less" => return Some(format!("{}\n{}{}int zbad{u}() {{ ZM{u} m; m.base = 0; m.xch(5); return 0; }}\n", base, pre, zm(u))),
        "method-out-swizzle-of-const" => return Some(format!("{}\n{}{}int zbad{u}() {{ const int2 c = int2(1, 2); ZM{u} m; m.base = 0; m.rd(c.y); return 0; }}\n", base, pre, zm(u))),
        "intrinsic-method-out-const" => return Some(format!("{}\n{}RWByteAddressBuffer zrb{u};\nint zbad{u}() {{ const uint o = 0; zrb{u}.InterlockedAdd(0, 1, o); return 0; }}\n", base, pre)),
        "intrinsic-method-out-cbuffer" => return Some(format!("{}\n{}Texture2D<float4> zt{u};\ncbuffer ZCD{u} {{ uint zw{u}; }}\nint zbad{u}() {{ uint h; zt{u}.GetDimensions(zw{u}, h); return 0; }}\n", base, pre)),
        "intrinsic-method-out-rvalue" => return Some(format!("{}\n{}Texture2D<float4> zt{u};\nint zbad{u}() {{ uint w = 0; uint h; zt{u}.GetDimensions(w + 1, h); return 0; }}\n", base, pre)),
        "index-struct" => format!("ZS{u} s; s.a = 1; int arr[2] = {{ 1, 2 }}; int a = arr[s];"),
        "call-non-function" => "int a = 1; int b = a(2);".to_string(),
        "ternary-mismatch" => format!("ZS{u} s; s.a = 1; int a = true ? s : 1;"),
        "enum-from-int" => format!("ZE{u} e = 1;"),
        "void-var" => "void v;".to_string(),
        "unknown-type" => format!("ZNope{u} v;"),
        _ => return None,
    };
    Some(format!("{}\n{}int zbad{u}() {{ {} return 0; }}\n", base, pre, body))
}

pub fn gen_cases(seed: u64, n: usize, _thorough: bool) -> Vec<String> {
    let mut rng = Rng::new(seed);
    let mut out = Vec::new();
    for (root, entry) in corpus_entries() { out.push(format!("W corpus:{}:{}", root, entry)); }
    let repo = std::env::var("RSSL_REPO").unwrap_or("/repo".into());
    for dir in ["tests/basic", "hlsl/tests", "msl/tests"] {
        if let Ok(rd) = std::fs::read_dir(format!("{}/{}", repo, dir)) {
            let mut es: Vec<_> = rd.filter_map(|e| e.ok()).map(|e| e.path()).filter(|p| p.extension().map(|x| x == "rssl").unwrap_or(false)).collect();
            es.sort();
            for p in es { out.push(format!("W file:{}/{}", dir, p.file_name().unwrap().to_string_lossy())); }
        }
    }
    for name in crate::c14::program_names() { out.push(format!("W c14:{}", name)); }
    for _ in 0..n { out.push(format!("W gen:{}:{}", rng.below(1 << 40), rng.range(3, 22))); }
    for _ in 0..(4 * n) { out.push(format!("W skel:{}", rng.below(1 << 40))); }
    for k in VIOLATIONS { for _ in 0..(n / 20).max(2) { out.push(format!("V {} {} {}", rng.below(1 << 40), rng.range(2, 10), k)); } }
    out
}
