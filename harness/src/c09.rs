//! C09: printing and parsing are inverse.
//!   E <tree>          expression tree (prefix words) -> real formatter text, then real parser on that text
//!   F <repo file>     a source file of the repository: parse, print, parse again (trees the parser produces)
//!   X <repo file> <target>   the tree an HLSL exporter built for that file vs the parse of the text it printed
//! tree := i n | u n | b 0|1 | v name | U Op e | B Op e e | T e e e | S e e | M e name | C k e args*k | K Type e
//! Output for E:  TEXT <text> ;; TREE <tree or PARSE-ERROR>     for F/X:  SAME | DIFF <detail> | SKIP <reason>
use crate::common::*;
use rssl::ast;
use rssl::text::Located;

fn l<T>(x: T) -> Located<T> {
    Located::none(x)
}
fn bx(e: ast::Expression) -> Box<Located<ast::Expression>> {
    Box::new(l(e))
}

const UNOPS: &[&str] = &["PrefixIncrement", "PrefixDecrement", "PostfixIncrement", "PostfixDecrement", "Plus", "Minus", "LogicalNot", "BitwiseNot", "Dereference", "AddressOf"];
const BINOPS: &[&str] = &["Add", "Subtract", "Multiply", "Divide", "Modulus", "LeftShift", "RightShift", "BitwiseAnd", "BitwiseOr", "BitwiseXor", "BooleanAnd", "BooleanOr", "LessThan", "LessEqual", "GreaterThan", "GreaterEqual", "Equality", "Inequality", "Assignment", "SumAssignment", "DifferenceAssignment", "ProductAssignment", "QuotientAssignment", "RemainderAssignment", "LeftShiftAssignment", "RightShiftAssignment", "BitwiseAndAssignment", "BitwiseOrAssignment", "BitwiseXorAssignment", "Sequence"];

fn unop(s: &str) -> Option<ast::UnaryOp> {
    use ast::UnaryOp::*;
    Some(match s {
        "PrefixIncrement" => PrefixIncrement, "PrefixDecrement" => PrefixDecrement, "PostfixIncrement" => PostfixIncrement,
        "PostfixDecrement" => PostfixDecrement, "Plus" => Plus, "Minus" => Minus, "LogicalNot" => LogicalNot,
        "BitwiseNot" => BitwiseNot, "Dereference" => Dereference, "AddressOf" => AddressOf,
        _ => return None,
    })
}
fn binop(s: &str) -> Option<ast::BinOp> {
    use ast::BinOp::*;
    Some(match s {
        "Add" => Add, "Subtract" => Subtract, "Multiply" => Multiply, "Divide" => Divide, "Modulus" => Modulus,
        "LeftShift" => LeftShift, "RightShift" => RightShift, "BitwiseAnd" => BitwiseAnd, "BitwiseOr" => BitwiseOr,
        "BitwiseXor" => BitwiseXor, "BooleanAnd" => BooleanAnd, "BooleanOr" => BooleanOr, "LessThan" => LessThan,
        "LessEqual" => LessEqual, "GreaterThan" => GreaterThan, "GreaterEqual" => GreaterEqual, "Equality" => Equality,
        "Inequality" => Inequality, "Assignment" => Assignment, "SumAssignment" => SumAssignment,
        "DifferenceAssignment" => DifferenceAssignment, "ProductAssignment" => ProductAssignment,
        "QuotientAssignment" => QuotientAssignment, "RemainderAssignment" => RemainderAssignment,
        "LeftShiftAssignment" => LeftShiftAssignment, "RightShiftAssignment" => RightShiftAssignment,
        "BitwiseAndAssignment" => BitwiseAndAssignment, "BitwiseOrAssignment" => BitwiseOrAssignment,
        "BitwiseXorAssignment" => BitwiseXorAssignment, "Sequence" => Sequence,
        _ => return None,
    })
}

fn parse_tree(w: &[&str], pos: &mut usize) -> Option<ast::Expression> {
    let k = *w.get(*pos)?;
    *pos += 1;
    Some(match k {
        "l" => {
            let kind = *w.get(*pos)?; let val = *w.get(*pos + 1)?; *pos += 3;   // the third word is the spelling, for the model
            let bits = u64::from_str_radix(val, 16).ok()?;
            ast::Expression::Literal(lit_of(kind, bits)?)
        }
        "v" => { let n = w.get(*pos)?; *pos += 1; ast::Expression::Identifier(ast::ScopedIdentifier::trivial(n)) }
        "U" => { let op = unop(w.get(*pos)?)?; *pos += 1; let e = parse_tree(w, pos)?; ast::Expression::UnaryOperation(op, bx(e)) }
        "B" => { let op = binop(w.get(*pos)?)?; *pos += 1; let a = parse_tree(w, pos)?; let b = parse_tree(w, pos)?; ast::Expression::BinaryOperation(op, bx(a), bx(b)) }
        "T" => { let a = parse_tree(w, pos)?; let b = parse_tree(w, pos)?; let c = parse_tree(w, pos)?; ast::Expression::TernaryConditional(bx(a), bx(b), bx(c)) }
        "S" => { let a = parse_tree(w, pos)?; let b = parse_tree(w, pos)?; ast::Expression::ArraySubscript(bx(a), bx(b)) }
        "M" => { let a = parse_tree(w, pos)?; let n = w.get(*pos)?; *pos += 1; ast::Expression::Member(bx(a), ast::ScopedIdentifier::trivial(n)) }
        "C" => {
            let k: usize = w.get(*pos)?.parse().ok()?; *pos += 1;
            let f = parse_tree(w, pos)?;
            let mut args = Vec::new();
            for _ in 0..k { args.push(l(parse_tree(w, pos)?)); }
            ast::Expression::Call(bx(f), Vec::new(), args)
        }
        "K" => { let t = w.get(*pos)?; *pos += 1; let e = parse_tree(w, pos)?; ast::Expression::Cast(Box::new(ast::TypeId::from(*t)), bx(e)) }
        _ => return None,
    })
}

fn scoped_name(id: &ast::ScopedIdentifier) -> Option<String> {
    if id.identifiers.len() == 1 && id.base == ast::ScopedIdentifierBase::Relative { Some(id.identifiers[0].node.clone()) } else { None }
}

/// serialise an expression (after resolving ambiguous branches with the type names of `gamma`)
fn show_tree(e: &ast::Expression, gamma: &[String], out: &mut Vec<String>) -> Option<()> {
    match e {
        ast::Expression::Literal(lit) => out.push(lit_words(lit)?),
        ast::Expression::Identifier(id) => out.push(format!("v {}", scoped_name(id)?)),
        ast::Expression::UnaryOperation(op, a) => { out.push(format!("U {:?}", op)); show_tree(a, gamma, out)?; }
        ast::Expression::BinaryOperation(op, a, b) => { out.push(format!("B {:?}", op)); show_tree(a, gamma, out)?; show_tree(b, gamma, out)?; }
        ast::Expression::TernaryConditional(a, b, c) => { out.push("T".into()); show_tree(a, gamma, out)?; show_tree(b, gamma, out)?; show_tree(c, gamma, out)?; }
        ast::Expression::ArraySubscript(a, b) => { out.push("S".into()); show_tree(a, gamma, out)?; show_tree(b, gamma, out)?; }
        ast::Expression::Member(a, n) => { out.push("M".into()); show_tree(a, gamma, out)?; out.push(scoped_name(n)?); }
        ast::Expression::Call(f, targs, args) => {
            if !targs.is_empty() { return None; }
            out.push(format!("C {}", args.len()));
            show_tree(f, gamma, out)?;
            for a in args { show_tree(a, gamma, out)?; }
        }
        ast::Expression::Cast(t, a) => {
            if !matches!(t.abstract_declarator, ast::Declarator::Empty) || !t.base.modifiers.modifiers.is_empty() || !t.base.layout.1.is_empty() { return None; }
            out.push(format!("K {}", scoped_name(&t.base.layout.0)?));
            show_tree(a, gamma, out)?;
        }
        ast::Expression::AmbiguousParseBranch(branches) => {
            // the typer keeps the first branch all of whose assumed type names really are types
            let (last, main) = branches.split_last()?;
            let pick = main.iter().find(|b| b.expected_type_names.iter().all(|n| scoped_name(n).map(|s| gamma.contains(&s)).unwrap_or(false))).unwrap_or(last);
            show_tree(&pick.expr, gamma, out)?;
        }
        _ => return None,
    }
    Some(())
}

/// the text the real printer gives a literal
fn spell(lit: &ast::Literal) -> Option<String> {
    let text = catch(|| rssl_formatter::format(&module_of(ast::Expression::Literal(lit.clone())), rssl_formatter::Target::Hlsl)).ok()?.ok()?;
    Some(text.lines().nth(1)?.trim().trim_end_matches(';').to_string())
}

fn lit_words(lit: &ast::Literal) -> Option<String> {
    let (k, bits) = match lit {
        ast::Literal::Bool(v) => ("Bool", *v as u64),
        ast::Literal::IntUntyped(v) => ("IntUntyped", *v),
        ast::Literal::IntUnsigned32(v) => ("IntUnsigned32", *v),
        ast::Literal::IntUnsigned64(v) => ("IntUnsigned64", *v),
        ast::Literal::IntSigned64(v) => ("IntSigned64", *v as u64),
        ast::Literal::FloatUntyped(v) => ("FloatUntyped", v.to_bits()),
        ast::Literal::Float64(v) => ("Float64", v.to_bits()),
        ast::Literal::Float32(v) => ("Float32", v.to_bits() as u64),
        ast::Literal::Float16(v) => ("Float16", v.to_bits() as u64),
        ast::Literal::String(_) => return None,
    };
    Some(format!("l {} {:x} {}", k, bits, spell(lit)?))
}

fn lit_of(kind: &str, bits: u64) -> Option<ast::Literal> {
    Some(match kind {
        "Bool" => ast::Literal::Bool(bits != 0),
        "IntUntyped" => ast::Literal::IntUntyped(bits),
        "IntUnsigned32" => ast::Literal::IntUnsigned32(bits),
        "IntUnsigned64" => ast::Literal::IntUnsigned64(bits),
        "IntSigned64" => ast::Literal::IntSigned64(bits as i64),
        "FloatUntyped" => ast::Literal::FloatUntyped(f64::from_bits(bits)),
        "Float64" => ast::Literal::Float64(f64::from_bits(bits)),
        "Float32" => ast::Literal::Float32(f32::from_bits(bits as u32)),
        "Float16" => ast::Literal::Float16(f32::from_bits(bits as u32)),
        _ => return None,
    })
}

fn collect_types(e: &ast::Expression, out: &mut Vec<String>) {
    match e {
        ast::Expression::UnaryOperation(_, a) => collect_types(a, out),
        ast::Expression::BinaryOperation(_, a, b) | ast::Expression::ArraySubscript(a, b) => { collect_types(a, out); collect_types(b, out); }
        ast::Expression::TernaryConditional(a, b, c) => { collect_types(a, out); collect_types(b, out); collect_types(c, out); }
        ast::Expression::Member(a, _) => collect_types(a, out),
        ast::Expression::Call(f, _, args) => { collect_types(f, out); for a in args { collect_types(a, out); } }
        ast::Expression::Cast(t, a) => { if let Some(n) = scoped_name(&t.base.layout.0) { out.push(n); } collect_types(a, out); }
        _ => {}
    }
}

fn module_of(e: ast::Expression) -> ast::Module {
    let stmt = ast::Statement { kind: ast::StatementKind::Expression(e), location: rssl::text::SourceLocation::UNKNOWN, attributes: Vec::new() };
    let f = ast::FunctionDefinition {
        name: l("f".to_string()),
        returntype: ast::FunctionReturn::from(ast::Type::from("void")),
        template_params: ast::TemplateParamList(Vec::new()),
        params: Vec::new(),
        is_const: false,
        is_volatile: false,
        body: Some(vec![stmt]),
        attributes: Vec::new(),
    };
    ast::Module { root_definitions: vec![ast::RootDefinition::Function(f)] }
}

fn parse_text(text: &str) -> Result<ast::Module, String> {
    let mut sm = rssl::text::SourceManager::new();
    let mut inc = MemFiles::single("t.rssl", text);
    let tokens = rssl::preprocess::preprocess("t.rssl", &mut sm, &mut inc, &[]).map_err(|_| "preprocess".to_string())?;
    let tokens = rssl::preprocess::prepare_tokens(&tokens);
    rssl::parser::parse(&tokens).map_err(|_| "parse".to_string())
}

fn run_expr(words: &[&str]) -> String {
    let mut pos = 0;
    let e = match parse_tree(words, &mut pos) {
        Some(e) if pos == words.len() => e,
        _ => return "BAD-CASE".into(),
    };
    let mut gamma = Vec::new();
    collect_types(&e, &mut gamma);
    let text = match rssl_formatter::format(&module_of(e), rssl_formatter::Target::Hlsl) {
        Ok(t) => t,
        Err(err) => return format!("FORMAT-ERROR {:?}", err),
    };
    // "void f() {\n    <expr>;\n}\n"
    let body = text.lines().nth(1).unwrap_or("").trim().trim_end_matches(';').to_string();
    let tree = match parse_text(&text) {
        Ok(m) => {
            let mut out = Vec::new();
            let ok = (|| {
                if let Some(ast::RootDefinition::Function(f)) = m.root_definitions.first() {
                    let st = f.body.as_ref()?.first()?;
                    match &st.kind {
                        ast::StatementKind::Expression(e) => show_tree(e, &gamma, &mut out),
                        ast::StatementKind::AmbiguousDeclarationOrExpression(_, e) => show_tree(e, &gamma, &mut out),
                        _ => None,
                    }
                } else { None }
            })();
            if ok.is_some() { out.join(" ") } else { "UNREADABLE".to_string() }
        }
        Err(e) => format!("PARSE-ERROR {}", e),
    };
    format!("TEXT {} ;; TREE {}", body, tree)
}

pub fn normalize_debug(s: &str) -> String {
    // drop locations: " @ 123" and SourceLocation(123)
    let mut out = String::with_capacity(s.len());
    let b = s.as_bytes();
    let mut i = 0;
    while i < b.len() {
        if s[i..].starts_with(" @ ") {
            let mut j = i + 3;
            while j < b.len() && b[j].is_ascii_digit() { j += 1; }
            if j > i + 3 { i = j; continue; }
        }
        if s[i..].starts_with("SourceLocation(") {
            let mut j = i + 15;
            while j < b.len() && b[j].is_ascii_digit() { j += 1; }
            out.push_str("SourceLocation(_");
            i = j;
            continue;
        }
        out.push(b[i] as char);
        i += 1;
    }
    out
}

fn first_diff(a: &str, b: &str) -> String {
    let n = a.bytes().zip(b.bytes()).take_while(|(x, y)| x == y).count();
    let st = n.saturating_sub(60);
    format!("at {}: `{}` vs `{}`", n, &a[st..(n + 60).min(a.len())].replace('\n', " "), &b[st..(n + 60).min(b.len())].replace('\n', " "))
}

fn read_repo(rel: &str) -> Option<String> {
    std::fs::read_to_string(format!("{}/{}", std::env::var("RSSL_REPO").unwrap_or("/repo".into()), rel)).ok()
}

fn compare(mut t1: ast::Module, text: &str, what: &str) -> String {
    use crate::astwalk::Walk;
    let mut c = Walk::collector();
    c.module(&mut t1);
    let t2 = match parse_text(text) { Ok(t) => t, Err(e) => return format!("DIFF {} text does not parse ({})", what, e) };
    let mut t2 = t2;
    let mut r = Walk::resolver(c.types.clone());
    r.module(&mut t2);
    let (d1, d2) = (normalize_debug(&format!("{:?}", t1)), normalize_debug(&format!("{:?}", t2)));
    if d1 == d2 { format!("SAME {}", r.ambiguous_seen) } else { format!("DIFF {}", first_diff(&d1, &d2)) }
}

fn run_file(rel: &str, target: &str) -> String {
    use crate::astwalk::Walk;
    let src = match read_repo(rel) { Some(s) => s, None => return "SKIP unreadable".into() };
    let mut t1 = match parse_text(&src) { Ok(t) => t, Err(e) => return format!("SKIP {}", e) };
    // the printer documents pipelines as unsupported: print the rest of the file
    t1.root_definitions.retain(|r| !matches!(r, ast::RootDefinition::Pipeline(_)));
    let mut c = Walk::collector();
    c.module(&mut t1);
    if let Some(u) = c.unsupported { return format!("SKIP unsupported {}", u); }
    for b in BUILTIN_TYPES { c.types.insert(b.to_string()); }
    // the tree the type checker acts on: ambiguity nodes resolved by the names that are types
    let mut r = Walk::resolver(c.types.clone());
    r.module(&mut t1);
    let tg = match target { "Rssl" => rssl_formatter::Target::Rssl, "Hlsl" => rssl_formatter::Target::Hlsl, _ => return "BAD-CASE".into() };
    let text = match rssl_formatter::format(&t1, tg) { Ok(t) => t, Err(e) => return format!("DIFF format {:?}", e) };
    compare(t1, &text, "printed")
}

const BUILTIN_TYPES: &[&str] = &["void", "bool", "int", "uint", "half", "float", "double", "float2", "float3", "float4", "int2", "int3", "int4", "uint2", "uint3", "uint4", "float4x4", "float3x3", "float2x2"];

fn run_export(rel: &str, target: &str) -> String {
    let src = match read_repo(rel) { Some(s) => s, None => return "SKIP unreadable".into() };
    let _ = rssl::hlsl::verif::take_last_ast();
    let o = crate::probe::compile_src(&[("main.rssl", &src)], "main.rssl", target, true, false, None, &[]);
    if o.kind != "OK" { return format!("SKIP {}", o.kind); }
    let t1 = match rssl::hlsl::verif::take_last_ast() { Some(t) => t, None => return "SKIP no tree".into() };
    let text = String::from_utf8_lossy(&o.pipelines[0].data).to_string();
    compare(t1, &text, "emitted")
}

pub fn run_line(line: &str) -> String {
    let w: Vec<&str> = line.split_whitespace().collect();
    match w.first().copied() {
        Some("E") => run_expr(&w[1..]),
        Some("F") if w.len() == 3 => run_file(w[1], w[2]),
        Some("X") if w.len() == 3 => run_export(w[1], w[2]),
        _ => "BAD-CASE".into(),
    }
}

fn lit_case(kind: &str, bits: u64) -> String {
    lit_words(&lit_of(kind, bits).unwrap()).unwrap_or_else(|| "v unspellable".into())
}

const LEAF_LITS: &[(&str, u64)] = &[
    ("IntUntyped", 0), ("IntUntyped", 1), ("IntUntyped", 7), ("IntUntyped", 4294967295), ("IntUnsigned32", 0), ("IntUnsigned32", 3),
    ("Bool", 0), ("Bool", 1), ("IntSigned64", 5), ("IntSigned64", 0xffff_ffff_ffff_fffb), ("IntUnsigned64", 9),
    ("FloatUntyped", 0x3ff8000000000000), ("FloatUntyped", 0xbff8000000000000), ("FloatUntyped", 0x4014000000000000),
    ("Float32", 0x3fc00000), ("Float32", 0xbfc00000), ("Float32", 0x40a00000), ("Float64", 0x4014000000000000), ("Float16", 0x40a00000),
];

fn leaf(rng: &mut Rng) -> String {
    if rng.below(2) == 0 {
        let (k, b) = rng.pick(LEAF_LITS);
        lit_case(k, *b)
    } else {
        format!("v {}", rng.pick(&["x", "y", "z", "w"]))
    }
}

fn gen_tree(rng: &mut Rng, depth: u32) -> String {
    if depth == 0 { return leaf(rng); }
    match rng.below(14) {
        0 | 1 => leaf(rng),
        2 | 3 => format!("U {} {}", rng.pick(UNOPS), gen_tree(rng, depth - 1)),
        4..=8 => format!("B {} {} {}", rng.pick(BINOPS), gen_tree(rng, depth - 1), gen_tree(rng, depth - 1)),
        9 => format!("T {} {} {}", gen_tree(rng, depth - 1), gen_tree(rng, depth - 1), gen_tree(rng, depth - 1)),
        10 => format!("S {} {}", gen_tree(rng, depth - 1), gen_tree(rng, depth - 1)),
        11 => format!("M {} {}", gen_tree(rng, depth - 1), rng.pick(&["m", "xy"])),
        12 => { let k = rng.below(3); let mut s = format!("C {} {}", k, gen_tree(rng, depth - 1)); for _ in 0..k { s += " "; s += &gen_tree(rng, depth - 1); } s }
        _ => format!("K {} {}", rng.pick(&["float", "T0"]), gen_tree(rng, depth - 1)),
    }
}

fn repo_sources() -> Vec<String> {
    let root = std::env::var("RSSL_REPO").unwrap_or("/repo".into());
    let mut out = Vec::new();
    fn walk(dir: &std::path::Path, root: &str, out: &mut Vec<String>) {
        if let Ok(rd) = std::fs::read_dir(dir) {
            let mut es: Vec<_> = rd.filter_map(|e| e.ok()).collect();
            es.sort_by_key(|e| e.path());
            for e in es {
                let p = e.path();
                if p.is_dir() { walk(&p, root, out); }
                else if p.extension().map(|x| x == "rssl").unwrap_or(false) {
                    out.push(p.strip_prefix(root).unwrap().to_string_lossy().to_string());
                }
            }
        }
    }
    walk(std::path::Path::new(&format!("{}/tests", root)), &root, &mut out);
    walk(std::path::Path::new(&format!("{}/hlsl/tests", root)), &root, &mut out);
    walk(std::path::Path::new(&format!("{}/msl/tests", root)), &root, &mut out);
    out
}

pub fn gen_cases(seed: u64, n: usize, thorough: bool) -> Vec<String> {
    let mut rng = Rng::new(seed);
    let mut out = Vec::new();
    // every (outer operator, inner operator, side) combination with identifier leaves
    let x = "v x"; let y = "v y"; let z = "v z";
    let lit1 = lit_case("IntUntyped", 1); let lit2 = lit_case("Float32", 0xbfc00000);
    let mut shapes: Vec<(String, usize)> = Vec::new();   // template with {} holes, arity
    for u in UNOPS { shapes.push((format!("U {} {{}}", u), 1)); }
    for b in BINOPS { shapes.push((format!("B {} {{}} {{}}", b), 2)); }
    shapes.push(("T {} {} {}".to_string(), 3));
    shapes.push(("S {} {}".to_string(), 2));
    shapes.push(("M {} m".to_string(), 1));
    shapes.push(("C 1 {} {}".to_string(), 2));
    shapes.push(("C 0 {}".to_string(), 1));
    shapes.push(("K float {}".to_string(), 1));
    shapes.push(("K T0 {}".to_string(), 1));
    let fill = |tpl: &str, holes: &[&str]| { let mut s = String::new(); let mut it = holes.iter(); let mut rest = tpl; while let Some(p) = rest.find("{}") { s += &rest[..p]; s += it.next().unwrap(); rest = &rest[p + 2..]; } s += rest; s };
    let leaves = [x, y, z];
    for (outer, oa) in &shapes {
        for (inner, ia) in &shapes {
            let inner_s = fill(inner, &leaves[..*ia]);
            for side in 0..*oa {
                let mut holes: Vec<&str> = leaves[..*oa].to_vec();
                holes[side] = &inner_s;
                out.push(format!("E {}", fill(outer, &holes)));
            }
        }
    }
    // three-deep chains on a sample of operator triples
    let step = if thorough { 1 } else { 29 };
    let mut k = 0usize;
    for (a, aa) in &shapes { for (b, ba) in &shapes { for (c, ca) in &shapes {
        k += 1;
        if k % step != 0 { continue; }
        let cs = fill(c, &leaves[..*ca]);
        let mut hb: Vec<&str> = leaves[..*ba].to_vec(); let sb = rng.below(*ba as u64) as usize; hb[sb] = &cs;
        let bs = fill(b, &hb);
        let mut ha: Vec<&str> = leaves[..*aa].to_vec(); let sa = rng.below(*aa as u64) as usize; ha[sa] = &bs;
        out.push(format!("E {}", fill(a, &ha)));
    } } }
    // literals of every kind, extreme values included, alone and under the operators that touch their first/last character
    let mut lits: Vec<(&str, u64)> = Vec::new();
    for v in [0u64, 1, 9, 10, 2147483647, 2147483648, 4294967295, 4294967296, 9223372036854775807, 9223372036854775808, 18446744073709551615] {
        lits.push(("IntUntyped", v));
        lits.push(("IntUnsigned64", v));
        lits.push(("IntSigned64", v));
        if v <= 4294967295 { lits.push(("IntUnsigned32", v)); }
    }
    lits.push(("IntSigned64", (-1i64) as u64));
    lits.push(("IntSigned64", (-9223372036854775807i64) as u64));
    lits.push(("Bool", 0)); lits.push(("Bool", 1));
    let mut f64s: Vec<u64> = [0.0f64, -0.0, 1.0, -1.0, 5.0, 0.1, 0.5, 1.5, -2.75, 1e-7, 1e7, 1e15, 1e16, 1e17, 1e21, 1e22, 1e23, 1e300, 5e-324, f64::MAX, f64::MIN_POSITIVE, f64::INFINITY, f64::NEG_INFINITY,
        9007199254740992.0, 9007199254740993.0, 9223372036854775807.0, 9223372036854775808.0, 1.0000000000000002, 0.30000000000000004, 123456789012345678.0, 3.141592653589793, 2.718281828459045e-200]
        .iter().map(|v| v.to_bits()).collect();
    let mut f32s: Vec<u64> = [0.0f32, -0.0, 1.0, -1.0, 5.0, 0.1, 0.5, 1.5, -2.75, 1e-7, 1e7, 16777216.0, 16777217.0, 1e10, 1e22, 1e38, f32::MAX, f32::MIN_POSITIVE, 1e-45, f32::INFINITY, f32::NEG_INFINITY, 3.1415927, 0.3, 9223372036854775807.0, 9.223372e18, 1.0000001, 65504.0]
        .iter().map(|v| v.to_bits() as u64).collect();
    let extra = if thorough { 400 } else { 40 };
    for _ in 0..extra {
        let b = rng.next();
        if !f64::from_bits(b).is_nan() { f64s.push(b); }
        let c = (rng.next() >> 32) as u32;
        if !f32::from_bits(c).is_nan() { f32s.push(c as u64); }
    }
    for b in &f64s { lits.push(("FloatUntyped", *b)); lits.push(("Float64", *b)); }
    for b in &f32s { lits.push(("Float32", *b)); lits.push(("Float16", *b)); }
    for (k, b) in &lits {
        let l = lit_case(k, *b);
        out.push(format!("E {}", l));
        out.push(format!("E M {} x", l));
        out.push(format!("E U Minus {}", l));
        out.push(format!("E U PostfixIncrement {}", l));
        out.push(format!("E K float {}", l));
        out.push(format!("E B Subtract v x {}", l));
        out.push(format!("E C 1 v f {}", l));
        out.push(format!("E S v x {}", l));
    }
    out.push(format!("E {}", lit_case("FloatUntyped", f64::NAN.to_bits())));
    out.push(format!("E {}", lit_case("Float32", f32::NAN.to_bits() as u64)));
    for _ in 0..n {
        let d = rng.range(2, 6) as u32;
        out.push(format!("E {}", gen_tree(&mut rng, d)));
    }
    for f in repo_sources() {
        out.push(format!("F {} Rssl", f));
        out.push(format!("F {} Hlsl", f));
        out.push(format!("X {} HlslForDirectX", f));
        out.push(format!("X {} HlslForVulkan", f));
    }
    out
}

pub fn dump(path: &str) -> String {
    let src = std::fs::read_to_string(path).unwrap_or_default();
    match parse_text(&src) { Ok(t) => normalize_debug(&format!("{:?}", t)), Err(e) => format!("ERROR {}", e) }
}
