//! C12: macro expansion, #include, #pragma once, initial defines.  A case is a `;`-separated list of items
//!   A name tok..  initial define      F name  start of a file (first = entry)
//!   T tok..  text block   D tok..  #define   U name  #undef   I name  #include "name"   O  #pragma once
//! tokens: ~ one blank, $ line end, everything else by spelling.
//! Output: <result> [|| PASTED <result>] [|| INFILE <result>]   where <result> = OK tok.. | ERR Variant | PANIC
use crate::common::*;
use rssl::text::tokens::Token;

#[derive(Clone)]
enum Item { Text(Vec<String>), Define(Vec<String>), Undef(String), Include(String), Once }

struct Case { api: Vec<(String, Vec<String>)>, files: Vec<(String, Vec<Item>)> }

fn parse_case(line: &str) -> Option<Case> {
    let mut c = Case { api: Vec::new(), files: Vec::new() };
    for part in line.split(';') {
        let w: Vec<String> = part.split_whitespace().map(|s| s.to_string()).collect();
        if w.is_empty() { continue; }
        match w[0].as_str() {
            "A" => c.api.push((w.get(1)?.clone(), w[2..].to_vec())),
            "F" => c.files.push((w.get(1)?.clone(), Vec::new())),
            "T" => c.files.last_mut()?.1.push(Item::Text(w[1..].to_vec())),
            "D" => c.files.last_mut()?.1.push(Item::Define(w[1..].to_vec())),
            "U" => c.files.last_mut()?.1.push(Item::Undef(w.get(1)?.clone())),
            "I" => c.files.last_mut()?.1.push(Item::Include(w.get(1)?.clone())),
            "O" => c.files.last_mut()?.1.push(Item::Once),
            _ => return None,
        }
    }
    if c.files.is_empty() { None } else { Some(c) }
}

fn spell(ws: &[String]) -> String {
    ws.iter().map(|w| match w.as_str() { "~" => " ", "$" => "\n", x => x }).collect::<Vec<_>>().concat()
}

fn render(items: &[Item]) -> String {
    let mut s = String::new();
    for it in items {
        match it {
            Item::Text(ws) => s += &spell(ws),
            Item::Define(ws) => { s += "#define"; s += &spell(ws); s += "\n"; }
            Item::Undef(x) => { s += "#undef "; s += x; s += "\n"; }
            Item::Include(f) => { s += "#include \""; s += f; s += "\"\n"; }
            Item::Once => s += "#pragma once\n",
        }
    }
    s
}

/// the entry file with every #include replaced by the included items (a #pragma once file only the first time)
fn pasted(c: &Case, name: &str, once: &mut Vec<String>, depth: u32, out: &mut Vec<Item>) -> bool {
    if depth > 40 { return false; }
    let items = match c.files.iter().find(|f| f.0 == name) { Some(f) => &f.1, None => return false };
    if once.iter().any(|o| o == name) { return true; }
    for it in items {
        match it {
            Item::Include(f) => { if !pasted(c, f, once, depth + 1, out) { return false; } }
            Item::Once => once.push(name.to_string()),
            other => out.push(other.clone()),
        }
    }
    true
}

fn show_tokens(tokens: &[rssl::text::tokens::PreprocessToken], sm: &rssl::text::SourceManager) -> String {
    let mut out = vec!["OK".to_string()];
    for t in tokens {
        match &t.0 {
            Token::Endline => out.push("$".into()),
            Token::Eof => {}
            tok if tok.is_whitespace() => out.push("~".into()),
            Token::Id(id) => out.push(id.0.clone()),
            tok => {
                use rssl::text::Locate;
                if t.get_location() == rssl::text::SourceLocation::UNKNOWN {
                    // tokens of initial defines carry no location: spell the common ones
                    out.push(match tok {
                        Token::LiteralInt(v) => v.to_string(),
                        Token::LeftParen => "(".into(), Token::RightParen => ")".into(), Token::Comma => ",".into(),
                        Token::Plus => "+".into(), Token::Asterix => "*".into(), Token::HashHash => "##".into(), Token::Minus => "-".into(),
                        other => format!("?{:?}", other).replace(' ', ""),
                    });
                } else {
                    out.push(rssl::preprocess::unlex(std::slice::from_ref(t), sm).replace(' ', "~").replace('\n', "$"));
                }
            }
        }
    }
    out.join(" ")
}

fn run_files(files: &[(String, String)], entry: &str, api: &[(String, String)]) -> String {
    let r = catch(|| {
        let mut sm = rssl::text::SourceManager::new();
        let list: Vec<(&str, &str)> = files.iter().map(|(a, b)| (a.as_str(), b.as_str())).collect();
        let mut inc = MemFiles::from(&list);
        let defs: Vec<(&str, &str)> = api.iter().map(|(a, b)| (a.as_str(), b.as_str())).collect();
        match rssl::preprocess::preprocess(entry, &mut sm, &mut inc, &defs) {
            Ok(tokens) => show_tokens(&tokens, &sm),
            Err(e) => {
                let d = format!("{:?}", e);
                format!("ERR {}", d.split(|c: char| !c.is_alphanumeric()).next().unwrap_or(""))
            }
        }
    });
    r.unwrap_or_else(|_| "PANIC".to_string())
}

pub fn run_line(line: &str) -> String {
    if line.trim_start().starts_with("I ") { return crate::c11::run_line(line); }
    let c = match parse_case(line) { Some(c) => c, None => return "BAD-CASE".into() };
    let files: Vec<(String, String)> = c.files.iter().map(|(n, its)| (n.clone(), render(its))).collect();
    let api: Vec<(String, String)> = c.api.iter().map(|(n, v)| (n.clone(), spell(v))).collect();
    let entry = c.files[0].0.clone();
    let mut out = run_files(&files, &entry, &api);
    let has_include = c.files.iter().any(|f| f.1.iter().any(|i| matches!(i, Item::Include(_))));
    if has_include {
        let mut items = Vec::new();
        let mut once = Vec::new();
        if pasted(&c, &entry, &mut once, 0, &mut items) {
            out += " || PASTED ";
            out += &run_files(&[(entry.clone(), render(&items))], &entry, &api);
        }
    }
    if !c.api.is_empty() {
        // the same defines as #define lines before the first line of the entry file
        let mut text = String::new();
        for (n, v) in &api { text += &format!("#define {} {}\n", n, v); }
        let mut files2 = files.clone();
        files2[0].1 = text + &files2[0].1;
        out += " || INFILE ";
        out += &run_files(&files2, &entry, &[]);
    }
    out
}

// ---------------------------------------------------------------- generation
const MACROS: &[&str] = &["A", "B", "C", "F", "G", "H"];
const PARAMS: &[&str] = &["p", "q", "r"];
const IDS: &[&str] = &["x", "y", "z"];
const NUMS: &[&str] = &["1", "2", "30"];
const SYMS: &[&str] = &["+", "*", "-"];

#[derive(Clone)]
struct Def { name: String, params: Option<usize> }

fn sp(rng: &mut Rng, out: &mut Vec<String>) { if rng.chance(3, 4) { out.push("~".into()); } }

/// an operand list: tokens separated so that adjacent words never merge in the lexer
fn gen_seq(rng: &mut Rng, defs: &[Def], params: usize, len: usize, depth: u32, in_body: bool, out: &mut Vec<String>) {
    for k in 0..len {
        if k > 0 { out.push("~".into()); }
        match rng.below(12) {
            0 | 1 if params > 0 => out.push(PARAMS[rng.below(params as u64) as usize].into()),
            2 | 3 | 4 if !defs.is_empty() => gen_invocation(rng, defs, params, depth, in_body, out),
            5 => out.push((*rng.pick(NUMS)).into()),
            6 => out.push((*rng.pick(SYMS)).into()),
            7 if depth > 0 => { out.push("(".into()); gen_seq(rng, defs, params, 2, depth - 1, in_body, out); out.push(")".into()); }
            8 if in_body && rng.chance(1, 2) => {
                // paste: left operand an identifier or parameter, right operand identifier, parameter or digits
                out.push(if params > 0 && rng.chance(1, 2) { PARAMS[rng.below(params as u64) as usize].into() } else { (*rng.pick(IDS)).to_string() });
                sp(rng, out); out.push("##".into()); sp(rng, out);
                out.push(match rng.below(3) { 0 if params > 0 => PARAMS[rng.below(params as u64) as usize].into(), 1 => (*rng.pick(NUMS)).to_string(), _ => (*rng.pick(IDS)).to_string() });
            }
            _ => out.push((*rng.pick(IDS)).into()),
        }
    }
}

fn gen_invocation(rng: &mut Rng, defs: &[Def], params: usize, depth: u32, in_body: bool, out: &mut Vec<String>) {
    let d = rng.pick(defs).clone();
    out.push(d.name.clone());
    if let Some(n) = d.params {
        if rng.chance(1, 12) { return; }           // a function-like name without arguments stays as it is
        if rng.chance(1, 4) { out.push("~".into()); }
        out.push("(".into());
        let n = if rng.chance(1, 25) { n + 1 } else if n > 0 && rng.chance(1, 40) { n - 1 } else { n };   // wrong count (malformed stream)
        for i in 0..n {
            if i > 0 { out.push(",".into()); sp(rng, out); }
            let len = if depth == 0 { 1 } else { rng.range(0, 2) as usize };
            gen_seq(rng, defs, params, len, depth.saturating_sub(1), in_body, out);
        }
        if !rng.chance(1, 40) { out.push(")".into()); }       // unterminated (malformed stream)
    }
}

fn gen_define(rng: &mut Rng, name: &str, known: &[Def], cyclic: bool, all: &[Def]) -> (Vec<String>, Def) {
    let mut w: Vec<String> = vec!["~".into(), name.into()];
    let params = if rng.chance(1, 2) { Some(rng.below(4) as usize) } else { None };
    if let Some(n) = params {
        w.push("(".into());
        for i in 0..n { if i > 0 { w.push(",".into()); sp(rng, &mut w); } w.push(PARAMS[i].into()); }
        w.push(")".into());
    }
    w.push("~".into());
    // an applicator: a body of parameters and punctuation only, `p ( q )` / `p q` / `p ( q , r )` - whether its first
    // parameter becomes an invocation is decided by the rescan of the replacement
    if let Some(n) = params {
        if n >= 2 && rng.chance(1, 5) {
            w.push(PARAMS[0].into());
            match rng.below(3) {
                0 => { sp(rng, &mut w); w.push("(".into()); for i in 1..n { if i > 1 { w.push(",".into()); sp(rng, &mut w); } w.push(PARAMS[i].into()); } w.push(")".into()); }
                1 => { w.push("~".into()); w.push(PARAMS[1].into()); }
                _ => { w.push("~".into()); w.push("(".into()); w.push(PARAMS[1].into()); w.push(")".into()); w.push("~".into()); w.push(PARAMS[0].into()); }
            }
            return (w, Def { name: name.into(), params });
        }
    }
    let len = rng.range(0, 5) as usize;
    let pool: &[Def] = if cyclic { all } else { known };
    gen_seq(rng, pool, params.unwrap_or(0), len, 2, true, &mut w);
    (w, Def { name: name.into(), params })
}

fn gen_program(rng: &mut Rng, with_api: bool, with_includes: bool) -> String {
    let ndefs = rng.range(1, 6) as usize;
    let cyclic = rng.chance(1, 4);
    let mut all: Vec<Def> = Vec::new();
    for i in 0..ndefs { all.push(Def { name: MACROS[i].into(), params: if rng.chance(1, 2) { Some(rng.below(4) as usize) } else { None } }); }
    let mut parts: Vec<String> = Vec::new();
    let mut known: Vec<Def> = Vec::new();
    if with_api {
        let n = rng.range(1, 2);
        for i in 0..n {
            let name = ["X", "Y"][i as usize];
            let mut v = Vec::new();
            let len = rng.range(1, 3) as usize;
            gen_seq(rng, &[], 0, len, 1, false, &mut v);
            parts.push(format!("A {} {}", name, v.join(" ")));
            known.push(Def { name: name.into(), params: None });
        }
    }
    let mut files: Vec<Vec<String>> = vec![Vec::new()];
    let nfiles = if with_includes { rng.range(2, 5) as usize } else { 1 };
    for _ in 1..nfiles { files.push(Vec::new()); }
    let fname = |i: usize| if i == 0 { "main.rssl".to_string() } else { format!("inc{}.h", i) };
    // include edges go from lower to higher index (plus an occasional repeat) so the graph is acyclic
    let mut text_block = |rng: &mut Rng, known: &[Def]| -> String {
        let mut w = Vec::new();
        let lines = rng.range(1, 2);
        for _ in 0..lines {
            let len = rng.range(1, 4) as usize;
            gen_seq(rng, known, 0, len, 2, false, &mut w);
            w.push("$".into());
        }
        format!("T {}", w.join(" "))
    };
    // definitions and uses are laid out in file order of first inclusion: generate the entry file top-down
    let mut order: Vec<usize> = vec![0];
    for i in 1..nfiles { order.push(i); }
    let mut di = 0;
    for (pos, &fi) in order.iter().enumerate() {
        let items = &mut files[fi];
        if fi != 0 && rng.chance(1, 2) { items.push("O".into()); }
        let steps = rng.range(2, 5);
        for _ in 0..steps {
            match rng.below(10) {
                0..=3 if di < ndefs => {
                    let (w, mut d) = gen_define(rng, &all[di].name.clone(), &known, cyclic, &all);
                    d.name = all[di].name.clone();
                    items.push(format!("D {}", w.join(" ")));
                    known.retain(|k| k.name != d.name);
                    known.push(d);
                    di += 1;
                }
                4 if !known.is_empty() && rng.chance(1, 2) => {
                    let k = rng.below(known.len() as u64) as usize;
                    items.push(format!("U {}", known[k].name));
                    known.remove(k);
                }
                5 if !known.is_empty() && rng.chance(1, 2) => {
                    // redefinition
                    let k = rng.below(known.len() as u64) as usize;
                    let name = known[k].name.clone();
                    let (w, d) = gen_define(rng, &name, &known.clone(), false, &all);
                    items.push(format!("D {}", w.join(" ")));
                    known.retain(|x| x.name != name);
                    known.push(d);
                }
                6 | 7 if pos + 1 < order.len() && fi == 0 => {
                    // the later files are only reachable through includes placed here
                }
                _ => items.push(text_block(rng, &known)),
            }
        }
        items.push(text_block(rng, &known));
    }
    // wire the includes: file i is included from some earlier file, some files twice
    for i in 1..nfiles {
        let from = rng.below(i as u64) as usize;
        let at = rng.below(files[from].len() as u64 + 1) as usize;
        files[from].insert(at, format!("I {}", fname(i)));
        if rng.chance(1, 3) {
            let from2 = rng.below(i as u64) as usize;
            files[from2].push(format!("I {}", fname(i)));
            files[from2].push(text_block(rng, &known));
        }
    }
    for (i, items) in files.iter().enumerate() {
        parts.push(format!("F {}", fname(i)));
        parts.extend(items.iter().cloned());
    }
    parts.join(" ; ")
}

/// put a blank around every punctuation character so that each token is one word
fn spread(s: &str) -> String {
    let mut o = String::new();
    let b: Vec<char> = s.chars().collect();
    let mut i = 0;
    while i < b.len() {
        let c = b[i];
        if c == '#' && i + 1 < b.len() && b[i + 1] == '#' { o += " ## "; i += 2; continue; }
        if "(),".contains(c) { o.push(' '); o.push(c); o.push(' '); } else { o.push(c); }
        i += 1;
    }
    o.split_whitespace().collect::<Vec<_>>().join(" ")
}

/// the files and API defines of one generated macro program (for checks that only need inputs of this shape)
pub fn program_files(seed: u64) -> Option<(Vec<(String, String)>, Vec<(String, String)>)> {
    let mut rng = Rng::new(seed);
    let line = gen_program(&mut rng, seed % 5 == 0, seed % 3 == 0);
    let c = parse_case(&line)?;
    let files = c.files.iter().map(|(n, its)| (n.clone(), render(its))).collect();
    let api = c.api.iter().map(|(n, v)| (n.clone(), spell(v))).collect();
    Some((files, api))
}

pub fn program_line(seed: u64) -> String {
    let mut rng = Rng::new(seed);
    gen_program(&mut rng, seed % 5 == 0, seed % 3 == 0)
}

pub fn gen_cases(seed: u64, n: usize, _thorough: bool) -> Vec<String> {
    let mut rng = Rng::new(seed);
    let mut out: Vec<String> = Vec::new();
    // #include / #pragma once in selected and unselected groups (the probes of C11)
    for k in 0..10 { out.push(format!("I {}", k)); }
    // hand-written shapes: rescanning, trailing function-like names, recursion, paste, argument splitting
    for s in [
        "F m ; D ~ f(p) ~ p ; D ~ a ~ f(a) ; T a $",
        "F m ; D ~ f(p) ~ p ; T f(f)(1) $",
        "F m ; D ~ f(p) ~ p ; D ~ g ~ f ; T g(1) ~ g ~ (2) ~ g $ (3) $",
        "F m ; D ~ f(p,q) ~ p ~ + ~ q ; T f((1,2),3) ~ f(,) ~ f( ~ x ~ , ~ ) $",
        "F m ; D ~ A ~ B ; D ~ B ~ A ; T A ~ B $",
        "F m ; D ~ A ~ A ~ + ~ 1 ; T A $",
        "F m ; D ~ f(p) ~ g(p) ; D ~ g(p) ~ f(p) ~ + ~ 1 ; T f(1) ~ g(2) $",
        "F m ; D ~ cat(p,q) ~ p ~ ## ~ q ; D ~ xy ~ 7 ; T cat(x,y) ~ cat(x,1) ~ cat(1,2) $",
        "F m ; D ~ cat(p,q) ~ p##q ; T cat(,x) ~ cat(x,) $",
        "F m ; D ~ e() ~ 5 ; T e() ~ e( ~ ) ~ e $",
        "F m ; D ~ e() ~ 5 ; T e(1) $",
        "F m ; D ~ SQR(v) ~ ((v) ~ * ~ (v)) ; D ~ APPLY(f,x) ~ f(x) ; D ~ PAIR(p,q) ~ p ~ q ; T APPLY(SQR, ~ y) ~ PAIR(SQR, ~ (y ~ + ~ 1)) ~ PAIR(SQR, ~ y) ~ APPLY(APPLY, ~ z) $",
        "F m ; D ~ f(p,q) ~ p ~ + ~ q ; T f(1) ~ f() ~ f(1,2,3) $",
        "F m ; D ~ f (p) ~ p ; T f(1) $",
        "F m ; D ~ A ~ 1 ; T A $ ; D ~ A ~ 2 ; T A $ ; U A ; T A $",
        "F m ; D ~ f(p) ~ p ; T f(1 $ ; T 2) $",
        "F m ; D ~ f(p) ~ p ~ p ; D ~ g(p) ~ f(p) ~ f ; T g(1)(2) $",
        "F m ; T x $ ; I a.h ; T A $ ; I a.h ; T A $ ; F a.h ; O ; D ~ A ~ 1 ; T y $",
        "F m ; T x $ ; I a.h ; T A $ ; I a.h ; T A $ ; F a.h ; D ~ A ~ A1 ; T y $",
        "A X 1 ; F m ; T X $ ; D ~ X ~ 2 ; T X $",
        "A X 1 ~ + ~ Y ; A Y 3 ; F m ; T X $",
        "A X x ~ ## ~ y ; F m ; T X $",
        "A X 1 ; F m ; D ~ cat(p,q) ~ p ~ ## ~ q ; T cat(X,2) $",
    ] { out.push(spread(s)); }
    for k in 0..n {
        let with_api = k % 5 == 0;
        let with_inc = k % 3 == 0;
        out.push(gen_program(&mut rng, with_api, with_inc));
    }
    out
}
