//! Semantic dump of a typed module: every function with a body, as words, with everything that matters to what the
//! function computes — literal values, which variable / global / function / member each reference names (symbols by
//! their emitted name, locals by their id), types with struct and enum names, operators, call argument lists.
//! Two modules can then be compared function by function (harness/src/c01.rs, coq/model/IRSem.v).
use crate::common::*;
use rssl::ir;
use rssl::ir::name_generator::{NameMap, NameSymbol};

pub struct S<'a> { pub m: &'a ir::Module, pub names: NameMap, pub out: Vec<String> }

fn scalar(s: ir::ScalarType) -> &'static str {
    use ir::ScalarType::*;
    match s { Bool => "b", IntLiteral => "il", Int32 => "i", UInt32 => "u", FloatLiteral => "fl", Float16 => "h", Float32 => "f", Float64 => "d" }
}

impl<'a> S<'a> {
    pub fn new(m: &'a ir::Module) -> Self { S { m, names: NameMap::build(m, rssl::hlsl::verif::RESERVED_NAMES, true), out: Vec::new() } }
    fn w(&mut self, s: impl Into<String>) { self.out.push(s.into()); }
    fn q(&self, sym: NameSymbol) -> String { self.names.get_name_qualified(sym, None).0.join("::") }

    pub fn ty(&mut self, id: ir::TypeId) {
        let m = self.m;
        match m.type_registry.get_type_layer(id) {
            ir::TypeLayer::Void => self.w("tv"),
            ir::TypeLayer::Scalar(s) => self.w(format!("ts {}", scalar(s))),
            ir::TypeLayer::Vector(inner, n) => { self.w(format!("tV {}", n)); self.ty(inner); }
            ir::TypeLayer::Matrix(inner, r, c) => { self.w(format!("tM {} {}", r, c)); self.ty(inner); }
            ir::TypeLayer::Struct(id) => { let n = self.q(NameSymbol::Struct(id)); self.w(format!("tS {}", n)); }
            ir::TypeLayer::StructTemplate(id) => self.w(format!("tT {}", id.0)),
            ir::TypeLayer::Enum(id) => { let n = self.q(NameSymbol::Enum(id)); self.w(format!("tE {}", n)); }
            ir::TypeLayer::Array(inner, len) => { self.w(format!("tA {}", len.map(|l| l.to_string()).unwrap_or("-".into()))); self.ty(inner); }
            ir::TypeLayer::TemplateParam(id) => self.w(format!("tP {}", id.0)),
            ir::TypeLayer::Modifier(md, inner) => {
                let bits = (md.is_const as u32) | ((md.volatile as u32) << 1) | ((md.row_major as u32) << 2) | ((md.column_major as u32) << 3) | ((md.unorm as u32) << 4) | ((md.snorm as u32) << 5);
                self.w(format!("tQ {}", bits));
                self.ty(inner);
            }
            ir::TypeLayer::Object(o) => {
                // the name of the variant, then the element type if it has one
                let dbg = format!("{:?}", o);
                let name = dbg.split('(').next().unwrap_or("").to_string();
                use ir::ObjectType::*;
                let inner = match o {
                    Buffer(t) | RWBuffer(t) | StructuredBuffer(t) | RWStructuredBuffer(t) | Texture2D(t) | Texture2DMips(t) | Texture2DMipsSlice(t) | Texture2DArray(t)
                    | Texture2DArrayMips(t) | Texture2DArrayMipsSlice(t) | RWTexture2D(t) | RWTexture2DArray(t) | TextureCube(t) | TextureCubeArray(t) | Texture3D(t)
                    | Texture3DMips(t) | Texture3DMipsSlice(t) | RWTexture3D(t) | ConstantBuffer(t) | TriangleStream(t) => Some(t),
                    _ => None,
                };
                match inner { Some(t) => { self.w(format!("tO1 {}", name)); self.ty(t); } None => self.w(format!("tO0 {}", dbg.replace(' ', ""))) }
            }
        }
    }

    fn constant(&mut self, c: &ir::Constant) {
        use ir::Constant::*;
        match c {
            Bool(b) => self.w(format!("cb {}", *b as u8)),
            IntLiteral(v) => self.w(format!("cil {}", v)),
            Int32(v) => self.w(format!("ci {}", v)),
            UInt32(v) => self.w(format!("cu {}", v)),
            Int64(v) => self.w(format!("cl {}", v)),
            UInt64(v) => self.w(format!("cul {}", v)),
            FloatLiteral(v) => self.w(format!("cfl {}", v.to_bits())),
            Float16(v) => self.w(format!("ch {}", v.to_bits())),
            Float32(v) => self.w(format!("cf {}", v.to_bits())),
            Float64(v) => self.w(format!("cd {}", v.to_bits())),
            String(s) => self.w(format!("cs {}", s.len())),
            Enum(id, inner) => { let n = self.q(NameSymbol::Enum(*id)); self.w(format!("ce {}", n)); self.constant(inner); }
        }
    }

    pub fn expr(&mut self, e: &ir::Expression) {
        use ir::Expression::*;
        let m = self.m;
        match e {
            Literal(c) => { self.w("Lit"); self.constant(c); }
            Variable(v) => self.w(format!("Loc @{}", v.0)),
            MemberVariable(sid, i) => { let n = self.q(NameSymbol::Struct(*sid)); let mem = m.struct_registry[sid.0 as usize].members[*i as usize].name.clone(); self.w(format!("Mem {} {}", n, mem)); }
            Global(g) => {
                let def = &m.global_registry[g.0 as usize];
                let n = if def.is_intrinsic { def.name.node.clone() } else { self.q(NameSymbol::GlobalVariable(*g)) };
                self.w(format!("Glob {}", n));
            }
            ConstantVariable(c) => { let cb = &m.cbuffer_registry[c.0.0 as usize]; self.w(format!("CVar {} {}", cb.name.node, cb.members[c.1 as usize].name.node)); }
            EnumValue(id) => { let v = m.enum_registry.get_enum_value(*id); let n = self.q(NameSymbol::Enum(v.enum_id)); self.w(format!("EVal {} {}", n, v.name.node)); }
            TernaryConditional(c, a, b) => { self.w("Tern"); self.expr(c); self.expr(a); self.expr(b); }
            Sequence(l) => { self.w(format!("Seq {}", l.len())); for x in l { self.expr(x); } }
            Swizzle(v, sw) => {
                self.w(format!("Swz {}", sw.len()));
                for s in sw { self.w(match s { ir::SwizzleSlot::X => "0", ir::SwizzleSlot::Y => "1", ir::SwizzleSlot::Z => "2", ir::SwizzleSlot::W => "3" }); }
                self.expr(v);
            }
            MatrixSwizzle(v, sw) => { self.w(format!("MSwz {}", sw.len())); for s in sw { self.w(format!("{}", s.0 as u32 * 4 + s.1 as u32)); } self.expr(v); }
            ArraySubscript(a, i) => { self.w("Sub"); self.expr(a); self.expr(i); }
            StructMember(x, sid, idx) => { let mem = m.struct_registry[sid.0 as usize].members[*idx as usize].name.clone(); self.w(format!("SMem {}", mem)); self.expr(x); }
            ObjectMember(x, name) => { self.w(format!("OMem {}", name)); self.expr(x); }
            Call(fid, ct, args) => {
                let name = match m.function_registry.get_intrinsic_data(*fid) {
                    Some(i) => format!("intrinsic:{}", format!("{:?}", i).replace(' ', "")),
                    None => self.q(NameSymbol::Function(*fid)),
                };
                // the signature tells overloads of intrinsics apart
                let sig = m.function_registry.get_function_signature(*fid);
                self.w("Call"); self.w(name);
                self.w(match ct { ir::CallType::FreeFunction => "free", ir::CallType::MethodExternal => "method", ir::CallType::MethodInternal => "internal" });
                self.w(sig.param_types.len().to_string());
                for p in sig.param_types.clone() { self.w(match p.input_modifier { ir::InputModifier::In => "0", ir::InputModifier::Out => "1", ir::InputModifier::InOut => "2" }); self.ty(p.type_id); }
                self.w(args.len().to_string());
                for a in args { self.expr(a); }
            }
            Constructor(t, slots) => { self.w("Ctor"); self.ty(*t); self.w(slots.len().to_string()); for s in slots { self.w(s.arity.to_string()); } for s in slots { self.expr(&s.expr); } }
            Cast(t, x) => { self.w("Cast"); self.ty(*t); self.expr(x); }
            SizeOf(t) => { self.w("SizeOf"); self.ty(*t); }
            IntrinsicOp(op, args) => { self.w(format!("Op {:?} {}", op, args.len())); for a in args { self.expr(a); } }
        }
    }

    fn init(&mut self, i: &Option<ir::Initializer>) {
        match i {
            None => self.w("IN"),
            Some(ir::Initializer::Expression(e)) => { self.w("IE"); self.expr(e); }
            Some(ir::Initializer::Aggregate(l)) => { self.w(format!("IA {}", l.len())); for x in l { self.init(&Some(x.clone())); } }
        }
    }

    fn vardef(&mut self, v: &ir::VarDef) {
        let def = self.m.variable_registry.get_local_variable(v.id);
        self.w(format!("@{}", v.id.0));
        self.w(format!("{:?}", def.storage_class));
        self.ty(def.type_id);
        self.init(&v.init);
    }

    fn block(&mut self, b: &ir::ScopeBlock) { self.w(b.0.len().to_string()); for s in &b.0 { self.stmt(s); } }

    fn stmt(&mut self, s: &ir::Statement) {
        use ir::StatementKind::*;
        for a in &s.attributes { self.w(format!("Attr {}", format!("{:?}", a).replace(' ', ""))); }
        match &s.kind {
            Expression(e) => { self.w("SExpr"); self.expr(e); }
            Var(v) => { self.w("SVar"); self.vardef(v); }
            Block(b) => { self.w("SBlock"); self.block(b); }
            If(c, b) => { self.w("SIf"); self.expr(c); self.block(b); }
            IfElse(c, a, b) => { self.w("SIfElse"); self.expr(c); self.block(a); self.block(b); }
            For(init, c, inc, b) => {
                self.w("SFor");
                match init {
                    ir::ForInit::Empty => self.w("FE"),
                    ir::ForInit::Expression(e) => { self.w("FX"); self.expr(e); }
                    ir::ForInit::Definitions(ds) => { self.w(format!("FD {}", ds.len())); for d in ds { self.vardef(d); } }
                }
                match c { Some(e) => { self.w("Y"); self.expr(e); } None => self.w("N") }
                match inc { Some(e) => { self.w("Y"); self.expr(e); } None => self.w("N") }
                self.block(b);
            }
            While(c, b) => { self.w("SWhile"); self.expr(c); self.block(b); }
            DoWhile(b, c) => { self.w("SDo"); self.block(b); self.expr(c); }
            Switch(c, b) => { self.w("SSwitch"); self.expr(c); self.block(b); }
            Break => self.w("SBreak"), Continue => self.w("SContinue"), Discard => self.w("SDiscard"),
            Return(None) => self.w("SRet0"),
            Return(Some(e)) => { self.w("SRet"); self.expr(e); }
            CaseLabel(c) => { self.w("SCase"); self.constant(c); }
            DefaultLabel => self.w("SDefault"),
        }
    }
}

/// (name, dump) of every function with a body and every global with an initialiser; struct layouts and enum values
pub fn dump(m: &ir::Module) -> Vec<(String, String)> {
    let mut items = Vec::new();
    for fid in m.function_registry.iter() {
        let imp = match m.function_registry.get_function_implementation(fid) { Some(i) => i, None => continue };
        let sig = m.function_registry.get_function_signature(fid);
        // template definitions are not functions of the program; their instantiations are
        if !sig.template_params.is_empty() && m.function_registry.get_template_instantiation_data(fid).is_none() { continue; }
        let mut d = S::new(m);
        let name = d.q(NameSymbol::Function(fid));
        d.w("F");
        d.ty(sig.return_type.return_type);
        d.w(imp.params.len().to_string());
        for p in &imp.params {
            d.w(format!("@{}", p.id.0));
            d.w(match p.param_type.input_modifier { ir::InputModifier::In => "0", ir::InputModifier::Out => "1", ir::InputModifier::InOut => "2" });
            d.ty(p.param_type.type_id);
            match &p.default_expr { Some(e) => { d.w("Y"); d.expr(e); } None => d.w("N") }
        }
        d.block(&imp.scope_block);
        items.push((format!("fn {}", name), d.out.join(" ")));
    }
    for (i, g) in m.global_registry.iter().enumerate() {
        if g.is_intrinsic { continue; }
        let mut d = S::new(m);
        let name = d.q(NameSymbol::GlobalVariable(ir::GlobalId(i as u32)));
        d.w("G"); d.w(format!("{:?}", g.storage_class)); d.ty(g.type_id); d.init(&g.init);
        items.push((format!("global {}", name), d.out.join(" ")));
    }
    for (i, sd) in m.struct_registry.iter().enumerate() {
        let mut d = S::new(m);
        let name = d.q(NameSymbol::Struct(ir::StructId(i as u32)));
        d.w("S"); d.w(sd.members.len().to_string());
        for mem in &sd.members { d.w(mem.name.clone()); d.ty(mem.type_id); }
        d.w(sd.methods.len().to_string());
        let ms: Vec<String> = sd.methods.iter().map(|f| d.q(NameSymbol::Function(*f))).collect();
        for x in ms { d.w(x); }
        items.push((format!("struct {}", name), d.out.join(" ")));
    }
    for i in 0..m.enum_registry.get_enum_count() {
        let id = ir::EnumId(i);
        let mut d = S::new(m);
        let name = d.q(NameSymbol::Enum(id));
        d.w("E"); d.ty(m.enum_registry.get_underlying_type_id(id));
        let vals: Vec<ir::EnumValueId> = m.enum_registry.get_values(id).to_vec();
        d.w(vals.len().to_string());
        for v in vals { let ev = m.enum_registry.get_enum_value(v); d.w(ev.name.node.clone()); let c = ev.value.clone(); d.constant(&c); }
        items.push((format!("enum {}", name), d.out.join(" ")));
    }
    items.sort();
    items
}

/// rename locals (the `@id` words) to their order of first appearance, so that two dumps of the same function read the same
pub fn canonical_locals(dump: &str) -> String {
    let mut map: std::collections::HashMap<&str, usize> = std::collections::HashMap::new();
    dump.split(' ').map(|t| {
        if let Some(id) = t.strip_prefix('@') { let n = map.len(); format!("%{}", *map.entry(id).or_insert(n)) } else { t.to_string() }
    }).collect::<Vec<_>>().join(" ")
}
