//! C01: HLSL export preserves the meaning of every accepted program.
//! Case:  E <flavour dx|vk> <program spec>     program spec as in C03 (gen:<seed>:<size> | file:.. | c14:.. | verif:.. | skel:<seed>)
//! The program is type checked (IR1), exported, and the emitted text is type checked again (IR2): under the front end's
//! reading of the emitted text, every function, global initialiser, struct and enum of IR2 must be the one of IR1.
//! Output: PAIRS <n> ;; <name> :: <dump of IR1> || <dump of IR2> ;; ...  |  MISSING <names>  |  SKIP <why>  |  REREAD-REJECTED <diag>
use crate::common::*;
use crate::sdump;

pub fn load(spec: &str) -> Option<Vec<(String, String)>> {
    if let Some(s) = spec.strip_prefix("gen:") {
        let mut it = s.split(':');
        let seed: u64 = it.next()?.parse().ok()?;
        let size: u32 = it.next()?.parse().ok()?;
        return Some(vec![("main.rssl".into(), crate::pgen::generate_pure(seed, size))]);
    }
    if let Some(s) = spec.strip_prefix("shadow:") { return Some(vec![("main.rssl".into(), crate::c15::shadow_program(s.parse().ok()?))]); }
    if let Some(s) = spec.strip_prefix("skel:") { return Some(vec![("main.rssl".into(), crate::c08::skeleton(s.parse().ok()?))]); }
    let repo = std::env::var("RSSL_REPO").unwrap_or("/repo".into());
    if let Some(rel) = spec.strip_prefix("file:") { return Some(vec![("main.rssl".into(), std::fs::read_to_string(format!("{}/{}", repo, rel)).ok()?)]); }
    if let Some(rel) = spec.strip_prefix("verif:") { return Some(vec![("main.rssl".into(), std::fs::read_to_string(format!("{}/{}", std::env::var("RSSL_VERIF").unwrap_or("/verif".into()), rel)).ok()?)]); }
    if let Some(name) = spec.strip_prefix("c14:") { return crate::c14::program_files(name); }
    None
}

pub fn run_line(line: &str) -> String {
    let w: Vec<&str> = line.split_whitespace().collect();
    if w.len() != 3 || w[0] != "E" { return "BAD-CASE".into(); }
    let files = match load(w[2]) { Some(f) => f, None => return "BAD-CASE".into() };
    let m1 = match crate::c03::type_check(&files, None, false) { Ok(Ok(m)) => m, Ok(Err(e)) => return format!("SKIP rejected: {}", e.lines().next().unwrap_or("")), Err(p) => return format!("SKIP front end panic: {}", p.lines().next().unwrap_or("")) };
    let target = if w[1] == "vk" { "HlslForVulkan" } else { "HlslForDirectX" };
    let list: Vec<(&str, &str)> = files.iter().map(|(a, b)| (a.as_str(), b.as_str())).collect();
    let o = crate::probe::compile_src(&list, &files[0].0, target, true, false, None, &[]);
    if o.kind != "OK" || o.pipelines.len() != 1 { return format!("SKIP export: {} {}", o.kind, o.text.lines().next().unwrap_or("")); }
    let text = String::from_utf8_lossy(&o.pipelines[0].data).to_string();
    let m2 = match crate::c03::type_check(&[("generated.hlsl".to_string(), text.clone())], None, false) {
        Ok(Ok(m)) => m,
        Ok(Err(e)) => return format!("REREAD-REJECTED {}", e.lines().take(2).collect::<Vec<_>>().join(" | ")),
        Err(p) => return format!("REREAD-PANIC {}", p.lines().next().unwrap_or("")),
    };
    let (d1, d2) = match catch(|| (sdump::dump(&m1), sdump::dump(&m2))) { Ok(x) => x, Err(p) => return format!("SKIP dump panic: {}", p) };
    // template definitions have no body of their own; only what is exported is compared: every item of IR2 must be an
    // item of IR1, and every function of IR1 that has a body and is emitted must be in IR2
    let names1: std::collections::BTreeMap<&String, &String> = d1.iter().map(|(a, b)| (a, b)).collect();
    let names2: std::collections::BTreeMap<&String, &String> = d2.iter().map(|(a, b)| (a, b)).collect();
    let missing: Vec<String> = names1.keys().filter(|k| !names2.contains_key(*k)).map(|k| format!("-{}", k)).chain(names2.keys().filter(|k| !names1.contains_key(*k)).map(|k| format!("+{}", k))).collect();
    if !missing.is_empty() { return format!("MISSING {}", missing.join(" ; ")); }
    let mut parts = Vec::new();
    for (k, a) in &names1 { parts.push(format!("{} :: {} || {}", k.replace(' ', "_"), a, names2[*k])); }
    format!("PAIRS {} ;; {}", parts.len(), parts.join(" ;; "))
}

pub fn gen_cases(seed: u64, n: usize, _thorough: bool) -> Vec<String> {
    let mut rng = Rng::new(seed);
    let mut out = Vec::new();
    let repo = std::env::var("RSSL_REPO").unwrap_or("/repo".into());
    for dir in ["tests/basic", "hlsl/tests", "msl/tests"] {
        if let Ok(rd) = std::fs::read_dir(format!("{}/{}", repo, dir)) {
            let mut es: Vec<_> = rd.filter_map(|e| e.ok()).map(|e| e.path()).filter(|p| p.extension().map(|x| x == "rssl").unwrap_or(false)).collect();
            es.sort();
            for p in es { for fl in ["dx", "vk"] { out.push(format!("E {} file:{}/{}", fl, dir, p.file_name().unwrap().to_string_lossy())); } }
        }
    }
    for name in crate::c14::program_names() { out.push(format!("E dx c14:{}", name)); }
    for k in 0..n { out.push(format!("E {} gen:{}:{}", if k % 4 == 3 { "vk" } else { "dx" }, rng.below(1 << 40), rng.range(3, 22))); }
    for _ in 0..n { out.push(format!("E dx skel:{}", rng.below(1 << 40))); }
    for _ in 0..n / 4 { out.push(format!("E dx shadow:{}", rng.below(1 << 40))); }
    out
}
