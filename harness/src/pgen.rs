//! A generator of typed RSSL programs using every declaration kind: structs (with methods), struct and function
//! templates, enums, nested namespaces, cbuffers, resources of every object type with register/space annotations and
//! bind-group attributes, typedefs, static const / groupshared globals, overloaded functions, in/out/inout
//! parameters, semantics, attributes, every statement form and every expression form (literals in every spelling,
//! implicit conversions, casts, constructors, swizzles, intrinsics, resource methods).
//! Programs are mostly accepted; the users of the generator skip those that are not.
use crate::common::Rng;

#[derive(Clone, Copy, Debug, PartialEq)]
pub enum Sc { B, I, U, F }

#[derive(Clone, Debug, PartialEq)]
pub enum Ty { V(Sc, u8), M(u8, u8), Struct(usize), Enum(usize) }

#[derive(Clone)]
struct Var { name: String, ty: Ty, lv: bool, arr: Option<u32> }

#[derive(Clone)]
struct Func { path: Vec<String>, params: Vec<(Ty, u8)>, ret: Option<Ty>, overloaded: bool, tmpl: bool, defaults: usize }

#[derive(Clone)]
struct StructDef { path: Vec<String>, fields: Vec<(String, Ty)>, methods: Vec<(String, Vec<Ty>, Ty)>, tmpl: Option<Sc> }

#[derive(Clone)]
struct EnumDef { path: Vec<String>, values: Vec<String>, scoped: bool }

#[derive(Clone)]
struct Res { name: String, kind: &'static str, arr: Option<u32> }

pub struct Gen<'a> {
    rng: &'a mut Rng,
    scope: Vec<String>,
    globals: Vec<(Vec<String>, Var)>,
    funcs: Vec<Func>,
    structs: Vec<StructDef>,
    enums: Vec<EnumDef>,
    res: Vec<Res>,
    locals: Vec<Vec<Var>>,
    counter: u32,
    pub entry_points: Vec<(String, &'static str)>,
    used_regs: Vec<(char, u32, u32)>,
    /// fields visible by plain name (inside a method)
    this_fields: Vec<(String, Ty)>,
    /// struct templates cannot be exported yet (the HLSL exporter stops at a todo!); only the totality check asks for them
    pub struct_templates: bool,
    /// ConstantBuffer<S> globals: only their members can be read
    cb_structs: Vec<(String, usize)>,
    mutable_globals: Vec<(Vec<String>, Ty)>,
    /// the executable subset: no semantics or interpolation modifiers
    pub pure: bool,
}

pub fn sc_name(s: Sc) -> &'static str { match s { Sc::B => "bool", Sc::I => "int", Sc::U => "uint", Sc::F => "float" } }

const SWZ: [&str; 4] = ["x", "y", "z", "w"];
const SWZ_C: [&str; 4] = ["r", "g", "b", "a"];

impl<'a> Gen<'a> {
    pub fn new(rng: &'a mut Rng) -> Self {
        Gen { rng, scope: vec![], globals: vec![], funcs: vec![], structs: vec![], enums: vec![], res: vec![], locals: vec![], counter: 0,
              entry_points: vec![], used_regs: vec![], this_fields: vec![], struct_templates: false, cb_structs: vec![], mutable_globals: vec![], pure: false }
    }

    fn fresh(&mut self, stem: &str) -> String { self.counter += 1; format!("{}{}", stem, self.counter) }

    pub fn ty_name(&self, t: &Ty) -> String {
        match t {
            Ty::V(s, 1) => sc_name(*s).to_string(),
            Ty::V(s, n) => format!("{}{}", sc_name(*s), n),
            Ty::M(r, c) => format!("float{}x{}", r, c),
            Ty::Struct(i) => self.refer(&self.structs[*i].path.clone()),
            Ty::Enum(i) => self.refer(&self.enums[*i].path.clone()),
        }
    }

    fn exists(&self, p: &[String]) -> bool {
        self.globals.iter().any(|(q, _)| q[..] == *p) || self.funcs.iter().any(|f| f.path[..] == *p) || self.structs.iter().any(|s| s.path[..] == *p) || self.enums.iter().any(|e| e.path[..] == *p)
    }

    /// how the current scope names an item declared at `path`
    fn refer(&self, path: &[String]) -> String {
        let dirs = &path[..path.len() - 1];
        let c = dirs.iter().zip(self.scope.iter()).take_while(|(a, b)| a == b).count();
        if c == dirs.len() {
            // declared in this scope or an enclosing one: the plain name, unless something nearer has the same name
            let leaf = path.last().unwrap();
            let shadowed = (c + 1..=self.scope.len()).any(|k| { let mut q = self.scope[..k].to_vec(); q.push(leaf.clone()); self.exists(&q) });
            if !shadowed { return leaf.clone(); }
            if path.len() == 1 { return format!("::{}", leaf); }
            return path.join("::");
        }
        path[c..].join("::")
    }

    fn num_ty(&mut self) -> Ty {
        let s = *self.rng.pick(&[Sc::I, Sc::U, Sc::F, Sc::F, Sc::F]);
        let n = *self.rng.pick(&[1u8, 1, 1, 2, 3, 4]);
        Ty::V(s, n)
    }

    fn any_ty(&mut self) -> Ty {
        let r = self.rng.below(20);
        if r == 0 { return Ty::V(Sc::B, 1); }
        if r == 1 && !self.structs.is_empty() {
            let cands: Vec<usize> = (0..self.structs.len()).filter(|i| self.structs[*i].tmpl.is_none()).collect();
            if !cands.is_empty() { return Ty::Struct(*self.rng.pick(&cands)); }
        }
        if r == 2 && !self.enums.is_empty() { return Ty::Enum(self.rng.below(self.enums.len() as u64) as usize); }
        if r == 3 { let n = self.rng.range(3, 4) as u8; return Ty::M(n, n); }
        self.num_ty()
    }

    // ---------------------------------------------------------------- literals
    fn int_lit(&mut self, unsigned: bool) -> String {
        let v: u64 = match self.rng.below(6) { 0 => 0, 1 => 1, 2 => self.rng.below(16), 3 => self.rng.below(256), 4 => self.rng.below(100000), _ => self.rng.below(0x7fffffff) };
        let body = match self.rng.below(5) { 0 => format!("0x{:x}", v), 1 => format!("0x{:X}", v), _ => format!("{}", v) };
        let suf = if unsigned { *self.rng.pick(&["u", "U", "u"]) } else { "" };
        format!("{}{}", body, suf)
    }

    fn float_lit(&mut self) -> String {
        let suf = *self.rng.pick(&["", "f", "f", "F", "f"]);
        match self.rng.below(9) {
            0 => format!("{}.0{}", self.rng.below(10), suf),
            1 => format!("{}.{}{}", self.rng.below(100), self.rng.below(1000), suf),
            2 => format!("0.{}{}", self.rng.range(1, 99), suf),
            3 => format!("{}.{}", self.rng.below(10), suf),
            4 => format!("{}e{}{}", self.rng.range(1, 9), self.rng.below(6), suf),
            5 => format!("{}.{}e-{}{}", self.rng.below(10), self.rng.below(100), self.rng.range(1, 12), suf),
            6 => format!("0.{}{}", ["1", "2", "3", "7", "333333", "1415926535", "000001", "99999999"][self.rng.below(8) as usize], suf),
            7 => format!("{}{}", ["3.14159265358979", "6.283185307", "0.70710678118", "1.17549435e-38", "16777217.0", "65504.0", "1e-7", "2.5e10"][self.rng.below(8) as usize], suf),
            _ => format!("{}.5{}", self.rng.below(1000), suf),
        }
    }

    fn literal(&mut self, s: Sc) -> String {
        match s {
            Sc::B => self.rng.pick(&["true", "false"]).to_string(),
            Sc::I => { if self.rng.chance(1, 8) { format!("-{}", self.int_lit(false)) } else { self.int_lit(false) } }
            Sc::U => self.int_lit(true),
            Sc::F => { if self.rng.chance(1, 8) { format!("-{}", self.float_lit()) } else { self.float_lit() } }
        }
    }

    // ---------------------------------------------------------------- expressions
    fn vars_of(&self, want: &Ty, lv_only: bool) -> Vec<String> {
        let mut out = Vec::new();
        let mut shadow: Vec<&str> = Vec::new();
        for frame in self.locals.iter().rev() {
            for v in frame.iter().rev() {
                if shadow.contains(&v.name.as_str()) { continue; }
                shadow.push(&v.name);
                if v.arr.is_none() && &v.ty == want && (v.lv || !lv_only) { out.push(v.name.clone()); }
            }
        }
        if !lv_only {
            for (n, t) in &self.this_fields { if t == want && !shadow.contains(&n.as_str()) { out.push(n.clone()); } }
            for (p, v) in &self.globals {
                if v.arr.is_none() && &v.ty == want && !shadow.contains(&p.last().unwrap().as_str()) { out.push(self.refer(p)); }
            }
        }
        out
    }

    fn leaf(&mut self, t: &Ty) -> String {
        let vs = self.vars_of(t, false);
        if !vs.is_empty() && self.rng.chance(3, 5) { return self.rng.pick(&vs).clone(); }
        match t.clone() {
            Ty::V(s, 1) => {
                // element of an array / a vector component
                if self.rng.chance(1, 6) {
                    let t4 = Ty::V(s, *self.rng.pick(&[2u8, 3, 4]));
                    let vs = self.vars_of(&t4, false);
                    if !vs.is_empty() { let v = self.rng.pick(&vs).clone(); let c = self.rng.pick(&SWZ[..2]); return format!("{}.{}", v, c); }
                }
                self.literal(s)
            }
            Ty::V(s, n) => {
                let tn = self.ty_name(t);
                if self.rng.chance(1, 4) { let l = self.literal(s); return format!("({})({})", tn, l); }
                let parts: Vec<String> = (0..n).map(|_| self.literal(s)).collect();
                format!("{}({})", tn, parts.join(", "))
            }
            Ty::M(r, c) => {
                let parts: Vec<String> = (0..(r * c)).map(|_| self.literal(Sc::F)).collect();
                format!("float{}x{}({})", r, c, parts.join(", "))
            }
            Ty::Struct(_) => {
                if !vs.is_empty() { return self.rng.pick(&vs).clone(); }
                format!("({})0", self.ty_name(t))
            }
            Ty::Enum(i) => {
                let e = self.enums[i].clone();
                let v = self.rng.pick(&e.values).clone();
                let mut p = e.path.clone();
                if e.scoped || self.rng.chance(1, 2) { p.push(v); } else { p.pop(); p.push(v); }
                self.refer(&p)
            }
        }
    }

    pub fn expr(&mut self, t: &Ty, depth: u32) -> String {
        if depth == 0 || self.rng.chance(1, 5) { return self.leaf(t); }
        let d = depth - 1;
        match t.clone() {
            Ty::V(Sc::B, 1) => match self.rng.below(9) {
                0 => format!("!{}", self.atom(t, d)),
                // a condition that is itself a conditional (it keeps its parentheses as the condition of another one)
                7 => { let c = self.expr(t, d); let a = self.leaf(t); let b = self.expr(t, d); format!("{} ? {} : {}", self.wrap(c), a, self.wrap(b)) }
                1 | 2 => { let a = self.expr(t, d); let b = self.expr(t, d); format!("{} {} {}", self.wrap(a), self.rng.pick(&["&&", "||"]), self.wrap(b)) }
                3 | 4 | 5 => {
                    let nt = Ty::V(*self.rng.pick(&[Sc::I, Sc::U, Sc::F]), 1);
                    let a = self.expr(&nt, d); let b = self.expr(&nt, d);
                    format!("{} {} {}", self.wrap(a), self.rng.pick(&["<", ">", "<=", ">=", "==", "!="]), self.wrap(b))
                }
                6 => { let nt = Ty::V(Sc::F, *self.rng.pick(&[2u8, 3, 4])); let a = self.expr(&nt, d); let b = self.expr(&nt, d); format!("{}({} {} {})", self.rng.pick(&["all", "any"]), self.wrap(a), self.rng.pick(&["<", ">=", "=="]), self.wrap(b)) }
                _ => self.leaf(t),
            },
            Ty::V(Sc::B, _) => self.leaf(t),
            Ty::V(s, n) => {
                match self.rng.below(22) {
                    0 | 1 | 2 | 3 => {
                        let ops: &[&str] = if s == Sc::F { &["+", "-", "*", "/"] } else { &["+", "-", "*", "/", "%", "&", "|", "^", "<<", ">>"] };
                        let op = *self.rng.pick(ops);
                        let a = if s == Sc::F { self.loose(t, d) } else { self.expr(t, d) };
                        // the right operand may be a scalar that is splatted
                        let bt = if n > 1 && self.rng.chance(1, 3) { Ty::V(s, 1) } else { t.clone() };
                        let b = if op == "<<" || op == ">>" { format!("{}", self.rng.below(31)) } else if op == "/" || op == "%" { self.nonzero(&bt) } else { self.expr(&bt, d) };
                        format!("{} {} {}", self.wrap(a), op, self.wrap(b))
                    }
                    4 => { let a = self.atom(t, d); format!("{}{}", if s == Sc::F { "-" } else if n == 1 { *self.rng.pick(&["-", "~", "+"]) } else { *self.rng.pick(&["-", "+"]) }, a) }
                    5 => { let c = self.expr(&Ty::V(Sc::B, 1), d); let a = self.expr(t, d); let b = self.expr(t, d); format!("{} ? {} : {}", self.wrap(c), self.wrap(a), self.wrap(b)) }
                    6 | 7 => {
                        // explicit cast from another element type
                        let from = Ty::V(*self.rng.pick(&[Sc::I, Sc::U, Sc::F, Sc::B]), n);
                        let a = self.atom(&from, d);
                        format!("({}){}", self.ty_name(t), a)
                    }
                    8 => { let a = self.loose(t, d); self.wrap(a) }
                    9 if n > 1 => {
                        // constructor from mixed pieces
                        let tn = self.ty_name(t);
                        let mut parts = Vec::new();
                        let mut left = n;
                        while left > 0 {
                            let k = (self.rng.range(1, left.min(3) as u64)) as u8;
                            parts.push(self.expr(&Ty::V(s, k), d));
                            left -= k;
                        }
                        format!("{}({})", tn, parts.join(", "))
                    }
                    10 => {
                        // swizzle of a wider or equal vector
                        let m = self.rng.range(n.max(2) as u64, 4) as u8;
                        let src = self.atom(&Ty::V(s, m), d);
                        let set = if self.rng.chance(1, 4) { &SWZ_C } else { &SWZ };
                        let sw: String = (0..n).map(|_| set[self.rng.below(m as u64) as usize]).collect();
                        format!("{}.{}", src, sw)
                    }
                    11 | 12 => self.intrinsic(s, n, d),
                    13 | 14 => self.call(t, d),
                    15 => self.member(t, d),
                    16 => self.resource_read(t, d),
                    17 if n == 1 => {
                        let arrs: Vec<String> = self.all_arrays(t);
                        if arrs.is_empty() { self.leaf(t) } else { let a = self.rng.pick(&arrs).clone(); let i = self.expr(&Ty::V(Sc::U, 1), 0); format!("{}[{} & 1u]", a, self.wrap(i)) }
                    }
                    18 if n == 1 && s != Sc::F => {
                        // an enum value read as a number
                        if self.enums.is_empty() { return self.leaf(t); }
                        let et = Ty::Enum(self.rng.below(self.enums.len() as u64) as usize);
                        format!("({}){}", self.ty_name(t), self.leaf(&et))
                    }
                    19 if n == 1 && s == Sc::U => {
                        let tn = self.any_ty(); format!("sizeof({})", self.ty_name(&tn))
                    }
                    20 if n > 2 && s == Sc::F => {
                        let m = Ty::M(n, n);
                        // half of the products have plain operands on both sides
                        let a = self.atom(&m, d.min(1)); let b = if self.rng.chance(1, 2) { self.leaf(t) } else { self.expr(t, d) };
                        if self.rng.chance(1, 2) { format!("mul({}, {})", a, b) } else { format!("mul({}, {})", b, a) }
                    }
                    _ => self.leaf(t),
                }
            }
            Ty::M(r, c) => match self.rng.below(6) {
                0 => { let a = self.expr(t, d); let b = self.expr(t, d); format!("{} {} {}", self.wrap(a), self.rng.pick(&["+", "-", "*"]), self.wrap(b)) }
                1 if r == c => { let a = self.expr(t, d); format!("transpose({})", a) }
                _ => self.leaf(t),
            },
            Ty::Struct(_) => { if self.rng.chance(1, 2) { self.call(t, d) } else { self.leaf(t) } }
            Ty::Enum(_) => {
                if self.rng.chance(1, 5) { let c = self.expr(&Ty::V(Sc::B, 1), d); let a = self.leaf(t); let b = self.leaf(t); format!("{} ? {} : {}", self.wrap(c), a, b) }
                else if self.rng.chance(1, 5) { let a = self.expr(&Ty::V(Sc::I, 1), d); format!("({}){}", self.ty_name(t), self.wrap(a)) }
                else { self.leaf(t) }
            }
        }
    }

    /// an expression whose type converts implicitly to `t` (initialisers, right-hand sides, arguments, returned values)
    pub fn loose(&mut self, t: &Ty, depth: u32) -> String {
        if let Ty::V(s, n) = t.clone() {
            if s != Sc::B && self.rng.chance(1, 5) {
                let from = if n > 1 && self.rng.chance(1, 2) { Ty::V(s, 1) }
                           else if s == Sc::F { Ty::V(*self.rng.pick(&[Sc::I, Sc::U]), n) }
                           else { Ty::V(if s == Sc::I { Sc::U } else { Sc::I }, n) };
                return self.expr(&from, depth);
            }
        }
        self.expr(t, depth)
    }

    /// an expression that can stand as the operand of a prefix operator, cast or member access
    fn atom(&mut self, t: &Ty, depth: u32) -> String { let e = self.expr(t, depth); self.wrap(e) }

    fn wrap(&mut self, e: String) -> String {
        let simple = e.chars().all(|c| c.is_alphanumeric() || c == '_' || c == '.' || c == ':') && !e.starts_with('.') && !e.ends_with('.')
            && !e.chars().next().map(|c| c.is_ascii_digit()).unwrap_or(false);
        let call_like = e.ends_with(')') && { let mut depth = 0i32; let mut ok = true; let b = e.as_bytes(); for (i, c) in b.iter().enumerate() { if *c == b'(' { depth += 1; } if *c == b')' { depth -= 1; if depth == 0 && i + 1 != b.len() { ok = false; } } if depth == 0 && !(c.is_ascii_alphanumeric() || *c == b'_' || *c == b':' || *c == b')' || *c == b'.') { ok = false; } } ok && !e.starts_with('(') };
        if simple || call_like { e } else { format!("({})", e) }
    }

    fn nonzero(&mut self, t: &Ty) -> String {
        match t.clone() {
            Ty::V(s, 1) => match s { Sc::F => format!("{}.5", self.rng.range(1, 9)), Sc::U => format!("{}u", self.rng.range(1, 9)), _ => format!("{}", self.rng.range(1, 9)) },
            Ty::V(s, n) => { let tn = self.ty_name(t); let parts: Vec<String> = (0..n).map(|_| self.nonzero(&Ty::V(s, 1))).collect(); format!("{}({})", tn, parts.join(", ")) }
            _ => "1".into(),
        }
    }

    fn all_arrays(&self, elem: &Ty) -> Vec<String> {
        let mut out = Vec::new();
        for f in &self.locals { for v in f { if v.arr.is_some() && &v.ty == elem { out.push(v.name.clone()); } } }
        for (p, v) in &self.globals { if v.arr.is_some() && &v.ty == elem { out.push(self.refer(p)); } }
        out
    }

    fn intrinsic(&mut self, s: Sc, n: u8, d: u32) -> String {
        let t = Ty::V(s, n);
        if s == Sc::F {
            match self.rng.below(12) {
                0 => { let a = self.expr(&t, d); format!("{}({})", self.rng.pick(&["abs", "sin", "cos", "sqrt", "floor", "ceil", "frac", "saturate", "exp2", "rsqrt", "round", "trunc", "sign"]), a) }
                1 => { let a = self.expr(&t, d); let b = self.expr(&t, d); format!("{}({}, {})", self.rng.pick(&["min", "max", "pow", "step", "fmod", "atan2"]), a, b) }
                2 => { let a = self.expr(&t, d); let b = self.expr(&t, d); let c = self.expr(&t, d); format!("{}({}, {}, {})", self.rng.pick(&["lerp", "clamp", "smoothstep"]), a, b, c) }
                3 if n == 1 => { let vt = Ty::V(Sc::F, *self.rng.pick(&[2u8, 3, 4])); let a = self.expr(&vt, d); let b = self.expr(&vt, d); format!("dot({}, {})", a, b) }
                4 if n == 1 => { let vt = Ty::V(Sc::F, *self.rng.pick(&[2u8, 3, 4])); let a = self.expr(&vt, d); format!("length({})", a) }
                5 if n == 3 => { let a = self.expr(&t, d); let b = self.expr(&t, d); format!("cross({}, {})", a, b) }
                6 if n > 1 => { let a = self.expr(&t, d); format!("normalize({})", a) }
                7 => { let a = self.expr(&Ty::V(Sc::U, n), d); format!("asfloat({})", a) }
                8 if n == 1 => { let a = self.expr(&Ty::V(Sc::U, 1), d); format!("f16tof32({})", a) }
                _ => { let a = self.expr(&t, d); format!("abs({})", a) }
            }
        } else {
            match self.rng.below(8) {
                0 => { let a = self.expr(&t, d); let b = self.expr(&t, d); format!("{}({}, {})", self.rng.pick(&["min", "max"]), a, b) }
                1 => { let a = self.expr(&t, d); let b = self.expr(&t, d); let c = self.expr(&t, d); format!("clamp({}, {}, {})", a, b, c) }
                2 if s == Sc::U => { let a = self.expr(&Ty::V(Sc::F, n), d); format!("asuint({})", a) }
                3 if s == Sc::I => { let a = self.expr(&Ty::V(Sc::F, n), d); format!("asint({})", a) }
                4 if s == Sc::U => { let a = self.expr(&t, d); format!("{}({})", self.rng.pick(&["countbits", "firstbithigh", "firstbitlow", "reversebits"]), a) }
                5 if s == Sc::I => { let a = self.expr(&t, d); format!("abs({})", a) }
                6 if s == Sc::U && n == 1 => { let a = self.expr(&Ty::V(Sc::F, 1), d); format!("f32tof16({})", a) }
                _ => { let a = self.expr(&t, d); let b = self.expr(&t, d); format!("max({}, {})", a, b) }
            }
        }
    }

    fn call(&mut self, t: &Ty, d: u32) -> String {
        let cands: Vec<Func> = self.funcs.iter().filter(|f| f.ret.as_ref() == Some(t) && f.params.iter().all(|(_, dir)| *dir == 0)).cloned().collect();
        if cands.is_empty() { return self.leaf(t); }
        let f = self.rng.pick(&cands).clone();
        let args: Vec<String> = f.params.iter().map(|(pt, _)| {
            let e = if f.overloaded || f.tmpl { self.expr(pt, d.min(2)) } else { self.loose(pt, d.min(2)) };
            if f.overloaded || f.tmpl { format!("({}){}", self.ty_name(pt), self.wrap(e)) } else { e }
        }).collect();
        let mut args = args;
        if f.defaults > 0 && self.rng.chance(1, 2) { let keep = args.len() - self.rng.range(1, f.defaults as u64) as usize; args.truncate(keep); }
        let name = self.refer(&f.path);
        if f.tmpl && self.rng.chance(1, 2) { format!("{}<{}>({})", name, self.ty_name(&f.params[0].0), args.join(", ")) } else { format!("{}({})", name, args.join(", ")) }
    }

    fn member(&mut self, t: &Ty, d: u32) -> String {
        // a field or method of a struct variable
        let mut cands: Vec<String> = Vec::new();
        for (si, sd) in self.structs.clone().iter().enumerate() {
            if sd.tmpl.is_some() { continue; }
            let vs = self.vars_of(&Ty::Struct(si), false);
            for v in vs.iter().take(2) {
                for (fname, ft) in &sd.fields { if ft == t { cands.push(format!("{}.{}", v, fname)); } }
                for (mname, ps, rt) in &sd.methods {
                    if rt == t {
                        let args: Vec<String> = ps.iter().map(|p| self.expr(p, d.min(1))).collect();
                        cands.push(format!("{}.{}({})", v, mname, args.join(", ")));
                    }
                }
            }
        }
        for (cb, si) in self.cb_structs.clone() {
            for (fname, ft) in &self.structs[si].fields { if ft == t { cands.push(format!("{}.{}", cb, fname)); } }
        }
        if cands.is_empty() { self.leaf(t) } else { self.rng.pick(&cands).clone() }
    }

    fn resource_read(&mut self, t: &Ty, d: u32) -> String {
        let mut cands = Vec::new();
        let u = |g: &mut Self| { let e = g.expr(&Ty::V(Sc::U, 1), d.min(1)); g.wrap(e) };
        for r in self.res.clone() {
            let base = match r.arr { Some(_) => format!("{}[{} & 1u]", r.name, u(self)), None => r.name.clone() };
            match (r.kind, t) {
                ("Texture2D<float4>", Ty::V(Sc::F, 4)) => { let a = u(self); cands.push(format!("{}.Load(int3({}, 0, 0))", base, a)); }
                ("Texture2D<float4>s", Ty::V(Sc::F, 4)) => {}
                ("RWTexture2D<float4>", Ty::V(Sc::F, 4)) => { let a = u(self); cands.push(format!("{}[uint2({}, 1u)]", base, a)); }
                ("Texture3D<float4>", Ty::V(Sc::F, 4)) => { let a = u(self); cands.push(format!("{}.Load(int4({}, 0, 0, 0))", base, a)); }
                ("Texture2DArray<float4>", Ty::V(Sc::F, 4)) => { let a = u(self); cands.push(format!("{}.Load(int4({}, 0, 0, 0))", base, a)); }
                ("RWTexture2D<float>", Ty::V(Sc::F, 1)) => { let a = u(self); cands.push(format!("{}[uint2({}, 0u)]", base, a)); }
                ("RWTexture3D<float4>", Ty::V(Sc::F, 4)) => { let a = u(self); cands.push(format!("{}[uint3({}, 0u, 0u)]", base, a)); }
                ("ByteAddressBuffer", Ty::V(Sc::U, n)) | ("RWByteAddressBuffer", Ty::V(Sc::U, n)) => { let a = u(self); cands.push(format!("{}.Load{}({} * 4u)", base, if *n == 1 { String::new() } else { n.to_string() }, a)); }
                ("BufferAddress", Ty::V(_, _)) | ("RWBufferAddress", Ty::V(_, _)) => { let a = u(self); cands.push(format!("{}.Load<{}>({} * 16u)", base, self.ty_name(t), a)); }
                ("Buffer<uint>", Ty::V(Sc::U, 1)) | ("RWBuffer<uint>", Ty::V(Sc::U, 1)) | ("StructuredBuffer<uint>", Ty::V(Sc::U, 1)) | ("RWStructuredBuffer<uint>", Ty::V(Sc::U, 1)) => { let a = u(self); cands.push(format!("{}[{}]", base, a)); }
                ("Buffer<float4>", Ty::V(Sc::F, 4)) | ("StructuredBuffer<float4>", Ty::V(Sc::F, 4)) | ("RWStructuredBuffer<float4>", Ty::V(Sc::F, 4)) => { let a = u(self); cands.push(format!("{}[{}]", base, a)); }
                _ => {}
            }
        }
        // texture sampling
        if let Ty::V(Sc::F, 4) = t {
            let texs: Vec<Res> = self.res.iter().filter(|r| r.kind == "Texture2D<float4>" && r.arr.is_none()).cloned().collect();
            let samps: Vec<Res> = self.res.iter().filter(|r| r.kind == "SamplerState" && r.arr.is_none()).cloned().collect();
            if !texs.is_empty() && !samps.is_empty() {
                let uv = self.expr(&Ty::V(Sc::F, 2), d.min(1));
                cands.push(format!("{}.SampleLevel({}, {}, 0)", self.rng.pick(&texs).name, self.rng.pick(&samps).name, uv));
            }
        }
        if cands.is_empty() { self.leaf(t) } else { self.rng.pick(&cands).clone() }
    }

    // ---------------------------------------------------------------- statements
    fn local_name(&mut self) -> String {
        if self.rng.chance(1, 10) {
            // names that collide with what the name generator might produce for globals
            let n = *self.rng.pick(&["f_0", "g_1", "v_0", "h_0", "S_0", "x_0"]);
            let taken = self.locals.iter().flatten().any(|v| v.name == n);
            if !taken { return n.to_string(); }
        }
        self.fresh("l")
    }

    fn stmts(&mut self, depth: u32, ret: &Option<Ty>, in_loop: bool, count: u32, ind: &str, out: &mut String) {
        self.locals.push(Vec::new());
        for _ in 0..count { self.stmt(depth, ret, in_loop, ind, out); }
        self.locals.pop();
    }

    fn stmt(&mut self, depth: u32, ret: &Option<Ty>, in_loop: bool, ind: &str, out: &mut String) {
        let inner = format!("{}    ", ind);
        let r = if depth == 0 { self.rng.below(6) } else { self.rng.below(16) };
        match r {
            0 | 1 | 2 => {
                let t = self.any_ty();
                let name = self.local_name();
                let tn = self.ty_name(&t);
                if self.rng.chance(1, 8) {
                    if let Ty::V(_, 1) = t {
                        let vals: Vec<String> = (0..2).map(|_| self.expr(&t, 1)).collect();
                        *out += &format!("{}{} {}[2] = {{ {} }};\n", ind, tn, name, vals.join(", "));
                        self.locals.last_mut().unwrap().push(Var { name, ty: t, lv: true, arr: Some(2) });
                        return;
                    }
                }
                let is_const = self.rng.chance(1, 6);
                // a function-local static (it keeps its value between calls), const or not
                if self.rng.chance(1, 12) {
                    if let Ty::V(_, _) = t {
                        let e = self.const_expr(&t, 1);
                        *out += &format!("{}static {}{} {} = {};\n", ind, if is_const { "const " } else { "" }, tn, name, e);
                        self.locals.last_mut().unwrap().push(Var { name, ty: t, lv: !is_const, arr: None });
                        return;
                    }
                }
                let e = self.loose(&t, 3);
                let second = if self.rng.chance(1, 10) { let n2 = self.fresh("m"); let e2 = self.expr(&t, 1); Some((n2, e2)) } else { None };
                match &second {
                    Some((n2, e2)) => *out += &format!("{}{}{} {} = {}, {} = {};\n", ind, if is_const { "const " } else { "" }, tn, name, e, n2, e2),
                    None => *out += &format!("{}{}{} {} = {};\n", ind, if is_const { "const " } else { "" }, tn, name, e),
                }
                self.locals.last_mut().unwrap().push(Var { name, ty: t.clone(), lv: !is_const, arr: None });
                if let Some((n2, _)) = second { self.locals.last_mut().unwrap().push(Var { name: n2, ty: t, lv: !is_const, arr: None }); }
            }
            3 | 4 => {
                // assignment to a local (plain, compound, component, field)
                let t = self.num_ty();
                let vs = self.vars_of(&t, true);
                if vs.is_empty() { let e = self.expr(&t, 2); let n = self.fresh("l"); *out += &format!("{}{} {} = {};\n", ind, self.ty_name(&t), n, e); self.locals.last_mut().unwrap().push(Var { name: n, ty: t, lv: true, arr: None }); return; }
                let v = self.rng.pick(&vs).clone();
                if let Ty::V(s, n) = t {
                    if n > 1 && self.rng.chance(1, 3) {
                        let k = self.rng.range(1, n as u64) as u8;
                        let mut idx: Vec<usize> = (0..n as usize).collect();
                        for i in 0..k as usize { let j = i + self.rng.below((n as usize - i) as u64) as usize; idx.swap(i, j); }
                        let sw: String = idx[..k as usize].iter().map(|i| SWZ[*i]).collect();
                        let e = self.expr(&Ty::V(s, k), 2);
                        *out += &format!("{}{}.{} = {};\n", ind, v, sw, e);
                        return;
                    }
                    let op = if s == Sc::F { *self.rng.pick(&["=", "+=", "-=", "*="]) } else { *self.rng.pick(&["=", "+=", "-=", "*=", "&=", "|=", "^=", "<<=", ">>="]) };
                    let e = if op == "<<=" || op == ">>=" { format!("{}", self.rng.below(31)) } else if op == "=" || s == Sc::F { self.loose(&t, 3) } else { self.expr(&t, 3) };
                    *out += &format!("{}{} {} {};\n", ind, v, op, e);
                }
            }
            5 => {
                // expression statements: increments, calls with out parameters, resource writes
                match self.rng.below(4) {
                    0 => {
                        let t = Ty::V(*self.rng.pick(&[Sc::I, Sc::U]), 1);
                        let vs = self.vars_of(&t, true);
                        if let Some(v) = vs.first() { *out += &format!("{}{};\n", ind, match self.rng.below(4) { 0 => format!("{}++", v), 1 => format!("++{}", v), 2 => format!("{}--", v), _ => format!("--{}", v) }); }
                    }
                    1 => {
                        let cands: Vec<Func> = self.funcs.iter().filter(|f| f.params.iter().any(|(_, d)| *d != 0) && !f.tmpl).cloned().collect();
                        if !cands.is_empty() {
                            let f = self.rng.pick(&cands).clone();
                            let mut pre = String::new();
                            let mut args = Vec::new();
                            for (pt, dir) in &f.params {
                                if *dir == 0 { let e = self.expr(pt, 1); args.push(if f.overloaded { format!("({}){}", self.ty_name(pt), self.wrap(e)) } else { e }); }
                                else {
                                    let n = self.fresh("o");
                                    let init = self.expr(pt, 0);
                                    pre += &format!("{}{} {} = {};\n", ind, self.ty_name(pt), n, init);
                                    self.locals.last_mut().unwrap().push(Var { name: n.clone(), ty: pt.clone(), lv: true, arr: None });
                                    args.push(n);
                                }
                            }
                            *out += &pre;
                            *out += &format!("{}{}({});\n", ind, self.refer(&f.path), args.join(", "));
                        }
                    }
                    2 if !self.mutable_globals.is_empty() => {
                        let (p, t) = self.rng.pick(&self.mutable_globals.clone()).clone();
                        let shadowed = self.locals.iter().flatten().any(|v| &v.name == p.last().unwrap());
                        if !shadowed { let e = self.loose(&t, 2); let n = self.refer(&p); *out += &format!("{}{} {} {};\n", ind, n, self.rng.pick(&["=", "+=", "*="]), e); }
                    }
                    _ => self.resource_write(ind, out),
                }
            }
            6 | 7 => {
                let c = self.expr(&Ty::V(Sc::B, 1), 2);
                let attr = if self.rng.chance(1, 6) { format!("{}[{}]\n", ind, self.rng.pick(&["branch", "flatten"])) } else { String::new() };
                *out += &format!("{}{}if ({})\n{}{{\n", attr, ind, c, ind);
                self.stmts(depth - 1, ret, in_loop, 2, &inner, out);
                *out += &format!("{}}}\n", ind);
                if self.rng.chance(1, 2) {
                    if self.rng.chance(1, 3) {
                        let c2 = self.expr(&Ty::V(Sc::B, 1), 1);
                        *out += &format!("{}else if ({})\n{}{{\n", ind, c2, ind);
                        self.stmts(depth - 1, ret, in_loop, 1, &inner, out);
                        *out += &format!("{}}}\n", ind);
                    }
                    *out += &format!("{}else\n{}{{\n", ind, ind);
                    self.stmts(depth - 1, ret, in_loop, 2, &inner, out);
                    *out += &format!("{}}}\n", ind);
                }
            }
            8 | 9 => {
                let i = self.fresh("i");
                let attr = if self.rng.chance(1, 4) { format!("{}[{}]\n", ind, self.rng.pick(&["unroll", "loop", "unroll(4)"])) } else { String::new() };
                let it = *self.rng.pick(&[Sc::I, Sc::U]);
                let bound = self.rng.range(1, 9);
                let step = match self.rng.below(4) { 0 => format!("++{}", i), 1 => format!("{}++", i), 2 => format!("{} += 2", i), _ => format!("{} = {} + 1", i, i) };
                *out += &format!("{}{}for ({} {} = 0; {} < {}; {})\n{}{{\n", attr, ind, sc_name(it), i, i, bound, step, ind);
                self.locals.push(vec![Var { name: i, ty: Ty::V(it, 1), lv: false, arr: None }]);
                self.stmts(depth - 1, ret, true, 2, &inner, out);
                self.locals.pop();
                *out += &format!("{}}}\n", ind);
            }
            10 => {
                let n = self.fresh("w");
                *out += &format!("{}uint {} = {}u;\n", ind, n, self.rng.range(1, 5));
                if self.rng.chance(1, 4) {
                    // a loop that runs once: `break` and `continue` in it still belong to it
                    let c = self.expr(&Ty::V(Sc::B, 1), 1);
                    *out += &format!("{}do\n{}{{\n{}if ({})\n{}{{\n{}    {};\n{}}}\n", ind, ind, inner, c, inner, inner, self.rng.pick(&["break", "continue"]), inner);
                    self.stmts(depth - 1, ret, true, 2, &inner, out);
                    *out += &format!("{}}}\n{}while ({});\n", ind, ind, self.rng.pick(&["false", "false", "0 > 1"]));
                } else if self.rng.chance(1, 2) {
                    *out += &format!("{}while ({} > 0u)\n{}{{\n{}{}--;\n", ind, n, ind, inner, n);
                    self.stmts(depth - 1, ret, true, 1, &inner, out);
                    *out += &format!("{}}}\n", ind);
                } else {
                    *out += &format!("{}do\n{}{{\n{}{} -= 1u;\n", ind, ind, inner, n);
                    self.stmts(depth - 1, ret, true, 1, &inner, out);
                    *out += &format!("{}}}\n{}while ({} > 0u);\n", ind, ind, n);
                }
                self.locals.last_mut().unwrap().push(Var { name: n, ty: Ty::V(Sc::U, 1), lv: false, arr: None });
            }
            11 => {
                let st = *self.rng.pick(&[Sc::I, Sc::U]);
                let sel = self.expr(&Ty::V(st, 1), 2);
                *out += &format!("{}switch ({})\n{}{{\n", ind, sel, ind);
                let mut used = Vec::new();
                for _ in 0..self.rng.range(1, 3) {
                    let k = self.rng.below(8);
                    if used.contains(&k) { continue; }
                    used.push(k);
                    // the arm is a block or a flat run of statements; it ends in `break` or in a `return`
                    let flat = self.rng.chance(1, 2);
                    let in2 = format!("{}    ", inner);
                    if flat { *out += &format!("{}case {}:\n", inner, k); } else { *out += &format!("{}case {}:\n{}{{\n", inner, k, inner); }
                    self.locals.push(Vec::new());
                    self.stmts(depth - 1, ret, in_loop, 1, &in2, out);
                    if self.rng.chance(1, 3) {
                        match ret { Some(t) => { let e = self.expr(t, 1); *out += &format!("{}return {};\n", in2, e); } None => *out += &format!("{}return;\n", in2) }
                    } else {
                        *out += &format!("{}break;\n", in2);
                    }
                    self.locals.pop();
                    if !flat { *out += &format!("{}}}\n", inner); }
                }
                if self.rng.chance(2, 3) {
                    *out += &format!("{}default:\n{}{{\n", inner, inner);
                    let in2 = format!("{}    ", inner);
                    self.stmts(depth - 1, ret, in_loop, 1, &in2, out);
                    *out += &format!("{}break;\n{}}}\n", in2, inner);
                }
                *out += &format!("{}}}\n", ind);
            }
            12 => {
                *out += &format!("{}{{\n", ind);
                self.stmts(depth - 1, ret, in_loop, 2, &inner, out);
                *out += &format!("{}}}\n", ind);
            }
            13 if in_loop => {
                let c = self.expr(&Ty::V(Sc::B, 1), 1);
                *out += &format!("{}if ({})\n{}{{\n{}{};\n{}}}\n", ind, c, ind, inner, self.rng.pick(&["break", "continue"]), ind);
            }
            14 => {
                // early return under a condition
                let c = self.expr(&Ty::V(Sc::B, 1), 1);
                match ret { Some(t) => { let e = self.expr(t, 2); *out += &format!("{}if ({})\n{}{{\n{}return {};\n{}}}\n", ind, c, ind, inner, e, ind); }
                            None => *out += &format!("{}if ({})\n{}{{\n{}return;\n{}}}\n", ind, c, ind, inner, ind) }
            }
            _ => {
                // struct local and field write
                let cands: Vec<usize> = (0..self.structs.len()).filter(|i| self.structs[*i].tmpl.is_none()).collect();
                if cands.is_empty() { return; }
                let si = *self.rng.pick(&cands);
                let n = self.fresh("s");
                let tn = self.ty_name(&Ty::Struct(si));
                *out += &format!("{}{} {} = ({})0;\n", ind, tn, n, tn);
                self.locals.last_mut().unwrap().push(Var { name: n.clone(), ty: Ty::Struct(si), lv: true, arr: None });
                let fields = self.structs[si].fields.clone();
                if let Some((f, ft)) = fields.first() { let e = self.expr(ft, 2); *out += &format!("{}{}.{} = {};\n", ind, n, f, e); }
            }
        }
    }

    fn resource_write(&mut self, ind: &str, out: &mut String) {
        let ws: Vec<Res> = self.res.iter().filter(|r| r.kind.starts_with("RW") && r.arr.is_none()).cloned().collect();
        if ws.is_empty() { return; }
        let r = self.rng.pick(&ws).clone();
        let i = { let e = self.expr(&Ty::V(Sc::U, 1), 1); self.wrap(e) };
        match r.kind {
            "RWTexture2D<float4>" => { let e = self.expr(&Ty::V(Sc::F, 4), 2); *out += &format!("{}{}[uint2({}, 0u)] = {};\n", ind, r.name, i, e); }
            "RWTexture2D<float>" => { let e = self.expr(&Ty::V(Sc::F, 1), 2); *out += &format!("{}{}[uint2({}, 0u)] = {};\n", ind, r.name, i, e); }
            "RWTexture3D<float4>" => { let e = self.expr(&Ty::V(Sc::F, 4), 2); *out += &format!("{}{}[uint3({}, 0u, 0u)] = {};\n", ind, r.name, i, e); }
            "RWByteAddressBuffer" => {
                if self.rng.chance(1, 2) { let e = self.expr(&Ty::V(Sc::U, 1), 2); *out += &format!("{}{}.Store({} * 4u, {});\n", ind, r.name, i, e); }
                else { let o = self.fresh("o"); let e = self.expr(&Ty::V(Sc::U, 1), 1); *out += &format!("{}uint {} = 0u;\n{}{}.InterlockedAdd({} * 4u, {}, {});\n", ind, o, ind, r.name, i, e, o); self.locals.last_mut().unwrap().push(Var { name: o, ty: Ty::V(Sc::U, 1), lv: true, arr: None }); }
            }
            "RWBufferAddress" => { let t = self.num_ty(); let e = self.expr(&t, 2); *out += &format!("{}{}.Store<{}>({} * 16u, {});\n", ind, r.name, self.ty_name(&t), i, e); }
            "RWBuffer<uint>" | "RWStructuredBuffer<uint>" => { let e = self.expr(&Ty::V(Sc::U, 1), 2); *out += &format!("{}{}[{}] = {};\n", ind, r.name, i, e); }
            "RWStructuredBuffer<float4>" => { let e = self.expr(&Ty::V(Sc::F, 4), 2); *out += &format!("{}{}[{}] = {};\n", ind, r.name, i, e); }
            _ => {}
        }
    }

    // ---------------------------------------------------------------- declarations
    fn path_of(&self, name: &str) -> Vec<String> { let mut p = self.scope.clone(); p.push(name.to_string()); p }

    fn global_name(&mut self, stem: &str) -> String {
        // names are sometimes shared between namespaces (never inside one scope); sharing is only among the fixed pool
        if !self.scope.is_empty() && self.rng.chance(1, 3) {
            let n = format!("{}{}", stem, self.rng.below(2));
            let p = self.path_of(&n);
            let taken = self.globals.iter().any(|(q, _)| *q == p) || self.funcs.iter().any(|f| f.path == p) || self.structs.iter().any(|s| s.path == p) || self.enums.iter().any(|e| e.path == p);
            // a shared name must not hide an outer item that later code in this scope wants to reach by plain name:
            // outer items are always reached through their own namespace path, the global scope never uses the pool
            if !taken { return n; }
        }
        self.fresh(stem)
    }

    fn decl_struct(&mut self, out: &mut String, ind: &str) {
        let name = self.global_name("S");
        let nf = self.rng.range(1, 4);
        let mut fields = Vec::new();
        let mut body = String::new();
        for i in 0..nf {
            let t = if self.rng.chance(1, 8) { self.any_ty() } else { self.num_ty() };
            let fname = format!("m{}", i);
            let interp = if !self.pure && self.rng.chance(1, 12) { *self.rng.pick(&["nointerpolation ", "linear ", "centroid ", "noperspective "]) } else { "" };
            let sem = if !self.pure && self.rng.chance(1, 8) { format!(" : TEXCOORD{}", i) } else { String::new() };
            if self.rng.chance(1, 10) { if let Ty::V(_, 1) = t { body += &format!("{}    {} a{}[2];\n", ind, self.ty_name(&t), i); } }
            body += &format!("{}    {}{} {}{};\n", ind, interp, self.ty_name(&t), fname, sem);
            fields.push((fname, t));
        }
        let mut methods = Vec::new();
        if self.rng.chance(1, 3) {
            let rt = fields[0].1.clone();
            let pt = self.num_ty();
            let mname = format!("get{}", self.rng.below(3));
            let saved = std::mem::replace(&mut self.locals, vec![vec![Var { name: "p".into(), ty: pt.clone(), lv: true, arr: None }]]);
            self.this_fields = fields.clone();
            let mut b = String::new();
            self.stmts(1, &Some(rt.clone()), false, 1, &format!("{}        ", ind), &mut b);
            let e = self.expr(&rt, 2);
            self.this_fields.clear();
            self.locals = saved;
            body += &format!("{}    {} {}({} p)\n{}    {{\n{}{}        return {};\n{}    }}\n", ind, self.ty_name(&rt), mname, self.ty_name(&pt), ind, b, ind, e, ind);
            methods.push((mname, vec![pt], rt));
        }
        *out += &format!("{}struct {}\n{}{{\n{}{}}};\n\n", ind, name, ind, body, ind);
        let path = self.path_of(&name);
        self.structs.push(StructDef { path, fields, methods, tmpl: None });
    }

    fn decl_struct_template(&mut self, out: &mut String, ind: &str) {
        let name = self.fresh("Box");
        *out += &format!("{}template<typename T>\n{}struct {}\n{}{{\n{}    T v;\n{}    T get() {{ return v; }}\n{}    void set(T nv) {{ v = nv; }}\n{}}};\n\n", ind, ind, name, ind, ind, ind, ind, ind);
        let path = self.path_of(&name);
        self.structs.push(StructDef { path, fields: vec![], methods: vec![], tmpl: Some(Sc::F) });
    }

    fn decl_enum(&mut self, out: &mut String, ind: &str) {
        let name = self.global_name("E");
        let n = self.rng.range(1, 5);
        let mut values = Vec::new();
        let mut body = Vec::new();
        for _ in 0..n {
            let v = self.fresh("K");
            body.push(match self.rng.below(4) { 0 => format!("{} = {}", v, self.rng.below(100)), 1 => format!("{} = 0x{:x}", v, self.rng.below(4096)), _ => v.clone() });
            values.push(v);
        }
        let scoped = false; // `enum class` is not part of the language
        *out += &format!("{}enum {}{}\n{}{{\n{}    {}\n{}}};\n\n", ind, if scoped { "class " } else { "" }, name, ind, ind, body.join(&format!(",\n{}    ", ind)), ind);
        let path = self.path_of(&name);
        self.enums.push(EnumDef { path, values, scoped });
    }

    fn decl_global(&mut self, out: &mut String, ind: &str) {
        let t = self.num_ty();
        let name = self.global_name("k");
        let tn = self.ty_name(&t);
        match self.rng.below(6) {
            5 => {
                // a mutable static: functions read and write it
                let saved = std::mem::take(&mut self.locals);
                let e = self.const_expr(&t, 1);
                self.locals = saved;
                *out += &format!("{}static {} {} = {};\n\n", ind, tn, name, e);
                let p = self.path_of(&name);
                self.globals.push((p.clone(), Var { name: name.clone(), ty: t.clone(), lv: true, arr: None }));
                self.mutable_globals.push((p, t));
            }
            0 if self.scope.is_empty() => {
                *out += &format!("{}groupshared {} {}[4];\n\n", ind, tn, name);
                // groupshared is written by entry points only; leave it out of the readable set to keep values defined
            }
            1 => {
                if let Ty::V(s, 1) = t {
                    let vals: Vec<String> = (0..3).map(|_| self.literal(s)).collect();
                    *out += &format!("{}static const {} {}[3] = {{ {} }};\n\n", ind, tn, name, vals.join(", "));
                    let p = self.path_of(&name);
                    self.globals.push((p, Var { name, ty: t, lv: false, arr: Some(3) }));
                }
            }
            _ => {
                let saved = std::mem::take(&mut self.locals);
                let e = self.const_expr(&t, 2);
                self.locals = saved;
                *out += &format!("{}static const {} {} = {};\n\n", ind, tn, name, e);
                let p = self.path_of(&name);
                self.globals.push((p, Var { name, ty: t, lv: false, arr: None }));
            }
        }
    }

    /// expressions over literals only (initialisers of static const globals)
    fn const_expr(&mut self, t: &Ty, depth: u32) -> String {
        match t.clone() {
            Ty::V(s, 1) if depth > 0 && self.rng.chance(2, 3) => {
                let a = self.const_expr(t, depth - 1); let b = self.const_expr(t, depth - 1);
                let ops: &[&str] = if s == Sc::F { &["+", "-", "*"] } else { &["+", "*", "&", "|", "^"] };
                format!("{} {} {}", self.wrap(a), self.rng.pick(ops), self.wrap(b))
            }
            Ty::V(s, 1) => self.literal(s),
            Ty::V(s, n) => { let parts: Vec<String> = (0..n).map(|_| self.const_expr(&Ty::V(s, 1), depth.min(1))).collect(); format!("{}({})", self.ty_name(t), parts.join(", ")) }
            _ => self.leaf(t),
        }
    }

    fn decl_function(&mut self, out: &mut String, ind: &str) {
        // sometimes a second overload of an existing function of this scope
        let same_scope: Vec<Func> = self.funcs.iter().filter(|f| f.path[..f.path.len() - 1] == self.scope[..] && !f.tmpl && f.params.len() == 1).cloned().collect();
        let (name, overload_of) = if !same_scope.is_empty() && self.rng.chance(1, 4) { let f = self.rng.pick(&same_scope).clone(); (f.path.last().unwrap().clone(), Some(f)) } else { (self.global_name("f"), None) };
        let ret = if self.rng.chance(1, 8) { None } else { Some(if self.rng.chance(1, 10) { self.any_ty() } else { self.num_ty() }) };
        let mut params: Vec<(Ty, u8)> = Vec::new();
        match &overload_of {
            Some(f) => {
                // differ in the element type of the single parameter
                let alt = match &f.params[0].0 { Ty::V(Sc::F, n) => Ty::V(Sc::I, *n), Ty::V(Sc::I, n) => Ty::V(Sc::U, *n), Ty::V(_, n) => Ty::V(Sc::F, *n), o => o.clone() };
                if self.funcs.iter().any(|g| g.path == f.path && g.params.first().map(|p| &p.0) == Some(&alt)) || alt == f.params[0].0 { return; }
                params.push((alt, 0));
            }
            None => {
                for _ in 0..self.rng.below(4) {
                    let t = if self.rng.chance(1, 10) { self.any_ty() } else { self.num_ty() };
                    let dir = if let Ty::V(_, _) = t { *self.rng.pick(&[0u8, 0, 0, 0, 1, 2]) } else { 0 };
                    params.push((t, dir));
                }
            }
        }
        // trailing scalar `in` parameters may have a default value
        let mut n_defaults = 0usize;
        if overload_of.is_none() && self.rng.chance(1, 4) {
            for (t, dir) in params.iter().rev() { if *dir == 0 && matches!(t, Ty::V(_, 1)) { n_defaults += 1; } else { break; } }
            n_defaults = n_defaults.min(2);
        }
        let mut frame = Vec::new();
        let mut ps = Vec::new();
        for (i, (t, dir)) in params.iter().enumerate() {
            let pn = format!("p{}", i);
            let d = match dir { 1 => "out ", 2 => "inout ", _ => if self.rng.chance(1, 8) { "in " } else { "" } };
            let dflt = if i + n_defaults >= params.len() { if let Ty::V(sk, 1) = t { format!(" = {}", self.literal(*sk)) } else { String::new() } } else { String::new() };
            ps.push(format!("{}{} {}{}", d, self.ty_name(t), pn, dflt));
            frame.push(Var { name: pn, ty: t.clone(), lv: true, arr: None });
        }
        let saved = std::mem::replace(&mut self.locals, vec![frame]);
        let mut body = String::new();
        let inner = format!("{}    ", ind);
        // out parameters are written first
        for (i, (t, dir)) in params.iter().enumerate() { if *dir == 1 { let e = self.leaf(t); body += &format!("{}p{} = {};\n", inner, i, e); } }
        let n = self.rng.range(1, 4) as u32;
        self.locals.push(Vec::new());
        for _ in 0..n { self.stmt(2, &ret, false, &inner, &mut body); }
        if let Some(t) = &ret { let e = self.loose(t, 3); body += &format!("{}return {};\n", inner, e); }
        self.locals = saved;
        let rn = match &ret { Some(t) => self.ty_name(t), None => "void".into() };
        *out += &format!("{}{} {}({})\n{}{{\n{}{}}}\n\n", ind, rn, name, ps.join(", "), ind, body, ind);
        let path = self.path_of(&name);
        if overload_of.is_some() { for f in self.funcs.iter_mut() { if f.path == path { f.overloaded = true; } } }
        self.funcs.push(Func { path, params, ret, overloaded: overload_of.is_some(), tmpl: false, defaults: n_defaults });
    }

    fn decl_function_template(&mut self, out: &mut String, ind: &str) {
        let name = self.fresh("pick");
        *out += &format!("{}template<typename T>\n{}T {}(T a, T b)\n{}{{\n{}    return a;\n{}}}\n\n", ind, ind, name, ind, ind, ind);
        // registered once per element type it is used at
        let path = self.path_of(&name);
        for s in [Sc::F, Sc::I, Sc::U] {
            let t = Ty::V(s, *self.rng.pick(&[1u8, 3]));
            self.funcs.push(Func { path: path.clone(), params: vec![(t.clone(), 0), (t.clone(), 0)], ret: Some(t), overloaded: false, tmpl: true, defaults: 0 });
        }
    }

    fn reg(&mut self, class: char) -> String {
        if !self.rng.chance(1, 3) { return String::new(); }
        let space = if self.rng.chance(1, 3) { self.rng.range(1, 3) as u32 } else { 0 };
        let mut slot = self.rng.below(12) as u32 + 20;
        while self.used_regs.contains(&(class, slot, space)) { slot += 1; }
        self.used_regs.push((class, slot, space));
        if space == 0 && self.rng.chance(1, 2) { format!(" : register({}{})", class, slot) } else { format!(" : register({}{}, space{})", class, slot, space) }
    }

    fn decl_resource(&mut self, out: &mut String) {
        const KINDS: &[(&str, char)] = &[
            ("Texture2D<float4>", 't'), ("Texture2D<float4>", 't'), ("RWTexture2D<float4>", 'u'), ("RWTexture2D<float>", 'u'), ("Texture3D<float4>", 't'), ("RWTexture3D<float4>", 'u'),
            ("Texture2DArray<float4>", 't'), ("TextureCube<float4>", 't'), ("TextureCubeArray<float4>", 't'), ("RWTexture2DArray<float4>", 'u'),
            ("ByteAddressBuffer", 't'), ("RWByteAddressBuffer", 'u'), ("BufferAddress", 't'), ("RWBufferAddress", 'u'),
            ("Buffer<uint>", 't'), ("Buffer<float4>", 't'), ("RWBuffer<uint>", 'u'), ("StructuredBuffer<uint>", 't'), ("StructuredBuffer<float4>", 't'),
            ("RWStructuredBuffer<uint>", 'u'), ("RWStructuredBuffer<float4>", 'u'), ("SamplerState", 's'), ("SamplerState", 's'), ("SamplerComparisonState", 's'),
            ("RaytracingAccelerationStructure", 't'),
        ];
        let (kind, class) = *self.rng.pick(KINDS);
        let name = self.fresh("g_r");
        let arr = if self.rng.chance(1, 8) && !kind.contains("Address") { Some(2u32) } else { None };
        let attr = if self.rng.chance(1, 4) { format!("[[rssl::bind_group({})]] ", self.rng.below(3)) } else { String::new() };
        let reg = if arr.is_none() { self.reg(class) } else { String::new() };
        *out += &format!("{}{} {}{}{};\n\n", attr, kind, name, arr.map(|n| format!("[{}]", n)).unwrap_or_default(), reg);
        self.res.push(Res { name, kind, arr });
    }

    fn decl_cbuffer(&mut self, out: &mut String) {
        if self.rng.chance(1, 3) && self.structs.iter().any(|s| s.tmpl.is_none() && s.path.len() == 1) {
            // ConstantBuffer<S>
            let cands: Vec<usize> = (0..self.structs.len()).filter(|i| self.structs[*i].tmpl.is_none() && self.structs[*i].path.len() == 1 && self.structs[*i].fields.iter().all(|(_, t)| matches!(t, Ty::V(Sc::I | Sc::U | Sc::F, _)))).collect();
            if cands.is_empty() { return; }
            let si = *self.rng.pick(&cands);
            let name = self.fresh("g_cb");
            let reg = self.reg('b');
            *out += &format!("ConstantBuffer<{}> {}{};\n\n", self.ty_name(&Ty::Struct(si)), name, reg);
            self.cb_structs.push((name, si));
            return;
        }
        let name = self.fresh("cb");
        let reg = self.reg('b');
        let attr = if self.rng.chance(1, 4) { format!("[[rssl::bind_group({})]] ", self.rng.below(3)) } else { String::new() };
        let mut body = String::new();
        for _ in 0..self.rng.range(1, 4) {
            let t = self.num_ty();
            let m = self.fresh("c_");
            body += &format!("    {} {};\n", self.ty_name(&t), m);
            self.globals.push((vec![m.clone()], Var { name: m, ty: t, lv: false, arr: None }));
        }
        *out += &format!("{}cbuffer {}{}\n{{\n{}}}\n\n", attr, name, reg, body);
    }

    fn decl_namespace(&mut self, out: &mut String, ind: &str, depth: u32) {
        // top-level namespaces come from a small pool (so they are reopened); nested ones are unique, which keeps
        // every relative path unambiguous
        let name = if self.scope.is_empty() && self.rng.chance(1, 2) { format!("N{}", self.rng.below(3)) } else { self.fresh("Q") };
        // reopening a namespace is allowed; nested items are reached by their path
        self.scope.push(name.clone());
        *out += &format!("{}namespace {}\n{}{{\n\n", ind, name, ind);
        let n = self.rng.range(1, 5);
        for _ in 0..n { self.decl_scoped(out, ind, depth); }
        *out += &format!("{}}}\n\n", ind);
        self.scope.pop();
    }

    fn decl_scoped(&mut self, out: &mut String, ind: &str, depth: u32) {
        match self.rng.below(12) {
            0 | 1 => self.decl_struct(out, ind),
            2 => self.decl_enum(out, ind),
            3 | 4 => self.decl_global(out, ind),
            5 | 6 | 7 | 8 => self.decl_function(out, ind),
            9 if depth > 0 => self.decl_namespace(out, ind, depth - 1),
            10 => self.decl_function_template(out, ind),
            _ => self.decl_function(out, ind),
        }
    }

    fn decl_entry(&mut self, out: &mut String) {
        let name = self.fresh("Entry");
        match self.rng.below(4) {
            0 | 1 => {
                let (x, y, z) = (self.rng.range(1, 8), self.rng.range(1, 4), 1);
                let mut body = String::new();
                self.locals = vec![vec![Var { name: "id".into(), ty: Ty::V(Sc::U, 3), lv: true, arr: None }]];
                self.locals.push(Vec::new());
                for _ in 0..self.rng.range(2, 6) { self.stmt(3, &None, false, "    ", &mut body); }
                self.locals.clear();
                *out += &format!("[numthreads({}, {}, {})]\nvoid {}(uint3 id : SV_DispatchThreadID)\n{{\n{}}}\n\n", x, y, z, name, body);
                self.entry_points.push((name, "ComputeShader"));
            }
            2 => {
                let mut body = String::new();
                self.locals = vec![vec![Var { name: "vid".into(), ty: Ty::V(Sc::U, 1), lv: true, arr: None }, Var { name: "uv".into(), ty: Ty::V(Sc::F, 2), lv: true, arr: None }]];
                self.locals.push(Vec::new());
                for _ in 0..self.rng.range(1, 4) { self.stmt(2, &Some(Ty::V(Sc::F, 4)), false, "    ", &mut body); }
                let e = self.expr(&Ty::V(Sc::F, 4), 3);
                self.locals.clear();
                *out += &format!("float4 {}(uint vid : SV_VertexID, float2 uv : TEXCOORD0) : SV_Position\n{{\n{}    return {};\n}}\n\n", name, body, e);
                self.entry_points.push((name, "VertexShader"));
            }
            _ => {
                let mut body = String::new();
                self.locals = vec![vec![Var { name: "pos".into(), ty: Ty::V(Sc::F, 4), lv: true, arr: None }, Var { name: "uv".into(), ty: Ty::V(Sc::F, 2), lv: true, arr: None }]];
                self.locals.push(Vec::new());
                for _ in 0..self.rng.range(1, 4) { self.stmt(2, &Some(Ty::V(Sc::F, 4)), false, "    ", &mut body); }
                if self.rng.chance(1, 4) { body += "    if (uv.x < 0.0)\n    {\n        discard;\n    }\n"; }
                let e = self.expr(&Ty::V(Sc::F, 4), 3);
                self.locals.clear();
                *out += &format!("float4 {}(float4 pos : SV_Position, {}float2 uv : TEXCOORD0) : SV_Target0\n{{\n{}    return {};\n}}\n\n", name, if self.rng.chance(1, 4) { "noperspective " } else { "" }, body, e);
                self.entry_points.push((name, "PixelShader"));
            }
        }
    }

    pub fn program_pure(&mut self, size: u32) -> String {
        let mut out = String::new();
        if self.rng.chance(1, 6) { out += "typedef float4 Color4;\n\n"; }
        for _ in 0..size {
            match self.rng.below(12) {
                0 | 1 => self.decl_namespace(&mut out, "", 2),
                _ => self.decl_scoped(&mut out, "", 2),
            }
        }
        out
    }

    pub fn program(&mut self, size: u32) -> String {
        let mut out = String::new();
        if self.rng.chance(1, 6) { out += "typedef float4 Color4;\n\n"; }
        for _ in 0..size {
            match self.rng.below(16) {
                0 | 1 | 2 | 3 => self.decl_resource(&mut out),
                4 | 5 => self.decl_cbuffer(&mut out),
                6 | 7 => self.decl_namespace(&mut out, "", 2),
                8 if self.struct_templates => self.decl_struct_template(&mut out, ""),
                _ => self.decl_scoped(&mut out, "", 2),
            }
        }
        // struct-template uses live in a helper
        let boxes: Vec<StructDef> = self.structs.iter().filter(|s| s.tmpl.is_some()).cloned().collect();
        for b in boxes.iter().take(2) {
            let t = self.num_ty();
            let f = self.fresh("usebox");
            let e = self.expr(&t, 2);
            let tn = self.ty_name(&t);
            let bn = self.refer(&b.path);
            out += &format!("{} {}()\n{{\n    {}<{}> b;\n    b.set({});\n    b.v = b.get();\n    return b.v;\n}}\n\n", tn, f, bn, tn, e);
            self.funcs.push(Func { path: vec![f], params: vec![], ret: Some(t), overloaded: false, tmpl: false, defaults: 0 });
        }
        for _ in 0..self.rng.range(1, 3) { self.decl_entry(&mut out); }
        if self.rng.chance(1, 3) {
            if let Some((n, k)) = self.entry_points.iter().find(|(_, k)| *k == "ComputeShader") { out += &format!("Pipeline Main\n{{\n    {} = {};\n}}\n", k, n); }
        }
        out
    }
}

pub fn generate(seed: u64, size: u32) -> String {
    let mut rng = Rng::new(seed);
    let mut g = Gen::new(&mut rng);
    g.program(size)
}

/// the executable, resource-free subset (C01 / C02): no resources, no constant buffers, no entry points
pub fn generate_pure(seed: u64, size: u32) -> String {
    let mut rng = Rng::new(seed);
    let mut g = Gen::new(&mut rng);
    g.pure = true;
    g.program_pure(size)
}
