//! C07: compilation is deterministic.  Case: D <program> <target> <nopipe 0|1>
//! The program is compiled 8 times in this process (every hash container gets a new random state) and in 2 fresh
//! processes; every run must give the same bytes, metadata, stages and diagnostics.
//! Output: SAME <digest> <kind> | DIFF <what>
use crate::common::*;
use crate::probe::compile_src;

const P_NAMES: &str = "namespace A { int v; int f(int x) { return x; } int f(float x) { return 1; } struct S { int m; }; }\nnamespace B { int v; int f(int x) { return x + 1; } int f(float x) { return 2; } struct S { int m; }; namespace C { int v; float f(float q) { return q; } float f(int q) { return q; } } int h() { return (int)C::f(1) + (int)C::f(1.0f) + C::v; } }\nnamespace D { int v; int g(int x) { return x; } int g(uint x) { return 3; } }\nint v; int f(int x) { return x; } int f(uint x) { return 0; } int f_0; int g_1; int abs_0;\nenum E0 { EA, EB = 5, EC, ED = -3, EE };\nenum E1 { FA = 4000000000, FB, FC };\nvoid use() { int a = A::f(1) + A::f(1.0) + B::f(2) + B::f(2.0) + B::h() + D::g((int)1) + D::g(1u) + f((int)1) + f(1u) + A::v + B::v + D::v + v + f_0 + g_1 + abs_0 + (int)EC + (int)FB; int f_1 = a; int v_0 = f_1; A::S s; B::S t; s.m = t.m + v_0; }\n";

const P_GROUPS: &str = "struct S0 { uint m; };\n[[rssl::bind_group(0)]] BufferAddress a0;\n[[rssl::bind_group(1)]] BufferAddress a1;\n[[rssl::bind_group(1)]] RWBufferAddress a2;\n[[rssl::bind_group(2)]] BufferAddress a3;\n[[rssl::bind_group(3)]] RWBufferAddress a4;\n[[rssl::bind_group(3)]] BufferAddress a5;\n[[rssl::bind_group(4)]] BufferAddress a6;\n[[rssl::bind_group(2)]] Texture2D<float4> t0;\n[[rssl::bind_group(0)]] StructuredBuffer<S0> s0;\n[[rssl::bind_group(4)]] cbuffer c0 { uint k0; uint k1; }\n[numthreads(1, 1, 1)] void CSMAIN() { uint x = a0.Load<uint>(0) + a1.Load<uint>(0) + a3.Load<uint>(4) + a5.Load<uint>(0) + a6.Load<uint>(0) + k0 + k1 + s0[0].m + (uint)t0.Load(int3(0, 0, 0)).x; a2.Store<uint>(0, x); a4.Store<uint>(0, x); }\nPipeline Main { ComputeShader = CSMAIN; DefaultBindGroup = 0; }\n";

const P_GLOBALS: &str = "struct S0 { uint m; float4 v; };\nTexture2D<float4> t0; Texture2D<float4> t1; RWTexture2D<float4> u0; RWTexture2D<float> u1; Texture2DArray<float4> ta; Texture3D<float4> t3; StructuredBuffer<S0> sb; RWStructuredBuffer<S0> rsb; ByteAddressBuffer bab; RWByteAddressBuffer rbab; SamplerState ss; SamplerComparisonState sc; Buffer<uint> tb; RWBuffer<uint> rtb;\ncbuffer cb0 { float4 c0; uint c1; } cbuffer cb1 { float4 c2; }\nstatic const uint KK = 3; groupshared uint gs[4];\nuint h0() { uint w, h; t0.GetDimensions(w, h); uint w1, h1; u0.GetDimensions(w1, h1); uint n, st; sb.GetDimensions(n, st); uint n2, st2; rsb.GetDimensions(n2, st2); uint bl; bab.GetDimensions(bl); uint bl2; rbab.GetDimensions(bl2); uint w3, h3, e3; ta.GetDimensions(w3, h3, e3); uint a3, b3, c3; t3.GetDimensions(a3, b3, c3); return w + h + w1 + h1 + n + st + n2 + bl + bl2 + w3 + a3 + WaveGetLaneCount() + WaveGetLaneIndex(); }\nfloat4 h1(float2 uv) { return t0.Sample(ss, uv) + t1.SampleLevel(ss, uv, 0) + t0.Load(int3(0, 0, 0)) + u0[uint2(0, 0)] + ta.Sample(ss, float3(uv, 0)) + c0 + c2 + c0 + float4(bab.Load(0), bab.Load2(0).y, rbab.Load3(0).z, bab.Load4(0).w); }\nuint h2(uint i) { gs[i & 3] = tb[i] + KK; rtb[i] = gs[0]; uint o; rbab.InterlockedAdd(0, 1, o); S0 tmp = rsb[i]; tmp.m = o + h0(); rsb[i] = tmp; u1[uint2(i, i)] = 1.0; return tmp.m + WaveActiveSum(i) + WaveReadLaneFirst(i); }\n[numthreads(8, 8, 1)] void CSMAIN(uint3 id : SV_DispatchThreadID) { float4 r = h1(float2(id.xy)); u0[id.xy] = r + (float)h2(id.x) + (float)h0(); }\nPipeline Main { ComputeShader = CSMAIN; }\n";

const P_TEMPLATES: &str = "template<typename T, typename U> T pick(T a, U b) { return a; }\nenum Q { QA, QB, QC, QD, QE, QF };\nfloat t0() { return pick<float, int>(1.0f, 2) + pick<int, float>(1, 2.0f) + pick<float, uint>(1.0f, 2u) + (float)(int)QC; }\n";

// literals of every type with whole, fractional and extreme values, each used in an expression of its type
const P_LITERALS: &str = "half lh(half x) { half one = 1.0h; return x * 2.0h + 0.5h + one + 65504.0h + 0.0h - 3.0h; }\nfloat lf(float x) { float one = 1.0f; return x * 2.0f + 0.5f + one + 16777216.0f + 1e10f - 3.0f + 1.5e-3f; }\ndouble ld(double x) { double one = 1.0L; return x * 2.0L + 0.5L + one + 1e300L; }\nint li(int x) { return x * 2 + 2147483647 - 1 + 0 + (-5); }\nuint lu(uint x) { return x * 2u + 4294967295u + 0u; }\nbool lb(bool x) { return x && true || false; }\nhalf3 lhv(half3 v) { return v * half3(1.0h, 2.0h, 0.25h) + 4.0h; }\nfloat run() { return (float)lh(1.0h) + lf(2.0f) + (float)ld(3.0L) + (float)li(4) + (float)lu(5u) + (lb(true) ? 1.0f : 0.0f) + (float)lhv(half3(1.0h, 1.0h, 1.0h)).x; }\n";

// a comma expression, a conditional and an assignment in every position an expression can stand in
const P_POSITIONS: &str = "int two(int a, int b) { return a + b; }\nint pos(int x) {\n    int y = (x, x + 1);\n    int z[2] = { (x, y), (y = 3) };\n    int w = x ? y : 2, v = (x, 4);\n    int a[3];\n    a[(x, 1)] = two((x, y), (y, x));\n    a[x ? 0 : 2] = (x = 2, x);\n    for (int i = (x, 0), j = 1; (i < 2, j < 3); i++, j += (x, 1)) { w += (i, j); }\n    if ((x, y) > 0) { v = (w, v); }\n    while ((x--, x > 0)) { w++; }\n    switch ((x, y)) { case 1: w = (1, 2); break; default: break; }\n    return (w, v + a[1] + z[0]);\n}\n";

const P_ERR_A: &str = "namespace A { int v; }\nnamespace B { int v; }\nvoid f() { int x = A::v + B::w; }\n";
// diagnostics computed from the values of an enum (kept in a hash map while the enum is open): a range no type holds,
// a repeated value name, values after a value that is out of range
const P_ERR_ENUM: &str = "enum Range { Lowest = -5, Low = -1, Mid = 7, High = 100000, Highest = 3000000000 };\nvoid main() {}\n";
const P_ERR_ENUM2: &str = "enum Big { A = 4294967295, B, C = -1, D = -2 };\nvoid main() {}\n";
const P_ERR_B: &str = "struct S { int a; };\nS g; Texture2D<float4> t;\nvoid f() { float3 v = g; t.Nope(); }\n";

// several buffer element types whose HLSL and Metal layouts differ: with layout validation on, which one is reported
// must not depend on the order of a hash container
const P_LAYOUT: &str = "struct Particle { float3 position; float life; float3 velocity; };\nstruct Light { float3 direction; };\nstruct Probe { float3 a; float b; };\nstruct Cell { float2 uv; float3 n; };\nstruct Edge { float3 from; float3 to; uint id; };\nStructuredBuffer<Particle> g_particles;\nStructuredBuffer<Light> g_lights;\nStructuredBuffer<Probe> g_probes;\nRWStructuredBuffer<Cell> g_cells;\nStructuredBuffer<Edge> g_edges;\nRWByteAddressBuffer g_out;\n[numthreads(1, 1, 1)] void CSMAIN(uint3 id : SV_DispatchThreadID) { Cell c; c.uv = float2(0, 0); c.n = g_lights[id.x].direction + g_probes[id.x].a + g_edges[id.x].to; g_cells[id.x] = c; g_out.Store(0, asuint(g_particles[id.x].life)); }\nPipeline Main { ComputeShader = CSMAIN; }\n";

// a task shader that dispatches meshes with payloads of several types: which payload parameters the Metal task
// function gets is computed from a walk over the called intrinsics
const P_PAYLOADS: &str = "#define TASK_GROUP_SIZE 32\n\nstruct PayloadSmall\n{\n    uint start_location;\n};\n\nstruct PayloadLarge\n{\n    uint start_location;\n    uint4 extra;\n};\n\nstruct PayloadMid\n{\n    uint start_location;\n    uint2 extra;\n};\n\nstruct PayloadWide\n{\n    uint start_location;\n    float4 extra[2];\n};\n\ngroupshared PayloadSmall lds_small;\ngroupshared PayloadMid lds_mid;\ngroupshared PayloadWide lds_wide;\ngroupshared PayloadLarge lds_large;\n\n[numthreads(TASK_GROUP_SIZE, 1, 1)]\nvoid TaskEntry(uint3 dtid : SV_DispatchThreadID) {\n    lds_small.start_location = dtid.x;\n    lds_large.start_location = dtid.x;\n    lds_large.extra = uint4(0u, 1u, 2u, 3u);\n\n    if (dtid.x < 16u) {\n        DispatchMesh(4u, 1u, 1u, lds_small);\n    } else if (dtid.x < 20u) {\n        DispatchMesh(3u, 1u, 1u, lds_mid);\n    } else if (dtid.x < 24u) {\n        DispatchMesh(5u, 1u, 1u, lds_wide);\n    } else {\n        DispatchMesh(2u, 1u, 1u, lds_large);\n    }\n}\n\nstruct VertexAttributes\n{\n    float4 position : SV_Position;\n};\n\n[numthreads(TASK_GROUP_SIZE, 1, 1)]\n[outputtopology(\"triangle\")]\nvoid MeshEntry(\n    uint3 dtid : SV_DispatchThreadID,\n    in payload PayloadSmall data,\n    out vertices VertexAttributes o_vertices[TASK_GROUP_SIZE],\n    out indices uint3 o_triangles[TASK_GROUP_SIZE]\n) {\n    SetMeshOutputCounts(TASK_GROUP_SIZE, TASK_GROUP_SIZE);\n\n    VertexAttributes vertex;\n    vertex.position = float4(data.start_location, 0, 0, 1);\n    o_vertices[dtid.x] = vertex;\n\n    o_triangles[dtid.x] = uint3(0, 1, 2);\n}\n\nPipeline Test\n{\n    TaskShader = TaskEntry;\n    MeshShader = MeshEntry;\n}\n";

// diagnostics chosen among several candidates: properties of a pipeline / of a static sampler given twice, several of them
const P_ERR_DUP: &str = "float4 VSMAIN() : SV_Position { return float4(0.0f, 0.0f, 0.0f, 1.0f); }\nfloat4 PSMAIN() : SV_Target0 { return float4(1.0f, 1.0f, 1.0f, 1.0f); }\nPipeline Demo\n{\n    VertexShader = VSMAIN;\n    PixelShader = PSMAIN;\n    CullMode = Back;\n    WindingOrder = Clockwise;\n    DepthTargetFormat = \"D32_FLOAT\";\n    VertexShader = VSMAIN;\n    PixelShader = PSMAIN;\n    CullMode = Back;\n    WindingOrder = Clockwise;\n    DepthTargetFormat = \"D32_FLOAT\";\n}\n";
const P_ERR_DUP2: &str = "const SamplerState g_s = StaticSampler\n{\n    Filter = MIN_MAG_MIP_LINEAR;\n    AddressU = Clamp;\n    AddressV = Clamp;\n    AddressW = Clamp;\n    Filter = MIN_MAG_MIP_LINEAR;\n    AddressU = Clamp;\n    AddressV = Clamp;\n    AddressW = Clamp;\n};\nvoid main() {}\n";

// paths that need the root anchor `::` because a nearer namespace has the same name: whether the anchor is written is
// decided from a walk over the name map
const P_ANCHORS: &str = "namespace X {\n    int h() { return 1; }\n}\n\nnamespace A {\n    namespace X {\n        int h() { return 2; }\n    }\n\n    int f() {\n        return ::X::h();\n    }\n}\n\nvoid entry() {\n    A::f();\n}\nnamespace Y { int h() { return 5; } }\nnamespace B { namespace Y { int h() { return 6; } } int g() { return ::Y::h() + Y::h(); } }\nnamespace Z { int k() { return 7; } }\nnamespace C { namespace Z { int k() { return 8; } } namespace D { int e() { return ::Z::k() + Z::k(); } } }\n";

fn sources() -> Vec<(String, String)> {
    let mut v: Vec<(String, String)> = vec![
        ("names".into(), P_NAMES.into()), ("groups".into(), P_GROUPS.into()), ("globals".into(), P_GLOBALS.into()),
        ("templates".into(), P_TEMPLATES.into()), ("err-a".into(), P_ERR_A.into()), ("err-b".into(), P_ERR_B.into()), ("layout".into(), P_LAYOUT.into()), ("err-enum".into(), P_ERR_ENUM.into()), ("err-enum2".into(), P_ERR_ENUM2.into()), ("literals".into(), P_LITERALS.into()), ("positions".into(), P_POSITIONS.into()), ("payloads".into(), P_PAYLOADS.into()), ("anchors".into(), P_ANCHORS.into()), ("err-dup".into(), P_ERR_DUP.into()), ("err-dup2".into(), P_ERR_DUP2.into()),
    ];
    let root = std::env::var("RSSL_REPO").unwrap_or("/repo".into());
    for dir in ["tests/basic", "hlsl/tests", "msl/tests"] {
        if let Ok(rd) = std::fs::read_dir(format!("{}/{}", root, dir)) {
            let mut es: Vec<_> = rd.filter_map(|e| e.ok()).map(|e| e.path()).filter(|p| p.extension().map(|x| x == "rssl").unwrap_or(false)).collect();
            es.sort();
            for p in es {
                if let Ok(t) = std::fs::read_to_string(&p) {
                    v.push((format!("file:{}/{}", dir, p.file_name().unwrap().to_string_lossy()), t));
                }
            }
        }
    }
    v
}

fn fnv(s: &str) -> u64 {
    let mut h: u64 = 0xcbf29ce484222325;
    for b in s.bytes() { h ^= b as u64; h = h.wrapping_mul(0x100000001b3); }
    h
}

/// everything compile() returns, as text
pub fn observe(name: &str, target: &str, nopipe: bool) -> String {
    let src = match sources().into_iter().find(|(n, _)| n == name) { Some((_, s)) => s, None => return "NO-SUCH-PROGRAM".into() };
    // a target written `<target>+L` turns the layout consistency validation on
    let (target, layout) = match target.strip_suffix("+L") { Some(t) => (t, true), None => (target, false) };
    let o = compile_src(&[("main.rssl", &src)], "main.rssl", target, nopipe, layout, None, &[]);
    let mut s = format!("{}\n{}\n", o.kind, o.text);
    for p in &o.pipelines {
        let stages: Vec<String> = p.stages.iter().map(|st| format!("{:?}/{}/{:?}", st.stage, st.entry_point, st.thread_group_size)).collect();
        s += &format!("---\n{}\n{:?}\n{:?}\n{:?}\n", String::from_utf8_lossy(&p.data), p.metadata, stages, p.graphics_pipeline_state);
    }
    s
}

pub fn digest_main(args: &[String]) {
    let nopipe = args.get(2).map(|x| x == "1").unwrap_or(false);
    let text = observe(&args[0], &args[1], nopipe);
    println!("{:016x} {}", fnv(&text), text.len());
}

pub fn run_line(line: &str) -> String {
    let w: Vec<&str> = line.split_whitespace().collect();
    if w.len() != 4 || w[0] != "D" { return "BAD-CASE".into(); }
    let nopipe = w[3] == "1";
    let first = observe(w[1], w[2], nopipe);
    for k in 1..8 {
        let again = observe(w[1], w[2], nopipe);
        if again != first {
            let pos = first.bytes().zip(again.bytes()).take_while(|(a, b)| a == b).count();
            let st = pos.saturating_sub(40);
            return format!("DIFF in-process run {} differs at byte {}: `{}` vs `{}`", k, pos,
                first[st..(pos + 40).min(first.len())].replace('\n', "\\n"), again[st..(pos + 40).min(again.len())].replace('\n', "\\n"));
        }
    }
    let want = format!("{:016x} {}", fnv(&first), first.len());
    if let Ok(exe) = std::env::current_exe() {
        for k in 0..2 {
            match std::process::Command::new(&exe).args(["digest", w[1], w[2], w[3]]).output() {
                Ok(o) => {
                    let got = String::from_utf8_lossy(&o.stdout).trim().to_string();
                    if got != want { return format!("DIFF fresh process {} gives {} instead of {}", k, got, want); }
                }
                Err(e) => return format!("DIFF cannot start a fresh process: {}", e),
            }
        }
    }
    format!("SAME {} {}", want, first.lines().next().unwrap_or(""))
}

pub fn gen_cases(_seed: u64, _n: usize, thorough: bool) -> Vec<String> {
    let mut out = Vec::new();
    for (name, _) in sources() {
        for target in ["HlslForDirectX", "HlslForVulkan", "HlslForVulkan+BA", "Msl"] {
            for nopipe in ["0", "1"] {
                if !thorough && name.starts_with("file:") && target == "HlslForVulkan+BA" { continue; }
                out.push(format!("D {} {} {}", name, target, nopipe));
            }
        }
        if !name.starts_with("file:") || thorough {
            for target in ["HlslForDirectX+L", "Msl+L"] { out.push(format!("D {} {} 0", name, target)); }
        }
    }
    out
}

pub fn program_source(name: &str) -> Option<String> { sources().into_iter().find(|(n, _)| n == name).map(|(_, s)| s) }
