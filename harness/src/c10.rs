//! C10: lexing.  Case: the bytes of a source file, hex encoded (no directive lines, no macros).
//! Output: OK <token>@start-end ...   |   ERR <LexerErrorReason> <offset>   (floats as bit patterns)
use crate::common::*;
use rssl::text::tokens::{FollowedBy, Token};
use rssl::text::{Locate, LocateEnd};

pub fn hex(s: &[u8]) -> String {
    s.iter().map(|b| format!("{:02x}", b)).collect()
}
pub fn unhex(s: &str) -> Option<Vec<u8>> {
    if s.len() % 2 != 0 {
        return None;
    }
    (0..s.len() / 2).map(|i| u8::from_str_radix(&s[2 * i..2 * i + 2], 16).ok()).collect()
}

fn show(t: &Token) -> String {
    let fb = |f: &FollowedBy| match f {
        FollowedBy::Token => "Token",
        FollowedBy::Whitespace => "Whitespace",
    };
    match t {
        Token::Id(id) => format!("Id({})", id.0),
        Token::ReservedWord(s) => format!("ReservedWord({})", s),
        Token::LiteralInt(v) => format!("LiteralInt({})", v),
        Token::LiteralIntUnsigned32(v) => format!("LiteralIntUnsigned32({})", v),
        Token::LiteralIntUnsigned64(v) => format!("LiteralIntUnsigned64({})", v),
        Token::LiteralIntSigned64(v) => format!("LiteralIntSigned64({})", v),
        Token::LiteralFloat(v) => format!("LiteralFloat({})", v.to_bits()),
        Token::LiteralFloat16(v) => format!("LiteralFloat16({})", v.to_bits()),
        Token::LiteralFloat32(v) => format!("LiteralFloat32({})", v.to_bits()),
        Token::LiteralFloat64(v) => format!("LiteralFloat64({})", v.to_bits()),
        Token::LiteralString(s) => format!("LiteralString({})", hex(s.as_bytes())),
        Token::HeaderName(s) => format!("HeaderName({})", hex(s.as_bytes())),
        Token::LeftAngleBracket(f) => format!("LeftAngleBracket({})", fb(f)),
        Token::RightAngleBracket(f) => format!("RightAngleBracket({})", fb(f)),
        other => format!("{:?}", other),
    }
}

/// `P:<hex of a literal>`: the literal goes through the parser and the printer of the exporters; the text it is
/// printed as is returned (the model lexes both texts and compares the values)
fn run_print(hexlit: &str) -> String {
    let lit = match unhex(hexlit).and_then(|b| String::from_utf8(b).ok()) { Some(t) => t, None => return "BAD-CASE".into() };
    let src = format!("static const float pv = {};\n", lit);
    let mut sm = rssl::text::SourceManager::new();
    let mut inc = MemFiles::single("main.rssl", &src);
    let tokens = match rssl::preprocess::preprocess("main.rssl", &mut sm, &mut inc, &[]) { Ok(t) => t, Err(_) => return "REJECT lex".into() };
    let tokens = rssl::preprocess::prepare_tokens(&tokens);
    let tree = match catch(|| rssl::parser::parse(&tokens)) { Ok(Ok(t)) => t, Ok(Err(_)) => return "REJECT parse".into(), Err(_) => return "PANIC parse".into() };
    let text = match catch(|| rssl_formatter::format(&tree, rssl_formatter::Target::Hlsl)) { Ok(Ok(t)) => t, Ok(Err(e)) => return format!("REJECT format {:?}", e), Err(_) => return "PANIC format".into() };
    let line = text.lines().find(|l| l.contains("pv = ")).unwrap_or("");
    let printed = match line.split_once("pv = ") { Some((_, r)) => r.trim_end().trim_end_matches(';').to_string(), None => return format!("UNREADABLE {}", hex(text.as_bytes())) };
    format!("PRINT {}", hex(printed.as_bytes()))
}

pub fn run_line(line: &str) -> String {
    if let Some(h) = line.trim().strip_prefix("P:") { return run_print(h); }
    let bytes = match unhex(line.trim()) {
        Some(b) => b,
        None => return "BAD-CASE".into(),
    };
    let text = match String::from_utf8(bytes) {
        Ok(t) => t,
        Err(_) => return "NOT-UTF8".into(),
    };
    let mut sm = rssl::text::SourceManager::new();
    let mut inc = MemFiles::single("main.rssl", &text);
    match rssl::preprocess::preprocess("main.rssl", &mut sm, &mut inc, &[]) {
        Ok(tokens) => {
            let mut out = vec!["OK".to_string()];
            for t in &tokens {
                out.push(format!("{}@{}-{}", show(&t.0), t.get_location().get_raw(), t.get_end_location().get_raw()));
            }
            out.join(" ")
        }
        Err(rssl::preprocess::PreprocessError::LexerError(e)) => {
            let d = format!("{:?}", e.reason);
            format!("ERR {} {}", d, e.location.get_raw())
        }
        Err(e) => format!("OTHER {:?}", e).replace('\n', " "),
    }
}

const WORDS: &[&str] = &["x", "foo", "_a1", "if", "else", "struct", "class", "true", "false", "unsigned", "this", "float4", "sizeof", "inout", "e5", "x1", "INF", "f", "h", "L", "u", "ul"];
const SYMS: &[&str] = &["{", "}", "(", ")", "[", "]", "<", ">", ";", ",", "+", "++", "+=", "-", "--", "-=", "/", "/=", "%", "%=", "*", "*=", "&", "&&", "&=", "|", "||", "|=", "^", "^=", "!", "!=", "=", "==", "@", "~", ".", ":", "::", "?", "<<", ">>", "<=", ">=", "->", "..."];
const TRIVIA: &[&str] = &[" ", "\t", "  ", "\n", "\r\n", "\\\n", "\\\r\n", "// c\n", "// a \\\n b\n", "/* c */", "/* a\n b */", "/**/", "//\n",
    // comment bodies that begin or end with the characters of the delimiters
    "/*/ c */", "/*/*/", "/***/", "/* * / */", "/*//*/", "//*\n", "///* c\n", "/* // */"];

pub fn gen_int(rng: &mut Rng) -> String {
    let base = rng.below(3);
    let boundary: &[u128] = &[0, 1, 7, 8, 255, 4294967295, 4294967296, 9223372036854775807, 9223372036854775808, 18446744073709551615, 18446744073709551616, 18446744073709551617, 184467440737095516150, 99999999999999999999999];
    let v: u128 = if rng.chance(2, 3) { *rng.pick(boundary) } else { (rng.next() as u128) << rng.below(16) };
    let mut s = match base {
        0 => format!("{}", v),
        1 => format!("0x{:x}", v),
        _ => format!("0{:o}", v),
    };
    if base == 1 && rng.chance(1, 2) {
        s = s.to_uppercase().replace("0X", "0x");
    }
    s += *rng.pick(&["", "", "", "u", "U", "l", "L", "ul", "UL", "lu", "Lu", "uL"]);
    s
}

pub fn gen_float(rng: &mut Rng) -> String {
    // decimal floating spellings; biased towards halfway cases between adjacent doubles / floats
    let mode = rng.below(12);
    if mode >= 10 {
        // next to the midpoint of two adjacent single-precision values (exactly a double): text just below / at /
        // just above it, by less than half a double ulp, with the f / h suffix - the double nearest to the text is the
        // midpoint itself and is narrowed once (ties to even); rounding the text directly to single precision differs
        let b = (rng.next() as u32) & 0x7F7F_FFFF;
        let x = f32::from_bits(b) as f64;
        let y = f32::from_bits(b + 1) as f64;
        if x.is_finite() && y.is_finite() && x > 1e-30 && x < 1e30 {
            let mid = format!("{:.40e}", x / 2.0 + y / 2.0);
            let (m, e) = mid.split_once('e').unwrap();
            let mut digits: Vec<u8> = m.replace('.', "").into_bytes();
            digits.truncate(rng.range(17, 22) as usize);
            match rng.below(3) {
                0 => {}
                1 => {
                    // one more in the last kept place: just above the midpoint
                    let mut i = digits.len() - 1;
                    loop { if digits[i] == b'9' { digits[i] = b'0'; if i == 0 { break; } i -= 1; } else { digits[i] += 1; break; } }
                }
                _ => { let i = digits.len() - 1; digits[i] = b'0' + (rng.below(10) as u8); }
            }
            let ds = String::from_utf8(digits).unwrap();
            return format!("{}.{}e{}{}", &ds[..1], &ds[1..], e, rng.pick(&["f", "F", "h", "f"]));
        }
        return "1.00000005960464478f".to_string();
    }
    let mut s = if mode < 3 {
        // a value next to a midpoint: take a random double, step to the midpoint with its successor, print many digits
        let bits = rng.next() & 0x7FEF_FFFF_FFFF_FFFF;
        let x = f64::from_bits(bits);
        let y = f64::from_bits(bits + 1);
        if x.is_finite() && y.is_finite() && x > 1e-300 && x < 1e300 {
            // midpoint printed with 25 significant digits then perturbed in the last places
            let mid = format!("{:.30e}", (x / 2.0 + y / 2.0));
            let (m, e) = mid.split_once('e').unwrap();
            let mut digits: Vec<u8> = m.replace('.', "").into_bytes();
            digits.truncate(rng.range(17, 22) as usize);
            if rng.chance(1, 2) {
                let i = digits.len() - 1;
                digits[i] = b'0' + (rng.below(10) as u8);
            }
            let ds = String::from_utf8(digits).unwrap();
            format!("{}.{}e{}", &ds[..1], &ds[1..], e)
        } else {
            "1.0".to_string()
        }
    } else if mode < 6 {
        let nd = rng.range(1, 20);
        let mut ds = String::new();
        for _ in 0..nd {
            ds.push((b'0' + rng.below(10) as u8) as char);
        }
        let point = rng.below(nd + 1) as usize;
        let e = rng.range(0, 640) as i64 - 330;
        let (a, b) = ds.split_at(point);
        match rng.below(4) {
            0 if !a.is_empty() => format!("{}.{}", a, b),
            1 if !a.is_empty() => format!("{}.{}e{}", a, b, e),
            2 if !a.is_empty() => format!("{}.{}E{:+}", a, b, e),
            _ => format!("{}e{}", ds, e),
        }
    } else if mode < 8 {
        (*rng.pick(&["0.0031308", "0.1", "1e23", "8.5e-46", "1.4e-45", "7e-46", "3.4028235e38", "3.4028236e38", "1.7976931348623157e308", "1.7976931348623159e308", "4.9e-324", "2.4703282292062328e-324", "2.4703282292062327e-324", "1e-400", "1e400", "16777217.0", "0.5", "123456789012345678901234567890.0", "9007199254740993.0", "5e-324"])).to_string()
    } else {
        (*rng.pick(&["1.", "1.e5", "0.", "00.5", "1.#INF", "0.0#INF", "1.0e1#INF", "1.0#INFf", "2.5#INF", "1.x", "1.5x", "1.5q", "1e", "1e+", "1e99999999999999999999", "1.0e99999999999999999999", "1e-99999999"])).to_string()
    };
    s += *rng.pick(&["", "", "f", "F", "h", "H", "l", "L"]);
    s
}

fn gen_text(rng: &mut Rng, n_tokens: u64) -> String {
    let mut s = String::new();
    for i in 0..n_tokens {
        let r = rng.below(20);
        let piece = match r {
            0..=4 => (*rng.pick(WORDS)).to_string(),
            5..=9 => (*rng.pick(SYMS)).to_string(),
            10 | 11 => gen_int(rng),
            12 | 13 => gen_float(rng),
            14 => format!("\"{}\"", rng.pick(&["", "abc", "a b", "x//y", "/*", "é"])),
            15 => (*rng.pick(&["\"abc", "\"a\nb\"", "/* open", "\\", "\r", "$", "`", "é", "#", "##"])).to_string(),
            _ => (*rng.pick(TRIVIA)).to_string(),
        };
        // a '#' that is the first non-blank character of a line would start a directive: keep it mid-line
        let _ = i;
        // (whitespace and comments in front of it do not count, so a token is put right in front of it)
        if piece.starts_with('#') {
            let line_start = s.rfind('\n').map(|p| p + 1).unwrap_or(0);
            let before = &s[line_start..];
            if before.chars().all(|c| c == ' ' || c == '\t') || before.contains("*/") || before.contains("/*") || s.contains("/*") {
                s.push_str("a ");
            }
        }
        s += &piece;
        if rng.chance(1, 2) {
            s += *rng.pick(TRIVIA);
        }
    }
    s
}

pub fn gen_cases(seed: u64, n: usize, _thorough: bool) -> Vec<String> {
    let mut rng = Rng::new(seed);
    let mut out = Vec::new();
    // every fixed piece on its own and every ordered pair of symbols/words glued together
    for p in WORDS.iter().chain(SYMS.iter()).chain(TRIVIA.iter()) {
        out.push(hex(p.as_bytes()));
    }
    for a in SYMS.iter().chain(WORDS.iter().take(6)) {
        for b in SYMS.iter().chain(WORDS.iter().take(6)) {
            out.push(hex(format!("{}{}", a, b).as_bytes()));
        }
    }
    // numeric literals alone
    for _ in 0..n {
        out.push(hex(gen_int(&mut rng).as_bytes()));
        out.push(hex(gen_float(&mut rng).as_bytes()));
        out.push(hex(gen_float(&mut rng).as_bytes()));
    }
    // "that value appears unchanged in the output": literals through the parser and the printer
    for l in ["0.0", "1.0", "0.5", "1e30", "1e300", "12345678901234567890.0", "9223372036854775808.0", "9223372036854775807.0", "18446744073709551616.0", "4096.0", "1e-30", "1.5e-320",
              "3.402823466e+38f", "1e38f", "16777217.0f", "0.1f", "65504.0h", "0.333h", "1e22", "1e23", "123456789012345678.0", "0.1", "2.5e15", "9007199254740993.0", "1.7976931348623157e308",
              "0", "7", "2147483647", "2147483648", "4294967295", "4294967296", "18446744073709551615", "5u", "4294967295u", "0x7fffffff", "0xffffffffu", "017", "1.", ".5", "5.f"] {
        out.push(format!("P:{}", hex(l.as_bytes())));
    }
    for _ in 0..n / 2 {
        out.push(format!("P:{}", hex(gen_float(&mut rng).as_bytes())));
        if rng.chance(1, 3) { out.push(format!("P:{}", hex(gen_int(&mut rng).as_bytes()))); }
    }
    // token soups with trivia
    for _ in 0..n / 2 {
        let k = rng.range(1, 30);
        out.push(hex(gen_text(&mut rng, k).as_bytes()));
    }
    out
}
