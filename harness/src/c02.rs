//! C02: MSL export preserves the meaning of every accepted program.
//! Case:  X <program spec>        (gen:<seed>:<size> | thread:<seed> | file:.. | c14:.. | verif:..)
//! The program is exported to HLSL (validated against the IR by C01) and to Metal without pipelines; the two texts and
//! the facts the comparison needs are printed.  Facts are computed here from the typed IR, independently of the
//! exporter: which globals are threaded, which function (transitively) needs which of them, which parameters are
//! out / inout, how many parameters have defaults.
//! Output: M2 ;; threaded g,.. ;; fn <name> req=g,.. outs=i:kind,.. defaults=n params=n method=0|1 called=0|1 shadow=m:name,l:name,d:name,g:name ;; ... ;; HLSL <text> ;; MSL <text>
//!         | SKIP <why>
use crate::common::*;
use rssl::ir;
use rssl::ir::name_generator::{NameMap, NameSymbol};
use std::collections::{BTreeMap, BTreeSet};

fn uses_of_expr(e: &ir::Expression, globals: &mut BTreeSet<u32>, calls: &mut BTreeSet<u32>) {
    use ir::Expression::*;
    match e {
        Global(g) => { globals.insert(g.0); }
        Call(f, _, args) => { calls.insert(f.0); for a in args { uses_of_expr(a, globals, calls); } }
        TernaryConditional(a, b, c) => { uses_of_expr(a, globals, calls); uses_of_expr(b, globals, calls); uses_of_expr(c, globals, calls); }
        Sequence(l) => for x in l { uses_of_expr(x, globals, calls); },
        Swizzle(x, _) | MatrixSwizzle(x, _) | StructMember(x, _, _) | ObjectMember(x, _) | Cast(_, x) => uses_of_expr(x, globals, calls),
        ArraySubscript(a, b) => { uses_of_expr(a, globals, calls); uses_of_expr(b, globals, calls); }
        Constructor(_, slots) => for s in slots { uses_of_expr(&s.expr, globals, calls); },
        IntrinsicOp(_, args) => for a in args { uses_of_expr(a, globals, calls); },
        Literal(_) | Variable(_) | MemberVariable(_, _) | ConstantVariable(_) | EnumValue(_) | SizeOf(_) => {}
    }
}

fn locals_of_block(b: &ir::ScopeBlock, out: &mut Vec<ir::VariableId>) {
    use ir::StatementKind::*;
    for s in &b.0 {
        match &s.kind {
            Var(v) => out.push(v.id),
            Block(b) | If(_, b) | While(_, b) | DoWhile(b, _) | Switch(_, b) => locals_of_block(b, out),
            IfElse(_, a, b) => { locals_of_block(a, out); locals_of_block(b, out); }
            For(init, _, _, b) => { if let ir::ForInit::Definitions(ds) = init { for d in ds { out.push(d.id); } } locals_of_block(b, out); }
            _ => {}
        }
    }
}

fn uses_of_init(i: &ir::Initializer, g: &mut BTreeSet<u32>, c: &mut BTreeSet<u32>) {
    match i { ir::Initializer::Expression(e) => uses_of_expr(e, g, c), ir::Initializer::Aggregate(l) => for x in l { uses_of_init(x, g, c); } }
}

fn uses_of_block(b: &ir::ScopeBlock, g: &mut BTreeSet<u32>, c: &mut BTreeSet<u32>) {
    use ir::StatementKind::*;
    for s in &b.0 {
        match &s.kind {
            Expression(e) => uses_of_expr(e, g, c),
            Var(v) => if let Some(i) = &v.init { uses_of_init(i, g, c); },
            Block(b) => uses_of_block(b, g, c),
            If(e, b) | While(e, b) | Switch(e, b) => { uses_of_expr(e, g, c); uses_of_block(b, g, c); }
            DoWhile(b, e) => { uses_of_block(b, g, c); uses_of_expr(e, g, c); }
            IfElse(e, a, b) => { uses_of_expr(e, g, c); uses_of_block(a, g, c); uses_of_block(b, g, c); }
            For(init, cond, inc, b) => {
                match init { ir::ForInit::Empty => {} ir::ForInit::Expression(e) => uses_of_expr(e, g, c), ir::ForInit::Definitions(ds) => for d in ds { if let Some(i) = &d.init { uses_of_init(i, g, c); } } }
                if let Some(e) = cond { uses_of_expr(e, g, c); }
                if let Some(e) = inc { uses_of_expr(e, g, c); }
                uses_of_block(b, g, c);
            }
            Return(Some(e)) => uses_of_expr(e, g, c),
            Break | Continue | Discard | Return(None) | CaseLabel(_) | DefaultLabel => {}
        }
    }
}

pub fn facts(m: &ir::Module) -> Result<Vec<String>, String> {
    let hn = NameMap::build(m, rssl::hlsl::verif::RESERVED_NAMES, true);
    let mn = NameMap::build(m, rssl::msl::verif::RESERVED_NAMES, false);
    let q = |nm: &NameMap, s: NameSymbol| nm.get_name_qualified(s, None).0.join("::");
    // a global is threaded unless it is a static const (or an intrinsic)
    let mut threaded: BTreeSet<u32> = BTreeSet::new();
    for (i, g) in m.global_registry.iter().enumerate() {
        if g.is_intrinsic { continue; }
        let is_const = m.type_registry.is_const(g.type_id);
        if !((is_const && g.storage_class == ir::GlobalStorage::Static) || g.static_sampler.is_some()) { threaded.insert(i as u32); }
        let id = ir::GlobalId(i as u32);
        if q(&hn, NameSymbol::GlobalVariable(id)) != q(&mn, NameSymbol::GlobalVariable(id)) { return Err("a global is named differently for the two targets".into()); }
    }
    // direct uses and calls per function
    let mut direct: BTreeMap<u32, (BTreeSet<u32>, BTreeSet<u32>)> = BTreeMap::new();
    for fid in m.function_registry.iter() {
        let mut g = BTreeSet::new(); let mut c = BTreeSet::new();
        if let Some(imp) = m.function_registry.get_function_implementation(fid) {
            uses_of_block(&imp.scope_block, &mut g, &mut c);
            for p in &imp.params { if let Some(e) = &p.default_expr { uses_of_expr(e, &mut g, &mut c); } }
        }
        direct.insert(fid.0, (g, c));
    }
    // reachability: required(f) = threaded globals used by f or by anything f calls, transitively
    let mut out = Vec::new();
    out.push(format!("threaded {}", threaded.iter().map(|g| q(&hn, NameSymbol::GlobalVariable(ir::GlobalId(*g)))).collect::<Vec<_>>().join(",")));
    for fid in m.function_registry.iter() {
        let imp = match m.function_registry.get_function_implementation(fid) { Some(i) => i, None => continue };
        let sig = m.function_registry.get_function_signature(fid);
        if !sig.template_params.is_empty() && m.function_registry.get_template_instantiation_data(fid).is_none() { continue; }
        let (h, mm) = (q(&hn, NameSymbol::Function(fid)), q(&mn, NameSymbol::Function(fid)));
        if h != mm { return Err(format!("function {} is named {} for Metal", h, mm)); }
        let mut seen: BTreeSet<u32> = BTreeSet::new();
        let mut work = vec![fid.0];
        let mut req: BTreeSet<u32> = BTreeSet::new();
        while let Some(f) = work.pop() {
            if !seen.insert(f) { continue; }
            if let Some((g, c)) = direct.get(&f) { for x in g { if threaded.contains(x) { req.insert(*x); } } for x in c { work.push(*x); } }
        }
        let outs: Vec<String> = imp.params.iter().enumerate().filter_map(|(i, p)| match p.param_type.input_modifier { ir::InputModifier::In => None, ir::InputModifier::Out => Some(format!("{}:out", i)), ir::InputModifier::InOut => Some(format!("{}:inout", i)) }).collect();
        let defaults = imp.params.iter().filter(|p| p.default_expr.is_some()).count();
        let is_method = m.struct_registry.iter().any(|s| s.methods.contains(&fid));
        let called = direct.values().any(|(_, c)| c.contains(&fid.0));
        // what a parameter added for a threaded global would hide or clash with inside this function: members of the
        // struct the method belongs to (m:), parameters and locals of the function (l:)
        let req_names: Vec<String> = req.iter().map(|g| mn.get_name_leaf(NameSymbol::GlobalVariable(ir::GlobalId(*g))).to_string()).collect();
        let mut shadow: Vec<String> = Vec::new();
        if let Some(st) = m.struct_registry.iter().find(|s| s.methods.contains(&fid)) {
            for mem in &st.members { if req_names.contains(&mem.name) { shadow.push(format!("m:{}", mem.name)); } }
        }
        let mut locals: Vec<ir::VariableId> = imp.params.iter().map(|p| p.id).collect();
        locals_of_block(&imp.scope_block, &mut locals);
        for v in locals { let n = mn.get_name_leaf(NameSymbol::LocalVariable(v)).to_string(); if req_names.contains(&n) { shadow.push(format!("l:{}", n)); } }
        // two added parameters of one name (d:), and a global the body names itself - a constant, which is not threaded -
        // whose name an added parameter takes (g:)
        for (i, a) in req_names.iter().enumerate() { if req_names[..i].contains(a) { shadow.push(format!("d:{}", a)); } }
        if let Some((g, _)) = direct.get(&fid.0) {
            for x in g {
                if !req.contains(x) {
                    let n = mn.get_name_leaf(NameSymbol::GlobalVariable(ir::GlobalId(*x))).to_string();
                    if req_names.contains(&n) { shadow.push(format!("g:{}", n)); }
                }
            }
        }
        shadow.sort(); shadow.dedup();
        out.push(format!("fn {} req={} outs={} defaults={} params={} method={} called={} shadow={}", h,
            req.iter().map(|g| hn.get_name_leaf(NameSymbol::GlobalVariable(ir::GlobalId(*g))).to_string()).collect::<Vec<_>>().join(","),
            outs.join(","), defaults, imp.params.len(), is_method as u8, called as u8, shadow.join(",")));
    }
    // locals must be named alike for the two targets as well
    for id in m.variable_registry.iter() {
        if hn.get_name_leaf(NameSymbol::LocalVariable(id)) != mn.get_name_leaf(NameSymbol::LocalVariable(id)) { return Err("a local is named differently for the two targets".into()); }
    }
    Ok(out)
}

pub fn load(spec: &str) -> Option<Vec<(String, String)>> {
    if let Some(s) = spec.strip_prefix("thread:") { return Some(vec![("main.rssl".into(), threading_program(s.parse().ok()?))]); }
    crate::c01::load(spec)
}

/// call graphs over functions that read and write static globals: every shape (chains, diamonds, recursion is not in
/// the language), out / inout parameters, methods, namespaces, default arguments
pub fn threading_program(seed: u64) -> String {
    let mut rng = Rng::new(seed);
    let ng = rng.range(1, 4) as usize;
    let nf = rng.range(2, 7) as usize;
    let mut s = String::new();
    let gty = ["int", "float", "uint", "float2"];
    let mut gts = Vec::new();
    for g in 0..ng {
        let t = *rng.pick(&gty);
        gts.push(t);
        let ns = rng.chance(1, 4);
        let init = match t { "int" => "1", "uint" => "2u", "float" => "0.5", _ => "float2(1.0, 2.0)" };
        if ns { s += &format!("namespace NG{} {{ static {} g{} = {}; }}\n", g, t, g, init); } else if rng.chance(1, 5) { s += &format!("groupshared {} g{};\n", t, g); } else { s += &format!("static {} g{} = {};\n", t, g, init); }
    }
    s += "static const float kc = 2.0;\nstruct SC { int a; int b; int c; };\nstruct SM { int m; int bump(int p); };\n";
    let gname = |g: usize, text: &str| -> String { if text.contains(&format!("namespace NG{} ", g)) { format!("NG{}::g{}", g, g) } else { format!("g{}", g) } };
    // functions in dependency order: f_i may call f_j for j < i
    let mut sigs: Vec<(String, Vec<u8>, bool)> = Vec::new(); // (name, param dirs, has default)
    for f in 0..nf {
        let np = rng.below(3) as usize;
        let dirs: Vec<u8> = (0..np).map(|_| *rng.pick(&[0u8, 0, 1, 2])).collect();
        let has_default = np > 0 && dirs[np - 1] == 0 && rng.chance(1, 4);
        let ps: Vec<String> = dirs.iter().enumerate().map(|(i, d)| format!("{}int p{}{}", match d { 1 => "out ", 2 => "inout ", _ => "" }, i, if has_default && i + 1 == np { " = 7" } else { "" })).collect();
        let ret = if rng.chance(1, 3) { "void" } else { "int" };
        let name = format!("fn{}", f);
        let in_ns = rng.chance(1, 5);
        if in_ns { s += &format!("namespace NF{} {{\n", f); }
        s += &format!("{} {}({}) {{\n", ret, name, ps.join(", "));
        for (i, d) in dirs.iter().enumerate() { if *d == 1 { s += &format!("    p{} = {};\n", i, rng.below(9)); } }
        s += "    int acc = 1;\n";
        for _ in 0..rng.range(1, 4) {
            match rng.below(5) {
                0 | 1 => { let g = rng.below(ng as u64) as usize; let n = gname(g, &s); match gts[g] { "float2" => s += &format!("    {}.x += (float)acc;\n    acc += (int){}.y;\n", n, n), "float" => s += &format!("    {} *= kc;\n    acc += (int){};\n", n, n), "uint" => s += &format!("    {} += 1u;\n    acc += (int){};\n", n, n), _ => s += &format!("    {} += acc;\n    acc += {};\n", n, n) } }
                2 | 3 if f > 0 => {
                    let j = rng.below(f as u64) as usize;
                    let (cn, cd, chd) = sigs[j].clone();
                    let mut pre = String::new();
                    let mut args = Vec::new();
                    for (i, d) in cd.iter().enumerate() {
                        if chd && i + 1 == cd.len() && rng.chance(1, 2) { break; }
                        if *d == 0 { args.push(format!("acc + {}", i)); } else { let l = format!("t{}_{}", sigs.len(), rng.below(1000)); pre += &format!("    int {} = acc;\n", l); args.push(l); }
                    }
                    s += &pre;
                    s += &format!("    {}({});\n", cn, args.join(", "));
                }
                _ => { if !dirs.is_empty() && dirs[0] != 0 { s += "    p0 += acc;\n"; } else { s += "    acc *= 3;\n"; } }
            }
        }
        // a scalar spread over every member of a struct: Metal has no such cast and writes one operand per member, which
        // is only the same thing when evaluating the operand twice changes nothing
        match rng.below(60) {
            0..=3 => s += "    SC sc0 = (SC)(acc + 1);\n    acc += sc0.a + sc0.b;\n",
            4..=7 => s += "    SC sc1 = (SC)acc;\n    acc += sc1.c;\n",
            // rejected by the Metal exporter today (UnsupportedCast): kept rare, they only matter if that changes
            8 => s += "    SC sc2 = (SC)(acc++);\n    acc += sc2.b;\n",
            9 => s += "    SC sc3 = (SC)(acc += 2);\n    acc += sc3.c;\n",
            _ => {}
        }
        if ret == "int" { s += "    return acc;\n"; }
        s += "}\n";
        if in_ns { s += "}\n"; }
        sigs.push((if in_ns { format!("NF{}::{}", f, name) } else { name }, dirs, has_default));
    }
    let _ = &mut s;
    s.replace("struct SM { int m; int bump(int p); };\n", "")
}

pub fn run_line(line: &str) -> String {
    let w: Vec<&str> = line.split_whitespace().collect();
    if w.len() != 2 || w[0] != "X" { return "BAD-CASE".into(); }
    let files = match load(w[1]) { Some(f) => f, None => return "BAD-CASE".into() };
    let m = match crate::c03::type_check(&files, None, false) { Ok(Ok(m)) => m, Ok(Err(e)) => return format!("SKIP rejected: {}", e.lines().next().unwrap_or("")), Err(p) => return format!("SKIP front end panic: {}", p.lines().next().unwrap_or("")) };
    let f = match catch(|| facts(&m)) { Ok(Ok(f)) => f, Ok(Err(e)) => return format!("SKIP {}", e), Err(p) => return format!("SKIP facts panic: {}", p.lines().next().unwrap_or("")) };
    let list: Vec<(&str, &str)> = files.iter().map(|(a, b)| (a.as_str(), b.as_str())).collect();
    let h = crate::probe::compile_src(&list, &files[0].0, "HlslForDirectX", true, false, None, &[]);
    if h.kind != "OK" || h.pipelines.len() != 1 { return format!("SKIP hlsl export: {} {}", h.kind, h.text.lines().next().unwrap_or("")); }
    let ms = crate::probe::compile_src(&list, &files[0].0, "Msl", true, false, None, &[]);
    if ms.kind == "PANIC" { return format!("SKIP msl export panic: {}", ms.text.lines().next().unwrap_or("")); }
    if ms.kind != "OK" || ms.pipelines.len() != 1 { return format!("SKIP msl export: {}", ms.text.lines().next().unwrap_or("")); }
    format!("M2 ;; {} ;; HLSL {} ;; MSL {}", f.join(" ;; "), String::from_utf8_lossy(&h.pipelines[0].data), String::from_utf8_lossy(&ms.pipelines[0].data))
}

pub fn gen_cases(seed: u64, n: usize, _thorough: bool) -> Vec<String> {
    let mut rng = Rng::new(seed);
    let mut out = Vec::new();
    let repo = std::env::var("RSSL_REPO").unwrap_or("/repo".into());
    for dir in ["tests/basic", "hlsl/tests", "msl/tests"] {
        if let Ok(rd) = std::fs::read_dir(format!("{}/{}", repo, dir)) {
            let mut es: Vec<_> = rd.filter_map(|e| e.ok()).map(|e| e.path()).filter(|p| p.extension().map(|x| x == "rssl").unwrap_or(false)).collect();
            es.sort();
            for p in es { out.push(format!("X file:{}/{}", dir, p.file_name().unwrap().to_string_lossy())); }
        }
    }
    for _ in 0..n { out.push(format!("X thread:{}", rng.below(1 << 40))); }
    for _ in 0..n { out.push(format!("X gen:{}:{}", rng.below(1 << 40), rng.range(3, 18))); }
    out
}
