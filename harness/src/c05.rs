//! C05: reflection metadata agrees with the emitted source.
//! Case: <target> <dflt> <mode all|name|nopipe> <entry> <x> <y> <z> U<i,j,..> H<i,j,..> <decl>*
//!   decl as in C06; U = globals the entry point mentions directly, H = globals a helper called by the entry point mentions
//! Output: OK ;; <emitted text> ;; <metadata> ;; <stages>   (one group per compiled pipeline, separated by ` ## `) | ERR .. | PANIC
use crate::c06::{Decl, OBJ_KINDS};
use crate::common::*;
use crate::probe::compile_src;

/// names that one of the exporters has to change (reserved in HLSL or in Metal, ordinary identifiers in RSSL)
pub const RENAMED: &[&str] = &["vector", "matrix", "fragment", "device", "constant", "thread", "kernel", "vertex"];

thread_local! { static RENAME_STYLE: std::cell::Cell<bool> = std::cell::Cell::new(false); static NS_STYLE: std::cell::Cell<bool> = std::cell::Cell::new(false); }

/// in the namespace style (entry written `<name>+N`) every resource with an odd index lives in `namespace NS` under
/// the name of its even neighbour: two bound declarations with one leaf name
fn in_ns(i: usize, d: &Decl) -> bool { NS_STYLE.with(|c| c.get()) && i % 2 == 1 && d.kind.starts_with("o:") && IS_OBJ.with(|v| v.borrow().get(i - 1).copied().unwrap_or(false)) }
thread_local! { static IS_OBJ: std::cell::RefCell<Vec<bool>> = std::cell::RefCell::new(Vec::new()); }

/// the name of global i: g<i>, or - in the renaming style (entry written `<name>+R`) - a reserved word for resources
fn gname(i: usize, d: &Decl) -> String {
    if RENAME_STYLE.with(|c| c.get()) && i < RENAMED.len() && d.kind.starts_with("o:") { RENAMED[i].to_string() }
    else if in_ns(i, d) { format!("g{}", i - 1) }
    else { format!("g{}", i) }
}

fn use_stmt(i: usize, d: &Decl) -> String {
    match d.kind.as_str() {
        "c" => format!("m{};", i),
        _ if d.arr.is_some() => format!("{}{}[0];", if in_ns(i, d) { "NS::" } else { "" }, gname(i, d)),
        _ => format!("{}{};", if in_ns(i, d) { "NS::" } else { "" }, gname(i, d)),
    }
}

pub fn render(decls: &[Decl], dflt: u32, entry: &str, tg: (u32, u32, u32), uses: &[usize], helper_uses: &[usize], second_pipeline: bool) -> String {
    let (entry, style) = match entry.strip_suffix("+R") { Some(e) => (e, true), None => (entry, false) };
    RENAME_STYLE.with(|c| c.set(style));
    let (entry, ns_style) = match entry.strip_suffix("+N") { Some(e) => (e, true), None => (entry, false) };
    NS_STYLE.with(|c| c.set(ns_style));
    // the typedef style (entry written `<name>+T`): every bound resource that is not bindless is declared through a
    // typedef of its type, arrays through a typedef of the array type
    let (entry, td_style) = match entry.strip_suffix("+T") { Some(e) => (e, true), None => (entry, false) };
    // the reversed style (entry written `<name>+O`): the stage properties of the pipeline are written in reverse order
    let (entry, rev_style) = match entry.strip_suffix("+O") { Some(e) => (e, true), None => (entry, false) };
    let order = |stages: &[&str]| -> String { let mut v: Vec<&str> = stages.to_vec(); if rev_style { v.reverse(); } v.join(" ") };
    IS_OBJ.with(|v| *v.borrow_mut() = decls.iter().map(|d| d.kind.starts_with("o:")).collect());
    let mut s = String::from("struct S0 { uint m; };\n");
    for (i, d) in decls.iter().enumerate() {
        // length 0 stands for an unbounded array `[]`
        let arr = d.arr.map(|n| if n == 0 { "[]".to_string() } else { format!("[{}]", n) }).unwrap_or_default();
        let attr = match d.set { Some(g) => format!("[[rssl::bind_group({})]] ", g), None => String::new() };
        let storage = if d.ext { "" } else { "static " };
        match d.kind.as_str() {
            "c" => s += &format!("{}cbuffer g{} {{ uint m{}; }}\n", attr, i, i),
            "n" => s += &format!("{}uint g{}{};\n", storage, i, arr),
            "s" => s += &format!("struct g{} {{ uint x; }};\n", i),
            "f" => s += &format!("void g{}() {{}}\n", i),
            k => {
                let name = k.strip_prefix("o:").unwrap_or(k);
                let ty = OBJ_KINDS.iter().find(|(n, _)| *n == name).map(|(_, t)| *t).unwrap_or(name);
                let init = if d.ss { " = StaticSampler { Filter = MIN_MAG_MIP_LINEAR; }" } else { "" };
                let bindless = if d.arr.map(|n| n >= 16 || n == 0).unwrap_or(false) { "[[rssl::bindless]] " } else { "" };
                if in_ns(i, d) { s += "namespace NS { "; }
                if td_style && bindless.is_empty() {
                    s += &format!("typedef {} T{}{}; {}{}T{} {}{};", ty, i, arr, attr, storage, i, gname(i, d), init);
                } else {
                    s += &format!("{}{}{}{} {}{}{};", bindless, attr, storage, ty, gname(i, d), arr, init);
                }
                if in_ns(i, d) { s += " }"; }
                s += "\n";
            }
        }
    }
    let usable = |i: &usize| *i < decls.len() && !matches!(decls[*i].kind.as_str(), "s" | "f");
    s += "void helper() {";
    // a raw buffer that is read only inside the subscript of a resource array: reached all the same
    let idx_pair = |list: &[usize]| -> Option<(usize, usize)> {
        let arr = list.iter().copied().find(|i| usable(i) && decls[*i].kind.starts_with("o:") && decls[*i].arr.map(|n| n > 0).unwrap_or(false) && !in_ns(*i, &decls[*i]))?;
        let buf = list.iter().copied().find(|i| usable(i) && decls[*i].kind == "o:ByteAddressBuffer" && decls[*i].arr.is_none() && !in_ns(*i, &decls[*i]))?;
        Some((arr, buf))
    };
    let hp = idx_pair(helper_uses);
    if let Some((a, b)) = hp { s += &format!(" {}[{}.Load(0)];", gname(a, &decls[a]), gname(b, &decls[b])); }
    for i in helper_uses.iter().filter(|i| usable(i)) { if hp.map(|(a, b)| *i == a || *i == b).unwrap_or(false) { continue; } s += " "; s += &use_stmt(*i, &decls[*i]); }
    s += " }\n";
    if entry == "VSPS" {
        // two stages: the vertex stage mentions U directly, the pixel stage reaches H through the helper
        s += "float4 VSMAIN(uint vid : SV_VertexID) : SV_Position {";
        for i in uses.iter().filter(|i| usable(i)) { s += " "; s += &use_stmt(*i, &decls[*i]); }
        s += " return float4(0.0, 0.0, 0.0, 1.0); }\n";
        s += "float4 PSMAIN(float4 pos : SV_Position) : SV_Target0 { helper(); return pos; }\n";
        s += "[numthreads(1, 1, 1)] void OTHER() { }\n";
        s += &format!("Pipeline Main {{ {} DefaultBindGroup = {}; }}\n", order(&["VertexShader = VSMAIN;", "PixelShader = PSMAIN;"]), dflt);
        if second_pipeline { s += "Pipeline Second { ComputeShader = OTHER; }\n"; }
        return s;
    }
    if entry == "TASKMESH" || entry == "MESH" {
        // mesh pipelines: the task (or mesh) stage mentions U directly, the mesh (or pixel) stage reaches H through the
        // helper; both thread-group stages carry a numthreads attribute the metadata has to repeat
        s += "struct VA { float4 position : SV_Position; };\nstruct Payload { uint start; };\ngroupshared Payload lds_payload;\n";
        let mut direct = String::new();
        for i in uses.iter().filter(|i| usable(i)) { direct += " "; direct += &use_stmt(*i, &decls[*i]); }
        if entry == "TASKMESH" {
            s += &format!("[numthreads({}, {}, {})] void TSMAIN(uint3 dtid : SV_DispatchThreadID) {{{} lds_payload.start = dtid.x; DispatchMesh(1u, 1u, 1u, lds_payload); }}\n", tg.0, tg.1, tg.2, direct);
            s += "[numthreads(32, 1, 1)] [outputtopology(\"triangle\")] void MSMAIN(uint3 dtid : SV_DispatchThreadID, in payload Payload data, out vertices VA o_v[32], out indices uint3 o_t[32]) { helper(); SetMeshOutputCounts(32, 32); VA v; v.position = float4(data.start, 0, 0, 1); o_v[dtid.x] = v; o_t[dtid.x] = uint3(0, 1, 2); }\n";
            s += "float4 PSMAIN(float4 pos : SV_Position) : SV_Target0 { return pos; }\n";
            s += "[numthreads(1, 1, 1)] void OTHER() { }\n";
            s += &format!("Pipeline Main {{ {} DefaultBindGroup = {}; }}\n", order(&["TaskShader = TSMAIN;", "MeshShader = MSMAIN;", "PixelShader = PSMAIN;"]), dflt);
        } else {
            s += &format!("[numthreads({}, {}, {})] [outputtopology(\"triangle\")] void MSMAIN(uint3 dtid : SV_DispatchThreadID, out vertices VA o_v[32], out indices uint3 o_t[32]) {{{} SetMeshOutputCounts(32, 32); VA v; v.position = float4(0, 0, 0, 1); o_v[dtid.x] = v; o_t[dtid.x] = uint3(0, 1, 2); }}\n", tg.0, tg.1, tg.2, direct);
            s += "float4 PSMAIN(float4 pos : SV_Position) : SV_Target0 { helper(); return pos; }\n";
            s += "[numthreads(1, 1, 1)] void OTHER() { }\n";
            s += &format!("Pipeline Main {{ {} DefaultBindGroup = {}; }}\n", order(&["MeshShader = MSMAIN;", "PixelShader = PSMAIN;"]), dflt);
        }
        return s;
    }
    s += &format!("[numthreads({}, {}, {})] void {}() {{ helper();", tg.0, tg.1, tg.2, entry);
    for i in uses.iter().filter(|i| usable(i)) { s += " "; s += &use_stmt(*i, &decls[*i]); }
    s += " }\n";
    s += "[numthreads(1, 1, 1)] void OTHER() { }\n";
    s += &format!("Pipeline Main {{ ComputeShader = {}; DefaultBindGroup = {}; }}\n", entry, dflt);
    if second_pipeline { s += "Pipeline Second { ComputeShader = OTHER; }\n"; }
    s
}

fn list(w: &str) -> Vec<usize> { w[1..].split(',').filter_map(|x| x.parse().ok()).collect() }

pub fn run_line(line: &str) -> String {
    let w: Vec<&str> = line.split_whitespace().collect();
    if w.len() < 9 { return "BAD-CASE".into(); }
    let target = w[0];
    let dflt: u32 = w[1].parse().unwrap_or(0);
    let mode = w[2];
    let entry = w[3];
    let tg = (w[4].parse().unwrap_or(1), w[5].parse().unwrap_or(1), w[6].parse().unwrap_or(1));
    let uses = list(w[7]);
    let huses = list(w[8]);
    let decls: Vec<Decl> = match w[9..].iter().map(|x| Decl::parse(x)).collect::<Option<Vec<_>>>() { Some(d) => d, None => return "BAD-CASE".into() };
    let src = render(&decls, dflt, entry, tg, &uses, &huses, mode == "all");
    let (nopipe, name) = match mode { "nopipe" => (true, None), "name" => (false, Some("Main")), _ => (false, None) };
    let o = compile_src(&[("main.rssl", &src)], "main.rssl", target, nopipe, false, name, &[]);
    match o.kind {
        "OK" => {
            let mut parts = Vec::new();
            for p in &o.pipelines {
                let stages: Vec<String> = p.stages.iter().map(|st| format!("{:?}/{}/{:?}", st.stage, st.entry_point, st.thread_group_size)).collect();
                parts.push(format!("{} ;; {:?} ;; {}", String::from_utf8_lossy(&p.data), p.metadata, stages.join(",")));
            }
            format!("OK ;; {}", parts.join(" ## "))
        }
        "ERR" => format!("ERR {}", o.text.lines().next().unwrap_or("")),
        _ => format!("PANIC {}", o.text.lines().next().unwrap_or("")),
    }
}

pub fn gen_cases(seed: u64, n: usize, _thorough: bool) -> Vec<String> {
    let mut rng = Rng::new(seed);
    let mut out = Vec::new();
    let targets = ["HlslForDirectX", "HlslForVulkan", "HlslForVulkan+BA", "Msl"];
    let entries = ["CSMAIN", "main", "kernel", "vertex", "sample", "texture", "Main", "compute", "fragment", "mesh"];
    for k in 0..n {
        let nd = rng.range(0, 7) as usize;
        let mut decls: Vec<Decl> = (0..nd).map(|_| crate::c06::gen_decl(&mut rng, false)).collect();
        let target = targets[k % 4];
        for d in decls.iter_mut() {
            if target == "Msl" && d.kind == "n" { d.kind = "s".into(); d.arr = None; }
            if rng.chance(1, 10) { d.ext = false; }
            if d.kind.starts_with("o:") && d.arr.is_some() && rng.chance(1, 6) { d.arr = Some(16); }
        }
        let pick = |rng: &mut Rng| -> String {
            let v: Vec<String> = (0..nd).filter(|_| rng.chance(1, 2)).map(|i| i.to_string()).collect();
            v.join(",")
        };
        let u = pick(&mut rng);
        let h = pick(&mut rng);
        let mode = ["all", "name", "nopipe", "one"][rng.below(4) as usize];
        let entry: String = if rng.chance(1, 8) { "CSMAIN+R".to_string() } else if rng.chance(1, 10) { (if rng.chance(1, 3) { "VSPS+T" } else { "CSMAIN+T" }).to_string() } else if rng.chance(1, 12) { "CSMAIN+N".to_string() } else { (if rng.chance(1, 4) { *rng.pick(&["VSPS", "VSPS+O"]) } else if rng.chance(1, 6) { *rng.pick(&["TASKMESH", "MESH", "TASKMESH+O", "MESH+O"]) } else if rng.chance(1, 3) { *rng.pick(&entries) } else { "CSMAIN" }).to_string() };
        let tg = (rng.range(1, 8), rng.range(1, 4), rng.range(1, 2));
        let ds: Vec<String> = decls.iter().map(|d| d.word()).collect();
        out.push(format!("{} {} {} {} {} {} {} U{} H{} {}", target, rng.below(3), mode, entry, tg.0, tg.1, tg.2, u, h, ds.join(" ")).trim_end().to_string());
    }
    out
}
