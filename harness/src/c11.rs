//! C11: conditional compilation.  A case is a `;`-separated list of directive lines:
//!   t N | use X | define X [v] | undef X | if <cond words> | ifdef X | ifndef X | elif <cond words> | else | endif
//! Several files: `F main.rssl : l ; l @ f.h : l ; l` with the further lines  include <file> | pragma <words> | bogus
//! Output: OK <surviving tokens> | ERR <PreprocessError variant>
use crate::common::*;
use rssl::text::tokens::Token;

pub fn render(case: &str) -> String {
    let mut s = String::new();
    for l in case.split(';') {
        let w: Vec<&str> = l.split_whitespace().collect();
        if w.is_empty() {
            continue;
        }
        match w[0] {
            "t" => s += &format!("x{}\n", w[1]),
            "use" => s += &format!("{}\n", w[1]),
            "include" => s += &format!("#include \"{}\"\n", w[1]),
            _ => s += &format!("#{}\n", w.join(" ")),
        }
    }
    s
}

/// #include and #pragma inside selected and unselected groups: (files, the tokens C's rules let through)
const INCLUDE_PROBES: &[(&[(&str, &str)], &str)] = &[
    (&[("main.rssl", "#include \"f.h\"\n#define W\n#include \"f.h\"\n"), ("f.h", "#ifdef G\n#pragma once\n#endif\n#ifdef W\ny\n#else\nx\n#endif\n")], "x y"),
    (&[("main.rssl", "#if 0\n#include \"missing.h\"\n#endif\na\n")], "a"),
    (&[("main.rssl", "#if 0\n#pragma nonsense\n#endif\nb\n")], "b"),
    (&[("main.rssl", "#ifdef U\n#pragma once\n#endif\nc\n")], "c"),
    (&[("main.rssl", "#include \"f.h\"\n#include \"f.h\"\n"), ("f.h", "#pragma once\nz\n")], "z"),
    (&[("main.rssl", "#if 1\nd\n#else\n#include \"missing.h\"\n#endif\n")], "d"),
    (&[("main.rssl", "#include \"f.h\"\n#include \"f.h\"\n"), ("f.h", "#if 0\n#pragma once\n#endif\nq\n")], "q q"),
    (&[("main.rssl", "#if 0\n#define A 1\n#undef B\n#endif\n#define B 2\nB A\n")], "2 A"),
    (&[("main.rssl", "#include \"f.h\"\n#include \"f.h\"\n"), ("f.h", "#if 1\n#pragma once\n#endif\nr\n")], "r"),
    (&[("main.rssl", "#ifndef G\n#else\n#pragma once\n#endif\n#include \"g.h\"\n#include \"g.h\"\n"), ("g.h", "#ifdef G\n#elif 0\n#pragma once\n#else\ns\n#endif\n")], "s s"),
];

fn run_probe(k: usize) -> String {
    let (files, want) = match INCLUDE_PROBES.get(k) { Some(x) => *x, None => return "BAD-CASE".into() };
    let mut sm = rssl::text::SourceManager::new();
    let mut inc = MemFiles::from(files);
    match catch(|| rssl::preprocess::preprocess("main.rssl", &mut sm, &mut inc, &[])) {
        Ok(Ok(tokens)) => {
            let toks = rssl::preprocess::prepare_tokens(&tokens);
            let mut out: Vec<String> = Vec::new();
            for t in &toks { match &t.0 { Token::Id(id) => out.push(id.0.clone()), Token::LiteralInt(v) => out.push(v.to_string()), Token::Eof => {}, other => out.push(format!("{:?}", other).replace(' ', "")) } }
            format!("PROBE {} | {}", out.join(" "), want)
        }
        Ok(Err(e)) => format!("PROBE ERR {} | {}", format!("{:?}", e).split(|c: char| !c.is_alphanumeric()).next().unwrap_or(""), want),
        Err(_) => "PANIC".into(),
    }
}

pub fn run_line(case: &str) -> String {
    if let Some(k) = case.trim().strip_prefix("I ") { return run_probe(k.trim().parse().unwrap_or(usize::MAX)); }
    let mut sm = rssl::text::SourceManager::new();
    let mut inc = match case.trim().strip_prefix("F ") {
        Some(rest) => {
            // `name : lines @ name : lines`
            let mut files = std::collections::HashMap::new();
            for sec in rest.split('@') {
                let (name, body) = match sec.split_once(':') { Some(x) => x, None => return "BAD-CASE".into() };
                files.insert(name.trim().to_string(), render(body));
            }
            MemFiles { files }
        }
        None => MemFiles::single("main.rssl", &render(case)),
    };
    match rssl::preprocess::preprocess("main.rssl", &mut sm, &mut inc, &[]) {
        Ok(tokens) => {
            let toks = rssl::preprocess::prepare_tokens(&tokens);
            let mut out = vec!["OK".to_string()];
            for t in &toks {
                match &t.0 {
                    Token::Id(id) => out.push(id.0.clone()),
                    Token::LiteralInt(v) => out.push(v.to_string()),
                    Token::Eof => {}
                    other => out.push(format!("{:?}", other).replace(' ', "")),
                }
            }
            out.join(" ")
        }
        Err(e) => {
            let d = format!("{:?}", e);
            let name = d.split(|c: char| !c.is_alphanumeric()).next().unwrap_or("").to_string();
            let name = match name.as_str() {
                "MacroRequiresArguments" | "MacroArgumentsNeverEnd" | "MacroExpectsDifferentNumberOfArguments" => "MacroError".to_string(),
                _ => name,
            };
            format!("ERR {}", name)
        }
    }
}

const OPERANDS: &[&str] = &["0", "1", "2", "5", "4294967296", "9223372036854775808", "18446744073709551615", "7u", "true", "false"];

fn gen_cond(rng: &mut Rng, depth: u32, out: &mut Vec<String>) {
    let r = rng.below(if depth == 0 { 4 } else { 12 });
    match r {
        0 | 1 => out.push((*rng.pick(OPERANDS)).to_string()),
        2 => out.push((*rng.pick(&["A", "B", "D", "U", "Q"])).to_string()),
        3 => {
            let x = *rng.pick(&["A", "B", "C", "U", "Q"]);
            if rng.chance(1, 2) {
                out.push("defined".into());
                out.push(x.into());
            } else {
                out.push("defined".into());
                out.push("(".into());
                out.push(x.into());
                out.push(")".into());
            }
        }
        4 => {
            out.push("!".into());
            gen_cond(rng, depth - 1, out);
        }
        5 => {
            out.push("(".into());
            gen_cond(rng, depth - 1, out);
            out.push(")".into());
        }
        _ => {
            gen_cond(rng, depth - 1, out);
            out.push((*rng.pick(&["||", "&&", "==", "!=", "<", "<=", ">", ">="])).to_string());
            gen_cond(rng, depth - 1, out);
        }
    }
}

fn gen_tree(rng: &mut Rng, depth: u32, counter: &mut u32, out: &mut Vec<String>) {
    let n = rng.range(0, 3);
    for _ in 0..n {
        if out.len() > 120 {
            return;
        }
        let r = rng.below(10);
        if r < 3 {
            *counter += 1;
            out.push(format!("t {}", counter));
        } else if r == 3 {
            out.push(format!("use {}", rng.pick(&["A", "B", "U", "Q"])));
        } else if r == 4 {
            let x = *rng.pick(&["A", "B", "U", "Q"]);
            match rng.below(3) {
                0 => out.push(format!("define {} {}", x, rng.below(4))),
                1 => out.push(format!("define {}", x)),
                _ => out.push(format!("undef {}", x)),
            }
        } else if depth > 0 {
            // a conditional group
            match rng.below(3) {
                0 => {
                    let mut c = Vec::new();
                    gen_cond(rng, 2, &mut c);
                    out.push(format!("if {}", c.join(" ")));
                }
                1 => out.push(format!("ifdef {}", rng.pick(&["A", "B", "U", "Q"]))),
                _ => out.push(format!("ifndef {}", rng.pick(&["A", "B", "U", "Q"]))),
            }
            gen_tree(rng, depth - 1, counter, out);
            let elifs = rng.below(3);
            for _ in 0..elifs {
                let mut c = Vec::new();
                gen_cond(rng, 2, &mut c);
                out.push(format!("elif {}", c.join(" ")));
                gen_tree(rng, depth - 1, counter, out);
            }
            if rng.chance(1, 2) {
                out.push("else".into());
                gen_tree(rng, depth - 1, counter, out);
            }
            out.push("endif".into());
        }
    }
}


/// lines of one file of an include graph; `later` = the files this one may include (acyclic).
/// `dead` = the lines are known to sit in a group that is not selected: there the directives that would be
/// rejected elsewhere (missing files, unknown pragmas, unknown directives) are generated freely
fn gen_file_lines(rng: &mut Rng, later: &[&str], counter: &mut u32, depth: u32, dead: bool, out: &mut Vec<String>) {
    let n = rng.range(1, 4);
    for _ in 0..n {
        let risky = dead && rng.chance(1, 2) || rng.chance(1, 40);
        if risky {
            out.push((*rng.pick(&["include missing.h", "pragma nonsense", "pragma 5", "pragma", "bogus", "pragma once", "include main.rssl", "define A 7", "undef A"])).to_string());
            continue;
        }
        match rng.below(14) {
            0 | 1 | 2 => { *counter += 1; out.push(format!("t {}", *counter)); }
            3 => out.push(format!("use {}", rng.pick(&["A", "B", "U", "G"]))),
            4 => out.push((*rng.pick(&["define A 3", "define B", "define U 1", "define G", "undef A", "undef G"])).to_string()),
            5 | 6 if !later.is_empty() => out.push(format!("include {}", rng.pick(later))),
            7 => out.push((*rng.pick(&["pragma once", "pragma once", "pragma warning ( disable 4 )"])).to_string()),
            8 if depth > 0 && rng.chance(1, 4) => {
                // an unbalanced directive: the chain is shared with the including file
                out.push((*rng.pick(&["endif", "else", "if 1", "if 0", "ifdef G", "elif 1"])).to_string());
            }
            9 | 10 | 11 if depth > 0 => {
                let g = *rng.pick(&["if 0", "if 1", "if 0", "ifdef A", "ifdef G", "ifndef G", "ifndef U", "if defined ( G ) || A == 3"]);
                out.push(g.to_string());
                gen_file_lines(rng, later, counter, depth - 1, dead || g == "if 0", out);
                let mut taken = g == "if 1";
                let elifs = rng.below(2);
                for _ in 0..elifs {
                    let e = *rng.pick(&["elif 0", "elif 1", "elif defined G", "elif A"]);
                    out.push(e.to_string());
                    gen_file_lines(rng, later, counter, depth - 1, dead || taken || e == "elif 0", out);
                    taken = taken || e == "elif 1";
                }
                if rng.chance(1, 2) {
                    out.push("else".into());
                    gen_file_lines(rng, later, counter, depth - 1, dead || taken, out);
                }
                out.push("endif".into());
            }
            _ => { *counter += 1; out.push(format!("t {}", *counter)); }
        }
    }
}

fn gen_graph(rng: &mut Rng) -> String {
    let names = ["main.rssl", "a.h", "b.h", "c.h"];
    let k = rng.range(1, 4) as usize;
    let mut counter = 0;
    let mut secs = Vec::new();
    for i in 0..k {
        let mut ls = Vec::new();
        gen_file_lines(rng, &names[i + 1..k], &mut counter, 2, false, &mut ls);
        if i == 0 { ls.push("use A ; use G ; use U".into()); }
        secs.push(format!("{} : {}", names[i], ls.join(" ; ")));
    }
    format!("F {}", secs.join(" @ "))
}

/// include graphs with a cycle, whose end the once-set or the depth limit decides
const CYCLES: &[&str] = &[
    "F main.rssl : include main.rssl",
    "F main.rssl : pragma once ; t 1 ; include main.rssl ; t 2",
    "F main.rssl : if 0 ; pragma once ; endif ; t 1 ; include main.rssl",
    "F main.rssl : ifndef G ; define G ; include main.rssl ; t 1 ; endif ; t 2",
    "F main.rssl : include a.h ; t 1 @ a.h : include b.h ; t 2 @ b.h : include a.h ; t 3",
    "F main.rssl : include a.h ; t 1 @ a.h : pragma once ; include b.h ; t 2 @ b.h : include a.h ; t 3",
    "F main.rssl : include a.h ; t 1 @ a.h : ifdef G ; pragma once ; endif ; include b.h @ b.h : include a.h ; t 3",
    "F main.rssl : include a.h ; endif ; t 1 @ a.h : if 1 ; t 2",
    "F main.rssl : if 0 ; include a.h ; t 1 ; endif ; t 3 @ a.h : endif ; t 2 ; if 1",
    "F main.rssl : if 1 ; include a.h ; t 1 ; endif ; t 3 @ a.h : else ; t 2",
    "F main.rssl : include a.h ; include a.h @ a.h : if 0 ; else ; pragma once ; endif ; t 2",
    "F main.rssl : include a.h ; include a.h @ a.h : if 1 ; else ; pragma once ; endif ; t 2",
];

pub fn gen_cases(seed: u64, n: usize, thorough: bool) -> Vec<String> {
    let mut rng = Rng::new(seed);
    let mut out = Vec::new();
    for k in 0..INCLUDE_PROBES.len() { out.push(format!("I {}", k)); }
    for c in CYCLES { out.push((*c).to_string()); }
    // exhaustive: every sequence of up to 4 (thorough: 5) lines of the entry file over directives, includes and pragmas
    {
        let alpha = ["if 0", "if 1", "else", "endif", "include a.h", "include missing.h", "pragma once", "pragma nonsense", "bogus", "t"];
        let max_len = if thorough { 5 } else { 4 };
        for len in 1..=max_len {
            let mut idx = vec![0usize; len];
            loop {
                let ls: Vec<String> = idx.iter().enumerate().map(|(i, &k)| if alpha[k] == "t" { format!("t {}", i + 1) } else { alpha[k].to_string() }).collect();
                out.push(format!("F main.rssl : {} @ a.h : ifdef G ; pragma once ; else ; define G ; endif ; t 9", ls.join(" ; ")));
                let mut j = 0;
                while j < len {
                    idx[j] += 1;
                    if idx[j] < alpha.len() { break; }
                    idx[j] = 0;
                    j += 1;
                }
                if j == len { break; }
            }
        }
    }
    for _ in 0..n / 2 { out.push(gen_graph(&mut rng)); }
    // exhaustive directive sequences over the property's 12-symbol alphabet
    let alpha = ["if 0", "if 1", "ifdef D", "ifdef U", "ifndef D", "ifndef U", "elif 0", "elif 1", "else", "endif", "t", "define U 1"];
    let max_len = if thorough { 6 } else { 4 };
    for len in 0..=max_len {
        let mut idx = vec![0usize; len];
        loop {
            let mut ls = vec!["define D 1".to_string()];
            for (i, &k) in idx.iter().enumerate() {
                if alpha[k] == "t" {
                    ls.push(format!("t {}", i + 1));
                } else {
                    ls.push(alpha[k].to_string());
                }
            }
            ls.push("use U".into());
            out.push(ls.join(" ; "));
            let mut j = 0;
            while j < len {
                idx[j] += 1;
                if idx[j] < alpha.len() {
                    break;
                }
                idx[j] = 0;
                j += 1;
            }
            if j == len {
                break;
            }
        }
    }
    // random condition expressions
    for _ in 0..n {
        let mut c = Vec::new();
        gen_cond(&mut rng, 5, &mut c);
        // occasionally break the token sequence (malformed stream)
        if rng.chance(1, 12) && !c.is_empty() {
            let i = rng.below(c.len() as u64) as usize;
            match rng.below(3) {
                0 => {
                    c.remove(i);
                }
                1 => c.insert(i, (*rng.pick(&["=", ")", "(", "+", "5L", "<", "defined"])).to_string()),
                _ => c.swap(0, i),
            }
        }
        out.push(format!("define A 2 ; define B 0 ; define C ; define D 1 ; if {} ; t 1 ; else ; t 0 ; endif", c.join(" ")));
    }
    // random well-nested trees
    for _ in 0..n {
        let mut ls = vec!["define A 2".to_string(), "define B".to_string()];
        let mut counter = 0;
        gen_tree(&mut rng, 8, &mut counter, &mut ls);
        ls.push("use A ; use B ; use U ; use Q".into());
        out.push(ls.join(" ; "));
    }
    // random (mostly unbalanced) sequences up to length 40
    for _ in 0..n / 2 {
        let len = rng.range(1, 40);
        let mut ls = vec!["define D 1".to_string()];
        for i in 0..len {
            let k = rng.below(alpha.len() as u64) as usize;
            if alpha[k] == "t" {
                ls.push(format!("t {}", i + 1));
            } else {
                ls.push(alpha[k].to_string());
            }
        }
        out.push(ls.join(" ; "));
    }
    out
}
