//! C08: compilation is total.  Case: <config> <kind> <args..>
//!   config = <target>/<all|name|nopipe>/<layout 0|1>     target also MetalBytecode
//!   B seed len          character soup (ASCII-heavy, some control and non-ASCII characters)
//!   T seed len          token soup over the lexer's vocabulary plus extreme literals
//!   P seed size mut     generated program (struct templates on); mut = 0: as generated, else one token-level mutation
//!   M index mut         the index-th repository input (.rssl/.hlsl under tests/, hlsl/tests, msl/tests and the corpus
//!                       entry points, includes from disk); mut as above
//!   D kind n            a construct nested / repeated n times
//!   S seed              a short soup of types / expressions / words in one position of a valid program
//!   F path              a file of /verif (corpus)
//!   K index             an extreme constant expression in one of the compile-time-evaluated positions
//!   A index             an attribute spelling in front of one kind of declaration or statement
//!   G index             a pipeline property with one kind of value in one kind of pipeline
//!   H index             a preprocessor directive with a well-formed or cut-off operand
//!   Q seed              a macro program of the C12 generator
//!   X hex               the entry file given byte for byte
//! Output: OK n | ERR <first line> | PANIC <file>: <message> ; the supervisor adds ABORT <status> and TIMEOUT.
use crate::common::*;

pub const TARGETS: [&str; 5] = ["HlslForDirectX", "HlslForVulkan", "HlslForVulkan+BA", "Msl", "MetalBytecode"];

fn target_of(name: &str) -> Option<(rssl::Target, bool)> {
    match name {
        "MetalBytecode" => Some((rssl::Target::MetalBytecode, false)),
        other => crate::probe::target_of(other),
    }
}

/// entry file over a disk tree
struct Override<'a> { name: &'a str, text: &'a str, disk: Option<DiskFiles>, extra: &'a [(String, String)] }

impl<'a> rssl::text::IncludeHandler for Override<'a> {
    fn load(&mut self, file_name: &str, parent_name: &str) -> Result<rssl::text::FileData, rssl::text::IncludeError> {
        if file_name == self.name { return Ok(rssl::text::FileData { real_name: file_name.to_string(), contents: self.text.to_string() }); }
        for (n, t) in self.extra { if n == file_name { return Ok(rssl::text::FileData { real_name: n.clone(), contents: t.clone() }); } }
        match &mut self.disk { Some(d) => d.load(file_name, parent_name), None => Err(rssl::text::IncludeError::FileNotFound) }
    }
}

pub struct Input { pub entry: String, pub text: String, pub root: Option<String>, pub extra: Vec<(String, String)>, pub defines: bool }

fn repo() -> String { std::env::var("RSSL_REPO").unwrap_or("/repo".into()) }

pub fn repo_inputs() -> Vec<(Option<String>, String)> {
    let mut v: Vec<(Option<String>, String)> = Vec::new();
    for dir in ["tests/basic", "hlsl/tests", "msl/tests"] {
        if let Ok(rd) = std::fs::read_dir(format!("{}/{}", repo(), dir)) {
            let mut es: Vec<_> = rd.filter_map(|e| e.ok()).map(|e| e.file_name().to_string_lossy().to_string()).filter(|n| n.ends_with(".rssl") || n.ends_with(".hlsl")).collect();
            es.sort();
            for n in es { v.push((None, format!("{}/{}", dir, n))); }
        }
    }
    for (root, entry) in corpus_entries() { v.push((Some(root), entry)); }
    v
}

const WORDS: &[&str] = &[
    "struct", "enum", "namespace", "template", "typename", "typedef", "cbuffer", "static", "const", "extern", "groupshared", "inline", "void", "float", "float4", "int", "uint",
    "uint3", "bool", "half", "double", "float4x4", "float3x3", "if", "else", "for", "while", "do", "switch", "case", "default", "break", "continue", "return", "discard", "in",
    "out", "inout", "register", "packoffset", "space0", "space4", "t0", "u1", "b2", "s3", "Pipeline", "ComputeShader", "VertexShader", "PixelShader", "MeshShader", "TaskShader",
    "DefaultBindGroup", "Texture2D", "RWTexture2D", "StructuredBuffer", "RWStructuredBuffer", "ByteAddressBuffer", "BufferAddress", "RWBufferAddress", "ConstantBuffer",
    "SamplerState", "StaticSampler", "RaytracingAccelerationStructure", "RayQuery", "RayDesc", "numthreads", "unroll", "branch", "outputtopology", "SV_DispatchThreadID",
    "SV_Position", "SV_Target0", "TEXCOORD0", "sizeof", "true", "false", "this", "operator", "vector", "matrix", "row_major", "column_major", "unorm", "snorm", "precise",
    "nointerpolation", "linear", "centroid", "sample", "point", "line", "triangle", "vertices", "indices", "primitives", "payload", "abs", "min", "mul", "dot", "Load", "Store",
    "Sample", "GetDimensions", "InterlockedAdd", "WaveActiveSum", "f", "g", "x", "y", "S", "T", "N", "main", "CSMAIN", "Main", "rssl", "bind_group", "bindless",
    "(", ")", "{", "}", "[", "]", "[[", "]]", "<", ">", "<<", ">>", "<=", ">=", "==", "!=", "=", "+", "-", "*", "/", "%", "&", "|", "^", "~", "!", "&&", "||", "?", ":", "::", ";", ",", ".",
    "++", "--", "+=", "-=", "*=", "/=", "%=", "&=", "|=", "^=", "<<=", ">>=", "#", "##", "#define", "#undef", "#if", "#ifdef", "#ifndef", "#elif", "#else", "#endif", "#include",
    "#pragma", "once", "defined", "#error", "#line", "\\\n", "\n", "\n", "\t", "//", "/*", "*/", "\"", "\"a.h\"", "<a.h>", "'", "\\",
    "0", "1", "2", "7", "0x7fffffff", "0x80000000", "0xffffffff", "0xffffffffffffffff", "0x10000000000000000", "4294967295", "4294967296", "2147483647", "2147483648", "-2147483648",
    "9223372036854775807", "9223372036854775808", "18446744073709551615", "18446744073709551616", "99999999999999999999999999", "0u", "1u", "1U", "1l", "1L", "1ul", "1lu", "08", "0x", "0b1",
    "1.0", "1.0f", "1.0h", "1.0L", "1e38f", "1e39f", "1e-46f", "1e309", "1e-400", "1e99999", "3.4028235e38f", "65504.0h", "65520.0h", "1.", ".5", "1e", "1e+", "1.0e-", "0x1.8p3", "1f", "1.0ff",
    "RSSL_TARGET_HLSL", "RSSL_TARGET_MSL", "__FILE__", "__LINE__",
];

fn soup_char(rng: &mut Rng) -> char {
    match rng.below(20) {
        0 => char::from_u32(rng.below(32) as u32).unwrap_or(' '),
        1 => char::from_u32(0x80 + rng.below(0x800) as u32).unwrap_or('?'),
        2 => *rng.pick(&['\u{feff}', '\u{2028}', '\u{1F600}', '\u{0}', '\r', '\u{7f}', '\u{a0}']),
        3 | 4 => *rng.pick(&['(', ')', '{', '}', '[', ']', '<', '>', ';', ',', '#', '"', '\\', '\n', '/', '*']),
        _ => char::from_u32(32 + rng.below(95) as u32).unwrap_or(' '),
    }
}

fn tokens_of(text: &str) -> Vec<String> {
    // a coarse split that keeps every character: identifiers/numbers, whitespace runs, single other characters
    let mut out: Vec<String> = Vec::new();
    let mut cur = String::new();
    let mut class = 0;
    for c in text.chars() {
        let k = if c.is_alphanumeric() || c == '_' || c == '.' { 1 } else if c.is_whitespace() { 2 } else { 3 };
        if k != class || k == 3 { if !cur.is_empty() { out.push(std::mem::take(&mut cur)); } class = k; }
        cur.push(c);
    }
    if !cur.is_empty() { out.push(cur); }
    out
}

fn mutate(text: &str, seed: u64) -> String {
    let mut rng = Rng::new(seed);
    let mut toks = tokens_of(text);
    if toks.is_empty() { return WORDS[(seed % WORDS.len() as u64) as usize].to_string(); }
    let i = rng.below(toks.len() as u64) as usize;
    match rng.below(9) {
        0 => { toks.remove(i); }
        1 => { toks.insert(i, rng.pick(WORDS).to_string()); }
        2 => { toks[i] = rng.pick(WORDS).to_string(); }
        3 => { let j = rng.below(toks.len() as u64) as usize; toks.swap(i, j); }
        4 => { let t = toks[i].clone(); toks.insert(i, t); }
        5 => { let j = (i + 1 + rng.below(12) as usize).min(toks.len()); toks.drain(i..j); }
        6 => { toks.truncate(i); }
        7 => { let j = (i + 1 + rng.below(30) as usize).min(toks.len()); let seg: Vec<String> = toks[i..j].to_vec(); for _ in 0..rng.range(1, 3) { for (k, s) in seg.iter().enumerate() { toks.insert(i + k, s.clone()); } } }
        _ => { let c = soup_char(&mut rng); toks.insert(i, c.to_string()); }
    }
    toks.concat()
}

/// a short token soup in one position of an otherwise valid program
pub fn skeleton(seed: u64) -> String {
    let mut rng = Rng::new(seed);
    const TYPES: &[&str] = &["int", "uint", "float", "float4", "bool", "half", "double", "float3x3", "float4x4", "uint2", "int3", "S", "E", "T2", "void", "Texture2D<float4>", "RWTexture2D<float>",
        "StructuredBuffer<S>", "RWStructuredBuffer<uint>", "ByteAddressBuffer", "BufferAddress", "SamplerState", "ConstantBuffer<S>", "RayDesc", "RayQuery<0>", "RaytracingAccelerationStructure",
        "vector<float, 3>", "matrix<float, 2, 2>", "float1", "float1x1", "float1x4", "min16float", "int64_t", "uint64_t", "float16_t", "string", "Texture2D", "Buffer<float4>", "TextureCube<float4>",
        "Texture2DArray<uint4>", "RWByteAddressBuffer", "SamplerComparisonState", "Texture3D<float4>", "RWBuffer<uint>", "const float", "static float", "unorm float4", "snorm float", "row_major float4x4",
        "precise float", "volatile int", "groupshared float", "extern float", "inline float", "uniform float", "in float", "out float", "inout float", "nointerpolation float", "point float", "triangle S",
        "vertices S", "indices uint3", "primitives S", "payload S"];
    const EXPRS: &[&str] = &["0", "1", "-1", "1u", "1.0", "1.0f", "1.0h", "1.0L", "true", "x", "y", "s", "s.m", "s.v", "s.v.x", "s.v.xyzw", "a", "a[0]", "a[1]", "a[x]", "t", "t.Load(int3(0, 0, 0))", "t[uint2(0, 0)]",
        "buf", "buf.Load(0)", "buf.Load<S>(0)", "buf.Load<float4>(4)", "sb[0]", "sb[0].m", "f(1)", "f(x)", "g()", "E::A", "A", "(int)E::A", "(E)1", "(S)0", "(float4)0", "(float3x3)1", "float2(1, 2)", "float4(1, 2, 3, 4)",
        "float3(1, 2)", "int2(1.5, 2)", "x + y", "x * 2.5", "x / 0", "x % 0", "1 / 0", "1 % 0", "1.0 / 0", "x << 33", "1 << 32", "1 << -1", "-2147483648", "2147483648", "4294967295", "4294967296", "0x7fffffff + 1",
        "0u - 1u", "-(-2147483647 - 1)", "(-2147483647 - 1) % -1", "(-2147483647 - 1) / -1", "(int)-2147483648 % (int)-1", "(int)-2147483648 / (int)-1", "(-2147483647 - 1) * -1", "2147483647 * 2", "2147483647 + 2147483647",
        "4294967295u + 1u", "4294967295u * 4294967295u", "1u << 32u", "1 >> 40", "(int)4294967295u", "(uint)-1", "(int)1e20", "(uint)-1.5", "(int)(1.0 / 0.0)", "5 % -3", "-5 / 2", "abs(-2147483647 - 1)", "0x80000000 / -1", "x ? y : 1", "x ? s : s", "x, y", "x = y", "x += 1", "x++", "--x", "!x", "~x", "-x", "+x", "&x", "*x", "sizeof(int)", "sizeof(S)", "sizeof(x)", "sizeof(T2)", "abs(x)", "abs(s)",
        "min(x, 1.0)", "max(float2(1, 2), 3)", "mul(m, v)", "mul(v, m)", "mul(m, m)", "dot(v, v)", "cross(v.xyz, v.xyz)", "length(v)", "normalize(v)", "lerp(v, v, 0.5)", "clamp(x, 0, 1)", "saturate(v)", "asuint(1.0)",
        "asfloat(x)", "f16tof32(x)", "f32tof16(1.0)", "countbits(x)", "firstbithigh(x)", "WaveActiveSum(x)", "WaveGetLaneIndex()", "isnan(1.0)", "select(true, 1, 2)", "and(true, false)", "v.xyzw.wzyx.xy", "v.rgba", "v.xr",
        "v.xxxxx", "m[0]", "m[0][0]", "m._m00", "m._11_22", "m[4]", "v[5]", "a[2]", "a[-1]", "s.nope", "nope", "nope()", "x.y", "1.x", "1.0.x", "x()", "t.Nope()", "t.Sample(ss, float2(0, 0))", "t.SampleLevel(ss, float2(0, 0), 0)",
        "t.GetDimensions(x, y)", "rw[uint2(0, 0)] = 1", "rwb.Store(0, 1u)", "rwb.InterlockedAdd(0, 1u, ux)", "rwb.Load4(0)", "GroupMemoryBarrierWithGroupSync()", "this", "this.m", "S::m", "::x", "N::k", "N::N2::k", "N::nope",
        "pick<float>(1, 2)", "pick(1, 2.0)", "pick<S>(s, s)", "pick<>(1, 2)", "pick<int, int>(1, 2)", "Box<float>", "(Box<float>)0", "TraceRayInline", "q.Proceed()", "q.TraceRayInline(as, 0, 0xff, rd)", "rd.Origin", "\"str\"", "{ 1, 2 }", "{ }"];
    let soup = |rng: &mut Rng, k: u64| -> String { (0..k).map(|_| match rng.below(3) { 0 => *rng.pick(TYPES), 1 => *rng.pick(EXPRS), _ => *rng.pick(WORDS) }).collect::<Vec<_>>().join(" ") };
    let ty = *rng.pick(TYPES);
    let ty2 = *rng.pick(TYPES);
    let e = *rng.pick(EXPRS);
    let e2 = *rng.pick(EXPRS);
    let op = *rng.pick(&["+", "-", "*", "/", "%", "<<", ">>", "&", "|", "^", "&&", "||", "<", ">", "<=", ">=", "==", "!=", "=", "+=", "-=", "*=", "/=", "%=", "<<=", ">>=", "&=", "|=", "^=", ","]);
    let un = *rng.pick(&["-", "+", "!", "~", "++", "--", ""]);
    let k = rng.range(1, 6);
    let z = soup(&mut rng, k);
    let prelude = "struct S { int m; float4 v; int get() { return m; } };\nenum E { A, B = 5 };\ntypedef float2 T2;\nnamespace N { static const int k = 3; namespace N2 { static const float k = 1.5; } int h(int q) { return q; } }\n\
template<typename T> T pick(T p, T q) { return p; }\nint f(int p) { return p; }\nfloat f(float p) { return p; }\nvoid g() {}\nTexture2D<float4> t;\nRWTexture2D<float4> rw;\nByteAddressBuffer buf;\nRWByteAddressBuffer rwb;\n\
StructuredBuffer<S> sb;\nSamplerState ss;\ncbuffer CB { float4x4 m; float4 v; uint ux; }\nstatic const int a[2] = { 1, 2 };\n";
    let nm = *rng.pick(&["abs", "min", "mul", "S", "E", "A", "f", "g", "x", "t", "buf", "CB", "m", "v", "N", "k", "pick", "T2", "float4", "Texture2D", "main", "h", "Load", "this", "register", "space0", "Pipeline", "ComputeShader", "vector", "sample", "point", "in", "q"]);
    let entry = if rng.chance(1, 2) { "\n[numthreads(1, 1, 1)] void CS() { gv; }\nPipeline P { ComputeShader = CS; }" } else { "" };
    let body = match rng.below(40) {
        26 => format!("struct {} {{ int q; }}; {} gq; void h() {{ {} l; }}", nm, nm, nm),
        27 => format!("enum {} {{ Z0, Z1 }}; void h() {{ {} l = Z0; int i = (int)l; }}", nm, nm),
        28 => format!("typedef int {}; void h() {{ {} l = 1; }}", nm, nm),
        29 => format!("int {}(int p) {{ return p; }} void h() {{ int l = {}(1); }}", nm, nm),
        30 => format!("namespace {} {{ static const int q = 1; }} void h() {{ int l = {}::q; }}", nm, nm),
        31 => format!("static int {} = 1; void h() {{ int l = {}; }}", nm, nm),
        32 => format!("void h(int {}) {{ int l = {}; }}", nm, nm),
        33 => format!("void h() {{ int {} = 1; int l = {} + 1; }}", nm, nm),
        34 => format!("struct Q {{ int {}; int get2() {{ return {}; }} }}; void h() {{ Q q; q.{} = 1; }}", nm, nm, nm),
        35 => format!("template<typename {}> {} id2({} p) {{ return p; }} void h() {{ id2<int>(1); }}", nm, nm, nm),
        36 => format!("cbuffer {} {{ int cq; }} void h() {{ int l = cq; }}", nm),
        37 => format!("cbuffer C3 {{ int {}; }} void h() {{ int l = {}; }}", nm, nm),
        38 => format!("enum E3 {{ {} = 2, Z9 }}; void h() {{ int l = (int){}; }}", nm, nm),
        39 => format!("{} gv;\n{} gw[2];{}", ty, ty2, entry),
        0 => format!("void h() {{ int x = 1; int y = 2; S s; {} r = {}; }}", ty, e),
        1 => format!("void h() {{ int x = 1; int y = 2; S s; {} {} ({}); }}", e, op, e2),
        2 => format!("void h() {{ int x = 1; int y = 2; S s; {}({}); }}", un, e),
        3 => format!("void h() {{ int x = 1; int y = 2; S s; {}; }}", z),
        4 => format!("{} gv;{}", ty, entry),
        5 => format!("{} gv = {};{}", ty, e, entry),
        6 => format!("static const {} gv = {};{}", ty, e, entry),
        7 => format!("{} gv[{}];{}", ty, e, entry),
        8 => format!("struct Q {{ {} m0; {} m1 : {}; }};", ty, ty2, z),
        9 => format!("struct Q {{ {}; }};", z),
        10 => format!("{} h({} p0, {} p1 = {}) {{ return {}; }}", ty, ty2, ty, e, e2),
        11 => format!("void h({}) {{ }}", z),
        12 => format!("[{}] void h() {{ }}", z),
        13 => format!("[numthreads({}, {}, 1)] void CS() {{ }}\nPipeline P {{ ComputeShader = CS; }}", e, e2),
        14 => format!("[numthreads(1, 1, 1)] void CS() {{ }}\nPipeline P {{ ComputeShader = CS; {} }}", z),
        15 => format!("[numthreads(1, 1, 1)] void CS({} p : {}) {{ }}\nPipeline P {{ ComputeShader = CS; }}", ty, *rng.pick(&["SV_DispatchThreadID", "SV_GroupID", "SV_GroupIndex", "SV_Position", "TEXCOORD0", "SV_VertexID", "nope", "SV_Target0", "SV_Depth"])),
        16 => format!("{} VS({} p : {}) : {} {{ return ({})0; }}\nfloat4 PS() : SV_Target0 {{ return 0; }}\nPipeline P {{ VertexShader = VS; PixelShader = PS; {} }}", ty, ty2, *rng.pick(&["SV_VertexID", "POSITION", "TEXCOORD0"]), *rng.pick(&["SV_Position", "TEXCOORD0", "SV_Target0"]), ty, z),
        17 => format!("cbuffer C2 {{ {} c0; {} c1 : {}; }}", ty, ty2, z),
        18 => format!("cbuffer C2 : register({}) {{ float c0; }}\n{} r0 : register({});", z, ty, soup(&mut rng, 2)),
        19 => format!("enum E2 {{ K0 = {}, K1, K2 = {} }};", e, e2),
        20 => format!("typedef {} TT; TT gv2; void h() {{ TT l = {}; }}", ty, e),
        21 => format!("template<{}> {} h2({} p) {{ return p; }} void h() {{ h2<{}>({}); }}", *rng.pick(&["typename U", "int N", "typename U, int N", "typename", "uint N = 2", "typename U = float"]), ty, ty2, *rng.pick(TYPES), e),
        22 => format!("template<typename U> struct B2 {{ U v; }}; void h() {{ B2<{}> b; b.v = {}; }}", ty, e),
        23 => format!("void h() {{ int x = 1; S s; {} ({}) {{ {}; }} }}", *rng.pick(&["if", "while", "switch", "for (;;) if"]), e, e2),
        24 => format!("void h() {{ int x = 1; for ({}; {}; {}) {{ }} switch (x) {{ case {}: break; default: {}; }} }}", z, e, e2, e, e2),
        _ => format!("[[{}]] {} r1;\n{} r2 = StaticSampler {{ {} }};", z, ty, ty2, soup(&mut rng, 3)),
    };
    format!("{}{}\n", prelude, body)
}

/// extreme constant expressions in the positions that are evaluated at compile time
pub const CONST_EXPRS: &[&str] = &[
    "(-2147483647 - 1) % -1", "(-2147483647 - 1) / -1", "(-2147483647 - 1) * -1", "-(-2147483647 - 1)", "(-2147483647 - 1) - 1", "2147483647 + 1", "2147483647 * 2", "0u - 1u", "4294967295u + 1u",
    "4294967295u * 4294967295u", "1 << 31", "1 << 32", "1 << 33", "1 << -1", "1u << 32u", "1u << 4294967295u", "-1 >> 40", "1u >> 32u", "1 / 0", "1 % 0", "1u / 0u", "1u % 0u", "1.0 / 0.0", "0.0 / 0.0", "5 % -3", "-5 / 2",
    "(int)4294967295u", "(uint)-1", "(int)1e20", "(uint)-1.5", "(int)(1.0 / 0.0)", "(uint)(0.0 / 0.0)", "(int)3000000000.0", "(bool)2", "(int)true + (int)true", "~0", "~0u", "!5", "-2147483648", "2147483648", "4294967296",
    "-9223372036854775807 - 2", "9223372036854775807 + 1", "18446744073709551615 + 1", "18446744073709551615 * 2", "1e308 * 10.0", "-1e308 * 10.0", "1e-320 / 10.0", "(float)1e39", "(half)65520.0", "(half)1e-10",
    "true ? 1 : (1 / 0)", "false && (1 / 0) == 0", "sizeof(int) - 8u", "(int)sizeof(float4x4) * 1000000000", "abs(-2147483647 - 1)", "min(1, 2u)", "max(-1, 1u)", "(int)EK::A - 2147483647 - 2", "EK::A", "(EK)5",
];

/// every attribute spelling in front of every kind of declaration and statement
pub const ATTRS: &[&str] = &[
    "[[rssl::bindless]]", "[[rssl::bindless(1)]]", "[[rssl::bind_group(1)]]", "[[rssl::bind_group(1, 2)]]", "[[rssl::bind_group]]", "[[rssl::bind_group(-1)]]", "[[rssl::bind_group(1.5)]]",
    "[[vk::binding(1)]]", "[[vk::binding(1, 2)]]", "[[vk::binding(1, 2, 3)]]", "[[vk::binding]]", "[[vk::push_constant]]", "[[rssl::nothing]]", "[[other::x]]", "[[x]]",
    "[numthreads(1, 1, 1)]", "[numthreads(1, 1)]", "[numthreads]", "[unroll]", "[unroll(4)]", "[unroll(4, 5)]", "[loop]", "[branch]", "[flatten]", "[fastopt]", "[allow_uav_condition]", "[forcecase]", "[call]",
    "[outputtopology(\"triangle\")]", "[outputtopology(3)]", "[WaveSize(32)]", "[earlydepthstencil]", "[maxvertexcount(3)]", "[noinline]", "[nothing]", "[nothing(1, \"s\")]",
];
pub const ATTR_POSITIONS: &[&str] = &[
    "@ cbuffer C { float4 t; }\n", "cbuffer C { @ float4 t; }\n", "@ Texture2D<float4> g;\n", "@ RWByteAddressBuffer g;\n", "@ SamplerState g;\n", "@ Texture2D<float4> g[4];\n", "@ Texture2D<float4> g[];\n",
    "struct S { float4 m; };\n@ ConstantBuffer<S> g;\n", "struct S { float4 m; };\n@ StructuredBuffer<S> g;\n", "@ BufferAddress g;\n", "@ static int g = 1;\n", "@ static const int g = 1;\n", "@ groupshared int g[4];\n", "@ int g;\n",
    "@ struct S { int m; };\n", "struct S { @ int m; };\n", "struct S { @ int m() { return 1; } };\n", "@ enum E { A };\n", "enum E { @ A };\n", "@ namespace N { int v; }\n", "@ typedef int T;\n",
    "@ void f() {}\n", "@ void f();\n", "void f(@ int p) {}\n", "@ template<typename T> T id(T v) { return v; }\n", "void f() { @ int l = 0; }\n", "void f(int a) { @ if (a) {} }\n", "void f(int a) { @ if (a) {} else {} }\n",
    "void f(int a) { @ for (int i = 0; i < 2; ++i) {} }\n", "void f(int a) { @ while (a) { a = 0; } }\n", "void f(int a) { @ do { a = 0; } while (a); }\n", "void f(int a) { @ switch (a) { case 1: break; default: break; } }\n",
    "void f(int a) { switch (a) { @ case 1: break; } }\n", "void f(int a) { @ return; }\n", "void f(int a) { @ { a = 1; } }\n", "void f(int a) { @ a = 1; }\n", "void f(int a) { @ ; }\n",
    "@ [numthreads(1, 1, 1)] void CS2() {}\nPipeline P2 { ComputeShader = CS2; }\n", "[numthreads(1, 1, 1)] @ void CS2() {}\nPipeline P2 { ComputeShader = CS2; }\n", "[numthreads(1, 1, 1)] void CS2() {}\n@ Pipeline P2 { ComputeShader = CS2; }\n",
    "[numthreads(1, 1, 1)] void CS2() {}\nPipeline P2 { @ ComputeShader = CS2; }\n", "@\n", "@ ;\n",
];

fn attr_probe(i: usize) -> Option<String> {
    let a = ATTRS.get(i / ATTR_POSITIONS.len())?;
    let p = ATTR_POSITIONS[i % ATTR_POSITIONS.len()];
    Some(format!("{}[numthreads(1, 1, 1)] void CSMAIN() {{}}\nPipeline Main {{ ComputeShader = CSMAIN; }}\n", p.replace('@', a)))
}

/// every pipeline property (and a few words that are none) with every kind of value, once or twice, in a compute,
/// a vertex+pixel, a mesh+pixel and a stage-less pipeline
pub const PIPE_PROPS: &[&str] = &[
    "RenderTargetFormat0", "RenderTargetFormat3", "RenderTargetFormat7", "RenderTargetFormat8", "RenderTargetFormat", "DepthTargetFormat", "DefaultBindGroup", "CullMode", "WindingOrder",
    "BlendState", "BlendState0", "BlendEnabled", "SrcBlend", "WriteMask", "ComputeShader", "VertexShader", "PixelShader", "MeshShader", "TaskShader", "Nothing",
];
pub const PIPE_VALUES: &[&str] = &[
    "\"R8G8B8A8_UNORM\"", "\"D32_FLOAT\"", "\"\"", "Back", "Clockwise", "None", "CSMAIN", "VSMAIN", "nothing", "0", "3", "-1", "4000000000", "1.5", "true",
    "{ BlendEnabled = true; SrcBlend = One; DstBlend = Zero; BlendOp = Add; }", "{ SrcBlend = 3; }", "{ WriteMask = 15; }", "{ WriteMask = RGBA; }", "{ Nothing = 1; }", "{ }", "{ BlendState = { }; }",
];
pub const PIPE_SHAPES: &[&str] = &["ComputeShader = CSMAIN;", "VertexShader = VSMAIN; PixelShader = PSMAIN;", "MeshShader = MSMAIN; PixelShader = PSMAIN;", ""];

fn pipe_probe(i: usize) -> Option<String> {
    let shape = PIPE_SHAPES[i % PIPE_SHAPES.len()];
    let i = i / PIPE_SHAPES.len();
    let twice = i % 2 == 1;
    let i = i / 2;
    let v = PIPE_VALUES[i % PIPE_VALUES.len()];
    let p = PIPE_PROPS.get(i / PIPE_VALUES.len())?;
    let prop = format!("{} = {};", p, v).replace("};", "}");
    let body = if twice { format!("{} {} {}", prop, shape, prop) } else { format!("{} {}", shape, prop) };
    Some(format!("struct VA {{ float4 position : SV_Position; }};\n[numthreads(1, 1, 1)] void CSMAIN() {{}}\nfloat4 VSMAIN(uint vid : SV_VertexID) : SV_Position {{ return float4(0, 0, 0, 1); }}\nfloat4 PSMAIN(float4 pos : SV_Position) : SV_Target0 {{ return pos; }}\n[numthreads(32, 1, 1)] [outputtopology(\"triangle\")] void MSMAIN(uint3 dtid : SV_DispatchThreadID, out vertices VA o_v[32], out indices uint3 o_t[32]) {{ SetMeshOutputCounts(32, 32); VA v; v.position = float4(0, 0, 0, 1); o_v[dtid.x] = v; o_t[dtid.x] = uint3(0, 1, 2); }}\nPipeline Main {{ {} }}\n", body))
}

/// every directive with well-formed and cut-off operands (unclosed parentheses, missing operands, cut-off strings and
/// parameter lists)
pub const DIRECTIVE_HEADS: &[&str] = &["#if", "#elif", "#ifdef", "#ifndef", "#define", "#undef", "#include", "#pragma", "#else", "#endif", "#", "#line", "#error", "# if", "#if defined"];
pub const DIRECTIVE_TAILS: &[&str] = &[
    "", " ", " (", " (1", " (1))", " ()", " 1 +", " 1 ||", " &&", " !", " !(X", " defined", " defined(", " defined(A", " defined A B", " defined(A) && (B", " (RSSL_TARGET_MSL", " A", " A B", " A(", " A(x",
    " A(x,", " A(x,)", " A(x) x ##", " A(x) ## x", " A(x) #x", " \"", " \"a.h", " <", " <a.h", " once", " once once", " 1 ? 2 : 3", " 0x", " 1.5", " 18446744073709551616", " -1", " (-(1))", " 1 / 0", " 1 % 0",
    " 1 << 64", " A ## B", " ((((((((1", " 1 == ", " (1 == 1", " !!!!!!", " 1 1", " ) (", " A(", " A)", " ,",
];

fn directive_probe(i: usize) -> Option<String> {
    let head = DIRECTIVE_HEADS.get(i / DIRECTIVE_TAILS.len())?;
    let tail = DIRECTIVE_TAILS[i % DIRECTIVE_TAILS.len()];
    Some(match *head {
        "#elif" => format!("#define A 1\n#if 0\nint w;\n#elif{}\nint x;\n#endif\nint y;\n", tail),
        "#else" => format!("#if 0\nint w;\n#else{}\nint x;\n#endif\n", tail),
        "#endif" => format!("#if 1\nint x;\n#endif{}\nint y;\n", tail),
        "#if" | "#ifdef" | "#ifndef" | "# if" | "#if defined" => format!("#define A 1\n{}{}\nint x;\n#endif\nint y;\n", head, tail),
        _ => format!("{}{}\nint x;\n", head, tail),
    })
}

fn const_probe(i: usize) -> Option<String> {
    let e = CONST_EXPRS.get(i / 8)?;
    let pre = "enum EK { A = 1, B = -3 };\n";
    Some(match i % 8 {
        0 => format!("{}static const int c = {};\nfloat f(float x[c + 4]) {{ return x[0]; }}\n", pre, e),
        1 => format!("{}static const uint c = {};\n", pre, e),
        2 => format!("{}static const float c = {};\n", pre, e),
        3 => format!("{}float a[{}];\n", pre, e),
        4 => format!("{}enum E2 {{ K0 = {}, K1 }};\n", pre, e),
        5 => format!("{}[numthreads({}, 1, 1)] void CS() {{}}\nPipeline P {{ ComputeShader = CS; }}\n", pre, e),
        6 => format!("{}void f(int a) {{ switch (a) {{ case {}: break; }} }}\n", pre, e),
        _ => format!("{}void f() {{ [unroll({})] for (int i = 0; i < 2; ++i) {{}} int l = {}; }}\n", pre, e, e),
    })
}

fn nest(kind: &str, n: usize) -> Option<Input> {
    let r = |s: &str| s.repeat(n);
    let text = match kind {
        "paren" => format!("int f() {{ return {}1{}; }}\n", r("("), r(")")),
        "paren-open" => format!("int f() {{ return {}1; }}\n", r("(")),
        "block" => format!("void f() {{ {} {} }}\n", r("{ "), r("} ")),
        "block-open" => format!("void f() {{ {}\n", r("{ ")),
        "if" => format!("void f(int a) {{ {} a = 1; }}\n", r("if (a) ")),
        "ifelse" => format!("int f(int a) {{ {} return 0; }}\n", r("if (a == 1) return 1; else ")),
        "ternary" => format!("int f(int a) {{ return {}0; }}\n", r("a ? 1 : ")),
        "cast" => format!("int f(int a) {{ return {}a; }}\n", r("(int)")),
        "castlike" => format!("int f(int a, int b) {{ return {}a; }}\n", r("(b) - ")),
        "castlike2" => format!("int f(int a, int b) {{ return {}+a; }}\n", r("(b)")),
        "unary" => format!("int f(int a) {{ return {}a; }}\n", r("-")),
        "not" => format!("int f(int a) {{ return {}a; }}\n", r("!")),
        "binary" => format!("int f(int a) {{ return a{}; }}\n", r(" + a")),
        "call" => format!("int g(int a) {{ return a; }} int f(int a) {{ return {}a{}; }}\n", r("g("), r(")")),
        "index" => format!("int f(int a[2]) {{ return a{}; }}\n", r("[0]")),
        "member" => format!("struct S {{ int x; }}; int f(S s) {{ return s{}; }}\n", r(".x")),
        "array" => format!("static int a{};\n", r("[2]")),
        "template" => format!("template<typename T> struct B {{ T v; }}; static {}int{} x;\n", r("B<"), r(" >")),
        "angle" => format!("int f(int a) {{ return a {} a; }}\n", r("< a >")),
        "namespace" => format!("{} int x; {}\n", r("namespace N { "), r("} ")),
        "struct" => format!("{}\n", (0..n).map(|i| format!("struct S{} {{ {} m; }};", i, if i == 0 { "int".to_string() } else { format!("S{}", i - 1) })).collect::<Vec<_>>().join(" ")),
        "macro-chain" => format!("{}\nint x = M{};\n", (0..n).map(|i| format!("#define M{} M{}", i + 1, i)).collect::<Vec<_>>().join("\n"), n),
        "macro-nest" => format!("#define F(x) (x)\nint y = {}1{};\n", r("F("), r(")")),
        "macro-double" => format!("{}\nint x = M{};\n", (0..n).map(|i| format!("#define M{} M{} M{}", i + 1, i, i)).collect::<Vec<_>>().join("\n"), n.min(18)),
        "macro-self" => "#define f(x) x f(x)\n#define a f(a) a\nint z = a f(a) f(f(a));\n".to_string(),
        "ifdef" => format!("{}int x;\n{}", r("#if 1\n"), r("#endif\n")),
        "ifdef-open" => format!("{}int x;\n", r("#if 1\n")),
        "include-self" => "#include \"main.rssl\"\nint x;\n".to_string(),
        "include-cycle" => "#include \"a.h\"\nint x;\n".to_string(),
        "include-once" => "#pragma once\n#include \"main.rssl\"\nint x;\n".to_string(),
        "include-deep" => "#include \"d0.h\"\nint x;\n".to_string(),
        "comment" => format!("{} int x;\n", r("/* ")),
        "string" => format!("#include \"{}\n", r("a")),
        "line-cont" => format!("int x = 1 {};\n", r("\\\n")),
        "long-ident" => format!("int {};\n", r("a")),
        "long-literal" => format!("int x = {};\n", r("9")),
        "long-float" => format!("float x = 0.{}f;\n", r("9")),
        "long-exp" => format!("float x = 1e{};\n", r("9")),
        "many-args" => format!("int g({}) {{ return 0; }}\n", (0..n).map(|i| format!("int a{}", i)).collect::<Vec<_>>().join(", ")),
        "many-overloads" => (0..n).map(|i| format!("int g({}) {{ return {}; }}", (0..=i).map(|k| format!("int a{}", k)).collect::<Vec<_>>().join(", "), i)).collect::<Vec<_>>().join("\n") + "\n",
        "many-pipelines" => "[numthreads(1,1,1)] void CS() {}\n".to_string() + &(0..n).map(|i| format!("Pipeline P{} {{ ComputeShader = CS; }}", i)).collect::<Vec<_>>().join("\n") + "\n",
        "many-resources" => (0..n).map(|i| format!("Texture2D<float4> t{};", i)).collect::<Vec<_>>().join("\n") + "\n[numthreads(1,1,1)] void CS() { float4 v = t0.Load(int3(0,0,0)); }\nPipeline Main { ComputeShader = CS; }\n",
        "big-array" => format!("static int a[{}];\nStructuredBuffer<uint> b[{}];\n", n, n),
        "big-struct-array" => format!("struct S {{ float4 a[{}]; float4 b[{}]; }};\ncbuffer C {{ S s[{}]; }}\n", n, n, n),
        "space" => format!("Texture2D<float4> t : register(t0, space{});\n[numthreads(1,1,1)] void CS() {{ float4 v = t.Load(int3(0,0,0)); }}\nPipeline Main {{ ComputeShader = CS; }}\n", n),
        "bind-group" => format!("[[rssl::bind_group({})]] Texture2D<float4> t;\n[numthreads(1,1,1)] void CS() {{ float4 v = t.Load(int3(0,0,0)); }}\nPipeline Main {{ ComputeShader = CS; DefaultBindGroup = {}; }}\n", n, n),
        "numthreads" => format!("[numthreads({}, {}, {})] void CS() {{ }}\nPipeline Main {{ ComputeShader = CS; }}\n", n, n, n),
        "shift" => format!("static const int a = 1 << {}; static const uint b = 1u >> {}; static const int c = -1 << {};\n", n, n, n),
        "arith" => format!("static const int a = 2147483647 + {}; static const uint b = 0u - {}u; static const int c = -2147483647 - {}; static const int d = {} / 0; static const int e = {} % 0; static const int m = -2147483648 / -1;\n", n, n, n, n, n),
        "enum" => format!("enum E {{ A = {}, B, C = -{}, D = 4294967295, F }};\nstatic const int x = (int)B + (int)F;\n", n, n),
        "packoffset" => format!("cbuffer C {{ float4 a : packoffset(c{}); float b : packoffset(c{}.y); }}\n", n, n),
        _ => return None,
    };
    let mut extra = Vec::new();
    if kind == "include-cycle" { extra.push(("a.h".to_string(), "#include \"b.h\"\n".to_string())); extra.push(("b.h".to_string(), "#include \"a.h\"\n".to_string())); }
    if kind == "include-deep" { for i in 0..n { extra.push((format!("d{}.h", i), if i + 1 < n { format!("#include \"d{}.h\"\nint v{};\n", i + 1, i) } else { "int last;\n".to_string() })); } }
    Some(Input { entry: "main.rssl".into(), text, root: None, extra, defines: false })
}

pub fn input_of(w: &[&str]) -> Option<Input> {
    let plain = |text: String| Some(Input { entry: "main.rssl".into(), text, root: None, extra: vec![], defines: false });
    match (w.first().copied()?, w.len()) {
        ("B", 3) => {
            let mut rng = Rng::new(w[1].parse().ok()?);
            let len: usize = w[2].parse().ok()?;
            let mut s = String::new();
            while s.len() < len { if rng.chance(1, 12) { s += *rng.pick(WORDS); } else { s.push(soup_char(&mut rng)); } }
            plain(s)
        }
        ("T", 3) => {
            let mut rng = Rng::new(w[1].parse().ok()?);
            let len: usize = w[2].parse().ok()?;
            let mut s = String::new();
            while s.len() < len { s += *rng.pick(WORDS); if !rng.chance(1, 10) { s.push(' '); } }
            plain(s)
        }
        ("P", 4) => {
            let seed: u64 = w[1].parse().ok()?;
            let mut rng = Rng::new(seed);
            let mut g = crate::pgen::Gen::new(&mut rng);
            g.struct_templates = true;
            let text = g.program(w[2].parse().ok()?);
            let m: u64 = w[3].parse().ok()?;
            plain(if m == 0 { text } else { mutate(&text, m) })
        }
        ("M", 3) => {
            let all = repo_inputs();
            let (root, entry) = all.get(w[1].parse::<usize>().ok()?)?.clone();
            let path = match &root { Some(r) => format!("{}/{}/{}", repo(), r, entry), None => format!("{}/{}", repo(), entry) };
            let text = std::fs::read_to_string(path).ok()?;
            let m: u64 = w[2].parse().ok()?;
            let text = if m == 0 { text } else { mutate(&text, m) };
            Some(Input { entry: if root.is_some() { entry } else { "main.rssl".into() }, text, root: root.map(|r| format!("{}/{}", repo(), r)), extra: vec![], defines: true })
        }
        ("D", 3) => nest(w[1], w[2].parse().ok()?),
        ("S", 2) => plain(skeleton(w[1].parse().ok()?)),
        ("K", 2) => plain(const_probe(w[1].parse().ok()?)?),
        ("A", 2) => plain(attr_probe(w[1].parse().ok()?)?),
        ("G", 2) => plain(pipe_probe(w[1].parse().ok()?)?),
        ("H", 2) => plain(directive_probe(w[1].parse().ok()?)?),
        ("Q", 2) => {
            // a macro program of the C12 generator (definitions, invocations with right and wrong argument counts,
            // ## pastes, redefinitions, include graphs); the API defines are written as #define lines in front
            let (files, api) = crate::c12::program_files(w[1].parse().ok()?)?;
            let mut text = String::new();
            for (n, v) in &api { text += &format!("#define {} {}\n", n, v); }
            text += &files[0].1;
            Some(Input { entry: files[0].0.clone(), text, root: None, extra: files[1..].to_vec(), defines: false })
        }
        ("F", 2) => {
            let root = std::env::var("RSSL_VERIF").unwrap_or("/verif".into());
            plain(std::fs::read_to_string(format!("{}/{}", root, w[1])).ok()?)
        }
        ("X", 2) => {
            let h = w[1];
            let bytes: Option<Vec<u8>> = (0..h.len() / 2).map(|i| u8::from_str_radix(&h[2 * i..2 * i + 2], 16).ok()).collect();
            plain(String::from_utf8_lossy(&bytes?).to_string())
        }
        _ => None,
    }
}

pub fn run_line(line: &str) -> String {
    let w: Vec<&str> = line.split_whitespace().collect();
    if w.len() < 2 { return "BAD-CASE".into(); }
    let cfg: Vec<&str> = w[0].split('/').collect();
    if cfg.len() != 3 { return "BAD-CASE".into(); }
    let (target, ba) = match target_of(cfg[0]) { Some(t) => t, None => return "BAD-CASE".into() };
    // a failure of the generator is not a failure of the compiler
    let input = match catch(|| input_of(&w[1..])) { Ok(Some(i)) => i, _ => return "BAD-CASE".into() };
    let name: Option<String> = if cfg[1] == "name" {
        let t = &input.text;
        Some(t.find("Pipeline ").and_then(|i| t[i + 9..].split(|c: char| !(c.is_alphanumeric() || c == '_')).next().map(|s| s.to_string())).filter(|s| !s.is_empty()).unwrap_or("Main".into()))
    } else { None };
    let started = std::time::Instant::now();
    take_panic_site();
    let r = catch(|| {
        let mut inc = Override { name: &input.entry, text: &input.text, disk: input.root.clone().map(|root| DiskFiles { root }), extra: &input.extra };
        let defines: &[(&str, &str)] = if input.defines { CORPUS_DEFINES } else { &[] };
        let mut args = rssl::CompileArgs::new(&input.entry, &mut inc, target).support_buffer_address(ba).validate_layout_consistency(cfg[2] == "1").defines(defines);
        if cfg[1] == "nopipe" { args = args.no_pipeline_mode(); }
        args = args.pipeline_name(name.as_deref());
        match rssl::compile(args) {
            Ok(p) => format!("OK {}", p.len()),
            // the diagnostic must render
            Err(e) => { let t = e.to_string(); format!("ERR {}", t.lines().next().unwrap_or("")) }
        }
    });
    let ms = started.elapsed().as_millis();
    match r {
        Ok(s) => format!("{} [{} ms, {} bytes]", s, ms, input.text.len()),
        Err(m) => format!("PANIC {}: {}", take_panic_site().unwrap_or("?".into()), m.lines().next().unwrap_or("")),
    }
}

pub const NEST_KINDS: &[&str] = &[
    "paren", "paren-open", "block", "block-open", "if", "ifelse", "ternary", "cast", "castlike", "castlike2", "unary", "not", "binary", "call", "index", "member", "array", "template",
    "angle", "namespace", "struct", "macro-chain", "macro-nest", "macro-double", "macro-self", "ifdef", "ifdef-open", "include-self", "include-cycle", "include-once", "include-deep",
    "comment", "string", "line-cont", "long-ident", "long-literal", "long-float", "long-exp", "many-args", "many-overloads", "many-pipelines", "many-resources", "big-array",
    "big-struct-array", "space", "bind-group", "numthreads", "shift", "arith", "enum", "packoffset",
];

pub fn gen_cases(seed: u64, n: usize, thorough: bool) -> Vec<String> {
    let mut rng = Rng::new(seed);
    let mut out = Vec::new();
    let cfg = |rng: &mut Rng| format!("{}/{}/{}", rng.pick(&TARGETS), rng.pick(&["all", "name", "nopipe"]), rng.below(2));
    // every repository input, unmodified, on every configuration
    let inputs = repo_inputs().len();
    for i in 0..inputs { for t in TARGETS { for m in ["all", "nopipe"] { out.push(format!("{}/{}/{} M {} 0", t, m, (i + m.len()) % 2, i)); } } }
    // nesting: the depths of the quantifier, and the sizes a 4 KB file can reach
    for k in NEST_KINDS {
        for d in [1usize, 6, 12] { out.push(format!("{} D {} {}", cfg(&mut rng), k, d)); }
        let big: &[usize] = if thorough { &[64, 500, 2000] } else { &[64, 500] };
        for d in big { out.push(format!("{} D {} {}", cfg(&mut rng), k, d)); }
    }
    for i in 0..(CONST_EXPRS.len() * 8) { out.push(format!("{} K {}", cfg(&mut rng), i)); }
    for i in 0..(ATTRS.len() * ATTR_POSITIONS.len()) { out.push(format!("{} A {}", cfg(&mut rng), i)); }
    for i in 0..(PIPE_PROPS.len() * PIPE_VALUES.len() * 2 * PIPE_SHAPES.len()) { out.push(format!("{} G {}", cfg(&mut rng), i)); }
    for i in 0..(DIRECTIVE_HEADS.len() * DIRECTIVE_TAILS.len()) { out.push(format!("{} H {}", cfg(&mut rng), i)); }
    for _ in 0..(n * 6).max(300) { out.push(format!("{} Q {}", cfg(&mut rng), rng.below(1 << 40))); }
    for _ in 0..n {
        out.push(format!("{} B {} {}", cfg(&mut rng), rng.below(1 << 40), rng.range(1, 4096)));
        out.push(format!("{} T {} {}", cfg(&mut rng), rng.below(1 << 40), rng.range(1, 4096)));
        out.push(format!("{} T {} {}", cfg(&mut rng), rng.below(1 << 40), rng.range(1, 200)));
        out.push(format!("{} P {} {} 0", cfg(&mut rng), rng.below(1 << 40), rng.range(2, 20)));
        for _ in 0..3 { out.push(format!("{} P {} {} {}", cfg(&mut rng), rng.below(1 << 40), rng.range(2, 14), 1 + rng.below(1 << 40))); }
        for _ in 0..3 { out.push(format!("{} M {} {}", cfg(&mut rng), rng.below(inputs as u64), 1 + rng.below(1 << 40))); }
        for _ in 0..12 { out.push(format!("{} S {}", cfg(&mut rng), rng.below(1 << 40))); }
    }
    out
}
