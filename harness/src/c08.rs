//! C08: compilation is total.  Case: <config> <kind> <args..>
//!   config = <target>/<all|name|nopipe>/<layout 0|1>     target also MetalBytecode
//!   B seed len          character soup (ASCII-heavy, some control and non-ASCII characters)
//!   T seed len          token soup over the lexer's vocabulary plus extreme literals
//!   P seed size mut     generated program (struct templates on); mut = 0: as generated, else one token-level mutation
//!   M index mut         the index-th repository input (.rssl/.hlsl under tests/, hlsl/tests, msl/tests and the corpus
//!                       entry points, includes from disk); mut as above
//!   D kind n            a construct nested / repeated n times
//!   X hex               the entry file given byte for byte
//! Output: OK n | ERR <first line> | PANIC <file>: <message> ; the supervisor adds ABORT <status> and TIMEOUT.
use crate::common::*;

pub const TARGETS: [&str; 5] = ["HlslForDirectX", "HlslForVulkan", "HlslForVulkan+BA", "Msl", "MetalBytecode"];

fn target_of(name: &str) -> Option<(rssl::Target, bool)> {
    match name {
        "MetalBytecode" => Some((rssl::Target::MetalBytecode, false)),
        other => crate::probe::target_of(other),
    }
}

/// entry file over a disk tree
struct Override<'a> { name: &'a str, text: &'a str, disk: Option<DiskFiles>, extra: &'a [(String, String)] }

impl<'a> rssl::text::IncludeHandler for Override<'a> {
    fn load(&mut self, file_name: &str, parent_name: &str) -> Result<rssl::text::FileData, rssl::text::IncludeError> {
        if file_name == self.name { return Ok(rssl::text::FileData { real_name: file_name.to_string(), contents: self.text.to_string() }); }
        for (n, t) in self.extra { if n == file_name { return Ok(rssl::text::FileData { real_name: n.clone(), contents: t.clone() }); } }
        match &mut self.disk { Some(d) => d.load(file_name, parent_name), None => Err(rssl::text::IncludeError::FileNotFound) }
    }
}

pub struct Input { pub entry: String, pub text: String, pub root: Option<String>, pub extra: Vec<(String, String)>, pub defines: bool }

fn repo() -> String { std::env::var("RSSL_REPO").unwrap_or("/repo".into()) }

pub fn repo_inputs() -> Vec<(Option<String>, String)> {
    let mut v: Vec<(Option<String>, String)> = Vec::new();
    for dir in ["tests/basic", "hlsl/tests", "msl/tests"] {
        if let Ok(rd) = std::fs::read_dir(format!("{}/{}", repo(), dir)) {
            let mut es: Vec<_> = rd.filter_map(|e| e.ok()).map(|e| e.file_name().to_string_lossy().to_string()).filter(|n| n.ends_with(".rssl") || n.ends_with(".hlsl")).collect();
            es.sort();
            for n in es { v.push((None, format!("{}/{}", dir, n))); }
        }
    }
    for (root, entry) in corpus_entries() { v.push((Some(root), entry)); }
    v
}

const WORDS: &[&str] = &[
    "struct", "enum", "namespace", "template", "typename", "typedef", "cbuffer", "static", "const", "extern", "groupshared", "inline", "void", "float", "float4", "int", "uint",
    "uint3", "bool", "half", "double", "float4x4", "float3x3", "if", "else", "for", "while", "do", "switch", "case", "default", "break", "continue", "return", "discard", "in",
    "out", "inout", "register", "packoffset", "space0", "space4", "t0", "u1", "b2", "s3", "Pipeline", "ComputeShader", "VertexShader", "PixelShader", "MeshShader", "TaskShader",
    "DefaultBindGroup", "Texture2D", "RWTexture2D", "StructuredBuffer", "RWStructuredBuffer", "ByteAddressBuffer", "BufferAddress", "RWBufferAddress", "ConstantBuffer",
    "SamplerState", "StaticSampler", "RaytracingAccelerationStructure", "RayQuery", "RayDesc", "numthreads", "unroll", "branch", "outputtopology", "SV_DispatchThreadID",
    "SV_Position", "SV_Target0", "TEXCOORD0", "sizeof", "true", "false", "this", "operator", "vector", "matrix", "row_major", "column_major", "unorm", "snorm", "precise",
    "nointerpolation", "linear", "centroid", "sample", "point", "line", "triangle", "vertices", "indices", "primitives", "payload", "abs", "min", "mul", "dot", "Load", "Store",
    "Sample", "GetDimensions", "InterlockedAdd", "WaveActiveSum", "f", "g", "x", "y", "S", "T", "N", "main", "CSMAIN", "Main", "rssl", "bind_group", "bindless",
    "(", ")", "{", "}", "[", "]", "[[", "]]", "<", ">", "<<", ">>", "<=", ">=", "==", "!=", "=", "+", "-", "*", "/", "%", "&", "|", "^", "~", "!", "&&", "||", "?", ":", "::", ";", ",", ".",
    "++", "--", "+=", "-=", "*=", "/=", "%=", "&=", "|=", "^=", "<<=", ">>=", "#", "##", "#define", "#undef", "#if", "#ifdef", "#ifndef", "#elif", "#else", "#endif", "#include",
    "#pragma", "once", "defined", "#error", "#line", "\\\n", "\n", "\n", "\t", "//", "/*", "*/", "\"", "\"a.h\"", "<a.h>", "'", "\\",
    "0", "1", "2", "7", "0x7fffffff", "0x80000000", "0xffffffff", "0xffffffffffffffff", "0x10000000000000000", "4294967295", "4294967296", "2147483647", "2147483648", "-2147483648",
    "9223372036854775807", "9223372036854775808", "18446744073709551615", "18446744073709551616", "99999999999999999999999999", "0u", "1u", "1U", "1l", "1L", "1ul", "1lu", "08", "0x", "0b1",
    "1.0", "1.0f", "1.0h", "1.0L", "1e38f", "1e39f", "1e-46f", "1e309", "1e-400", "1e99999", "3.4028235e38f", "65504.0h", "65520.0h", "1.", ".5", "1e", "1e+", "1.0e-", "0x1.8p3", "1f", "1.0ff",
    "RSSL_TARGET_HLSL", "RSSL_TARGET_MSL", "__FILE__", "__LINE__",
];

fn soup_char(rng: &mut Rng) -> char {
    match rng.below(20) {
        0 => char::from_u32(rng.below(32) as u32).unwrap_or(' '),
        1 => char::from_u32(0x80 + rng.below(0x800) as u32).unwrap_or('?'),
        2 => *rng.pick(&['\u{feff}', '\u{2028}', '\u{1F600}', '\u{0}', '\r', '\u{7f}', '\u{a0}']),
        3 | 4 => *rng.pick(&['(', ')', '{', '}', '[', ']', '<', '>', ';', ',', '#', '"', '\\', '\n', '/', '*']),
        _ => char::from_u32(32 + rng.below(95) as u32).unwrap_or(' '),
    }
}

fn tokens_of(text: &str) -> Vec<String> {
    // a coarse split that keeps every character: identifiers/numbers, whitespace runs, single other characters
    let mut out: Vec<String> = Vec::new();
    let mut cur = String::new();
    let mut class = 0;
    for c in text.chars() {
        let k = if c.is_alphanumeric() || c == '_' || c == '.' { 1 } else if c.is_whitespace() { 2 } else { 3 };
        if k != class || k == 3 { if !cur.is_empty() { out.push(std::mem::take(&mut cur)); } class = k; }
        cur.push(c);
    }
    if !cur.is_empty() { out.push(cur); }
    out
}

fn mutate(text: &str, seed: u64) -> String {
    let mut rng = Rng::new(seed);
    let mut toks = tokens_of(text);
    if toks.is_empty() { return WORDS[(seed % WORDS.len() as u64) as usize].to_string(); }
    let i = rng.below(toks.len() as u64) as usize;
    match rng.below(9) {
        0 => { toks.remove(i); }
        1 => { toks.insert(i, rng.pick(WORDS).to_string()); }
        2 => { toks[i] = rng.pick(WORDS).to_string(); }
        3 => { let j = rng.below(toks.len() as u64) as usize; toks.swap(i, j); }
        4 => { let t = toks[i].clone(); toks.insert(i, t); }
        5 => { let j = (i + 1 + rng.below(12) as usize).min(toks.len()); toks.drain(i..j); }
        6 => { toks.truncate(i); }
        7 => { let j = (i + 1 + rng.below(30) as usize).min(toks.len()); let seg: Vec<String> = toks[i..j].to_vec(); for _ in 0..rng.range(1, 3) { for (k, s) in seg.iter().enumerate() { toks.insert(i + k, s.clone()); } } }
        _ => { let c = soup_char(&mut rng); toks.insert(i, c.to_string()); }
    }
    toks.concat()
}

fn nest(kind: &str, n: usize) -> Option<Input> {
    let r = |s: &str| s.repeat(n);
    let text = match kind {
        "paren" => format!("int f() {{ return {}1{}; }}\n", r("("), r(")")),
        "paren-open" => format!("int f() {{ return {}1; }}\n", r("(")),
        "block" => format!("void f() {{ {} {} }}\n", r("{ "), r("} ")),
        "block-open" => format!("void f() {{ {}\n", r("{ ")),
        "if" => format!("void f(int a) {{ {} a = 1; }}\n", r("if (a) ")),
        "ifelse" => format!("int f(int a) {{ {} return 0; }}\n", r("if (a == 1) return 1; else ")),
        "ternary" => format!("int f(int a) {{ return {}0; }}\n", r("a ? 1 : ")),
        "cast" => format!("int f(int a) {{ return {}a; }}\n", r("(int)")),
        "castlike" => format!("int f(int a, int b) {{ return {}a; }}\n", r("(b) - ")),
        "castlike2" => format!("int f(int a, int b) {{ return {}+a; }}\n", r("(b)")),
        "unary" => format!("int f(int a) {{ return {}a; }}\n", r("-")),
        "not" => format!("int f(int a) {{ return {}a; }}\n", r("!")),
        "binary" => format!("int f(int a) {{ return a{}; }}\n", r(" + a")),
        "call" => format!("int g(int a) {{ return a; }} int f(int a) {{ return {}a{}; }}\n", r("g("), r(")")),
        "index" => format!("int f(int a[2]) {{ return a{}; }}\n", r("[0]")),
        "member" => format!("struct S {{ int x; }}; int f(S s) {{ return s{}; }}\n", r(".x")),
        "array" => format!("static int a{};\n", r("[2]")),
        "template" => format!("template<typename T> struct B {{ T v; }}; static {}int{} x;\n", r("B<"), r(" >")),
        "angle" => format!("int f(int a) {{ return a {} a; }}\n", r("< a >")),
        "namespace" => format!("{} int x; {}\n", r("namespace N { "), r("} ")),
        "struct" => format!("{}\n", (0..n).map(|i| format!("struct S{} {{ {} m; }};", i, if i == 0 { "int".to_string() } else { format!("S{}", i - 1) })).collect::<Vec<_>>().join(" ")),
        "macro-chain" => format!("{}\nint x = M{};\n", (0..n).map(|i| format!("#define M{} M{}", i + 1, i)).collect::<Vec<_>>().join("\n"), n),
        "macro-nest" => format!("#define F(x) (x)\nint y = {}1{};\n", r("F("), r(")")),
        "macro-double" => format!("{}\nint x = M{};\n", (0..n).map(|i| format!("#define M{} M{} M{}", i + 1, i, i)).collect::<Vec<_>>().join("\n"), n.min(18)),
        "macro-self" => "#define f(x) x f(x)\n#define a f(a) a\nint z = a f(a) f(f(a));\n".to_string(),
        "ifdef" => format!("{}int x;\n{}", r("#if 1\n"), r("#endif\n")),
        "ifdef-open" => format!("{}int x;\n", r("#if 1\n")),
        "include-self" => "#include \"main.rssl\"\nint x;\n".to_string(),
        "include-cycle" => "#include \"a.h\"\nint x;\n".to_string(),
        "include-once" => "#pragma once\n#include \"main.rssl\"\nint x;\n".to_string(),
        "include-deep" => "#include \"d0.h\"\nint x;\n".to_string(),
        "comment" => format!("{} int x;\n", r("/* ")),
        "string" => format!("#include \"{}\n", r("a")),
        "line-cont" => format!("int x = 1 {};\n", r("\\\n")),
        "long-ident" => format!("int {};\n", r("a")),
        "long-literal" => format!("int x = {};\n", r("9")),
        "long-float" => format!("float x = 0.{}f;\n", r("9")),
        "long-exp" => format!("float x = 1e{};\n", r("9")),
        "many-args" => format!("int g({}) {{ return 0; }}\n", (0..n).map(|i| format!("int a{}", i)).collect::<Vec<_>>().join(", ")),
        "many-overloads" => (0..n).map(|i| format!("int g({}) {{ return {}; }}", (0..=i).map(|k| format!("int a{}", k)).collect::<Vec<_>>().join(", "), i)).collect::<Vec<_>>().join("\n") + "\n",
        "many-pipelines" => "[numthreads(1,1,1)] void CS() {}\n".to_string() + &(0..n).map(|i| format!("Pipeline P{} {{ ComputeShader = CS; }}", i)).collect::<Vec<_>>().join("\n") + "\n",
        "many-resources" => (0..n).map(|i| format!("Texture2D<float4> t{};", i)).collect::<Vec<_>>().join("\n") + "\n[numthreads(1,1,1)] void CS() { float4 v = t0.Load(int3(0,0,0)); }\nPipeline Main { ComputeShader = CS; }\n",
        "big-array" => format!("static int a[{}];\nStructuredBuffer<uint> b[{}];\n", n, n),
        "big-struct-array" => format!("struct S {{ float4 a[{}]; float4 b[{}]; }};\ncbuffer C {{ S s[{}]; }}\n", n, n, n),
        "space" => format!("Texture2D<float4> t : register(t0, space{});\n[numthreads(1,1,1)] void CS() {{ float4 v = t.Load(int3(0,0,0)); }}\nPipeline Main {{ ComputeShader = CS; }}\n", n),
        "bind-group" => format!("[[rssl::bind_group({})]] Texture2D<float4> t;\n[numthreads(1,1,1)] void CS() {{ float4 v = t.Load(int3(0,0,0)); }}\nPipeline Main {{ ComputeShader = CS; DefaultBindGroup = {}; }}\n", n, n),
        "numthreads" => format!("[numthreads({}, {}, {})] void CS() {{ }}\nPipeline Main {{ ComputeShader = CS; }}\n", n, n, n),
        "shift" => format!("static const int a = 1 << {}; static const uint b = 1u >> {}; static const int c = -1 << {};\n", n, n, n),
        "arith" => format!("static const int a = 2147483647 + {}; static const uint b = 0u - {}u; static const int c = -2147483647 - {}; static const int d = {} / 0; static const int e = {} % 0; static const int m = -2147483648 / -1;\n", n, n, n, n, n),
        "enum" => format!("enum E {{ A = {}, B, C = -{}, D = 4294967295, F }};\nstatic const int x = (int)B + (int)F;\n", n, n),
        "packoffset" => format!("cbuffer C {{ float4 a : packoffset(c{}); float b : packoffset(c{}.y); }}\n", n, n),
        _ => return None,
    };
    let mut extra = Vec::new();
    if kind == "include-cycle" { extra.push(("a.h".to_string(), "#include \"b.h\"\n".to_string())); extra.push(("b.h".to_string(), "#include \"a.h\"\n".to_string())); }
    if kind == "include-deep" { for i in 0..n { extra.push((format!("d{}.h", i), if i + 1 < n { format!("#include \"d{}.h\"\nint v{};\n", i + 1, i) } else { "int last;\n".to_string() })); } }
    Some(Input { entry: "main.rssl".into(), text, root: None, extra, defines: false })
}

pub fn input_of(w: &[&str]) -> Option<Input> {
    let plain = |text: String| Some(Input { entry: "main.rssl".into(), text, root: None, extra: vec![], defines: false });
    match (w.first().copied()?, w.len()) {
        ("B", 3) => {
            let mut rng = Rng::new(w[1].parse().ok()?);
            let len: usize = w[2].parse().ok()?;
            let mut s = String::new();
            while s.len() < len { if rng.chance(1, 12) { s += *rng.pick(WORDS); } else { s.push(soup_char(&mut rng)); } }
            plain(s)
        }
        ("T", 3) => {
            let mut rng = Rng::new(w[1].parse().ok()?);
            let len: usize = w[2].parse().ok()?;
            let mut s = String::new();
            while s.len() < len { s += *rng.pick(WORDS); if !rng.chance(1, 10) { s.push(' '); } }
            plain(s)
        }
        ("P", 4) => {
            let seed: u64 = w[1].parse().ok()?;
            let mut rng = Rng::new(seed);
            let mut g = crate::pgen::Gen::new(&mut rng);
            g.struct_templates = true;
            let text = g.program(w[2].parse().ok()?);
            let m: u64 = w[3].parse().ok()?;
            plain(if m == 0 { text } else { mutate(&text, m) })
        }
        ("M", 3) => {
            let all = repo_inputs();
            let (root, entry) = all.get(w[1].parse::<usize>().ok()?)?.clone();
            let path = match &root { Some(r) => format!("{}/{}/{}", repo(), r, entry), None => format!("{}/{}", repo(), entry) };
            let text = std::fs::read_to_string(path).ok()?;
            let m: u64 = w[2].parse().ok()?;
            let text = if m == 0 { text } else { mutate(&text, m) };
            Some(Input { entry: if root.is_some() { entry } else { "main.rssl".into() }, text, root: root.map(|r| format!("{}/{}", repo(), r)), extra: vec![], defines: true })
        }
        ("D", 3) => nest(w[1], w[2].parse().ok()?),
        ("X", 2) => {
            let h = w[1];
            let bytes: Option<Vec<u8>> = (0..h.len() / 2).map(|i| u8::from_str_radix(&h[2 * i..2 * i + 2], 16).ok()).collect();
            plain(String::from_utf8_lossy(&bytes?).to_string())
        }
        _ => None,
    }
}

pub fn run_line(line: &str) -> String {
    let w: Vec<&str> = line.split_whitespace().collect();
    if w.len() < 2 { return "BAD-CASE".into(); }
    let cfg: Vec<&str> = w[0].split('/').collect();
    if cfg.len() != 3 { return "BAD-CASE".into(); }
    let (target, ba) = match target_of(cfg[0]) { Some(t) => t, None => return "BAD-CASE".into() };
    let input = match input_of(&w[1..]) { Some(i) => i, None => return "BAD-CASE".into() };
    let name: Option<String> = if cfg[1] == "name" {
        let t = &input.text;
        Some(t.find("Pipeline ").and_then(|i| t[i + 9..].split(|c: char| !(c.is_alphanumeric() || c == '_')).next().map(|s| s.to_string())).filter(|s| !s.is_empty()).unwrap_or("Main".into()))
    } else { None };
    let started = std::time::Instant::now();
    take_panic_site();
    let r = catch(|| {
        let mut inc = Override { name: &input.entry, text: &input.text, disk: input.root.clone().map(|root| DiskFiles { root }), extra: &input.extra };
        let defines: &[(&str, &str)] = if input.defines { CORPUS_DEFINES } else { &[] };
        let mut args = rssl::CompileArgs::new(&input.entry, &mut inc, target).support_buffer_address(ba).validate_layout_consistency(cfg[2] == "1").defines(defines);
        if cfg[1] == "nopipe" { args = args.no_pipeline_mode(); }
        args = args.pipeline_name(name.as_deref());
        match rssl::compile(args) {
            Ok(p) => format!("OK {}", p.len()),
            // the diagnostic must render
            Err(e) => { let t = e.to_string(); format!("ERR {}", t.lines().next().unwrap_or("")) }
        }
    });
    let ms = started.elapsed().as_millis();
    match r {
        Ok(s) => format!("{} [{} ms, {} bytes]", s, ms, input.text.len()),
        Err(m) => format!("PANIC {}: {}", take_panic_site().unwrap_or("?".into()), m.lines().next().unwrap_or("")),
    }
}

pub const NEST_KINDS: &[&str] = &[
    "paren", "paren-open", "block", "block-open", "if", "ifelse", "ternary", "cast", "castlike", "castlike2", "unary", "not", "binary", "call", "index", "member", "array", "template",
    "angle", "namespace", "struct", "macro-chain", "macro-nest", "macro-double", "macro-self", "ifdef", "ifdef-open", "include-self", "include-cycle", "include-once", "include-deep",
    "comment", "string", "line-cont", "long-ident", "long-literal", "long-float", "long-exp", "many-args", "many-overloads", "many-pipelines", "many-resources", "big-array",
    "big-struct-array", "space", "bind-group", "numthreads", "shift", "arith", "enum", "packoffset",
];

pub fn gen_cases(seed: u64, n: usize, thorough: bool) -> Vec<String> {
    let mut rng = Rng::new(seed);
    let mut out = Vec::new();
    let cfg = |rng: &mut Rng| format!("{}/{}/{}", rng.pick(&TARGETS), rng.pick(&["all", "name", "nopipe"]), rng.below(2));
    // every repository input, unmodified, on every configuration
    let inputs = repo_inputs().len();
    for i in 0..inputs { for t in TARGETS { for m in ["all", "nopipe"] { out.push(format!("{}/{}/{} M {} 0", t, m, (i + m.len()) % 2, i)); } } }
    // nesting: the depths of the quantifier, and the sizes a 4 KB file can reach
    for k in NEST_KINDS {
        for d in [1usize, 6, 12] { out.push(format!("{} D {} {}", cfg(&mut rng), k, d)); }
        let big: &[usize] = if thorough { &[64, 500, 2000] } else { &[64, 500] };
        for d in big { out.push(format!("{} D {} {}", cfg(&mut rng), k, d)); }
    }
    for _ in 0..n {
        out.push(format!("{} B {} {}", cfg(&mut rng), rng.below(1 << 40), rng.range(1, 4096)));
        out.push(format!("{} T {} {}", cfg(&mut rng), rng.below(1 << 40), rng.range(1, 4096)));
        out.push(format!("{} T {} {}", cfg(&mut rng), rng.below(1 << 40), rng.range(1, 200)));
        out.push(format!("{} P {} {} 0", cfg(&mut rng), rng.below(1 << 40), rng.range(2, 20)));
        for _ in 0..3 { out.push(format!("{} P {} {} {}", cfg(&mut rng), rng.below(1 << 40), rng.range(2, 14), 1 + rng.below(1 << 40))); }
        for _ in 0..3 { out.push(format!("{} M {} {}", cfg(&mut rng), rng.below(inputs as u64), 1 + rng.below(1 << 40))); }
    }
    out
}
