//! implrun: generate correspondence cases from one seed and run the implementation on them.
//!   implrun gen <ID> --seed S --n N [--thorough] --cases FILE --impl FILE
//!   implrun run <ID> --cases FILE --impl FILE        (re-run given case lines, e.g. the corpus)
mod common;
mod probe;
mod pgen;
mod astwalk;
mod c01;
mod c02;
mod c03;
mod sdump;
mod c04;
mod c05;
mod c06;
mod c07;
mod c08;
mod c09;
mod c10;
mod c11;
mod c12;
mod c13;
mod c14;
mod c15;
mod c16;
mod c17;
mod c18;
mod c19;

use std::io::Write;

fn gen_all(id: &str, seed: u64, n: usize, thorough: bool) -> Vec<String> {
    match id {
        "C06" => c06::gen_cases(seed, n, thorough),
        "C19" => c19::gen_cases(seed, n, thorough),
        "C11" => c11::gen_cases(seed, n, thorough),
        "C16" => c16::gen_cases(seed, n, thorough),
        "C13" => c13::gen_cases(seed, n, thorough),
        "C10" => c10::gen_cases(seed, n, thorough),
        "C15" => c15::gen_cases(seed, n, thorough),
        "C09" => c09::gen_cases(seed, n, thorough),
        "C12" => c12::gen_cases(seed, n, thorough),
        "C01" => c01::gen_cases(seed, n, thorough),
        "C02" => c02::gen_cases(seed, n, thorough),
        "C03" => c03::gen_cases(seed, n, thorough),
        "C04" => c04::gen_cases(seed, n, thorough),
        "C08" => c08::gen_cases(seed, n, thorough),
        "C18" => c18::gen_cases(seed, n, thorough),
        "C05" => c05::gen_cases(seed, n, thorough),
        "C17" => c17::gen_cases(seed, n, thorough),
        "C07" => c07::gen_cases(seed, n, thorough),
        "C14" => c14::gen_cases(seed, n, thorough),
        _ => panic!("unknown property {}", id),
    }
}

fn run_line(id: &str, line: &str) -> String {
    let r = common::catch(|| match id {
        "C06" => c06::run_line(line),
        "C19" => c19::run_line(line),
        "C11" => c11::run_line(line),
        "C16" => c16::run_line(line),
        "C13" => c13::run_line(line),
        "C10" => c10::run_line(line),
        "C15" => c15::run_line(line),
        "C09" => c09::run_line(line),
        "C12" => c12::run_line(line),
        "C01" => c01::run_line(line),
        "C02" => c02::run_line(line),
        "C03" => c03::run_line(line),
        "C04" => c04::run_line(line),
        "C08" => c08::run_line(line),
        "C18" => c18::run_line(line),
        "C05" => c05::run_line(line),
        "C17" => c17::run_line(line),
        "C07" => c07::run_line(line),
        "C14" => c14::run_line(line),
        _ => "UNKNOWN-PROPERTY".to_string(),
    });
    match r {
        Ok(s) => s,
        Err(_) => "PANIC".to_string(),
    }
}

/// Run the cases in child processes (16 at a time), so that aborts and stack overflows are seen and attributed to the
/// case that was running; a case that exceeds the time limit has its child killed.
fn supervise(id: &str, cases: &[String]) -> Vec<String> {
    use std::io::{BufRead, Write as _};
    let nworkers = std::thread::available_parallelism().map(|x| x.get()).unwrap_or(4).min(16);
    let limit = std::time::Duration::from_secs(std::env::var("VERIF_CASE_TIMEOUT").ok().and_then(|v| v.parse().ok()).unwrap_or(30));
    let exe = std::env::current_exe().unwrap();
    let next = std::sync::Arc::new(std::sync::atomic::AtomicUsize::new(0));
    let cases: std::sync::Arc<Vec<String>> = std::sync::Arc::new(cases.to_vec());
    let results = std::sync::Arc::new(std::sync::Mutex::new(vec![String::new(); cases.len()]));
    let mut handles = Vec::new();
    for _ in 0..nworkers {
        let (next, cases, results, exe, id) = (next.clone(), cases.clone(), results.clone(), exe.clone(), id.to_string());
        handles.push(std::thread::spawn(move || {
            let spawn = || {
                let mut c = std::process::Command::new(&exe).arg("child").arg(&id).stdin(std::process::Stdio::piped()).stdout(std::process::Stdio::piped()).stderr(std::process::Stdio::null()).spawn().unwrap();
                let out = c.stdout.take().unwrap();
                let (tx, rx) = std::sync::mpsc::channel::<Option<String>>();
                std::thread::spawn(move || {
                    let mut r = std::io::BufReader::new(out);
                    loop {
                        let mut l = String::new();
                        match r.read_line(&mut l) { Ok(0) | Err(_) => { let _ = tx.send(None); break; } Ok(_) => { if tx.send(Some(l.trim_end().to_string())).is_err() { break; } } }
                    }
                });
                (c, rx)
            };
            let (mut child, mut rx) = spawn();
            loop {
                let i = next.fetch_add(1, std::sync::atomic::Ordering::SeqCst);
                if i >= cases.len() { break; }
                let ok = { let sin = child.stdin.as_mut().unwrap(); writeln!(sin, "{}", cases[i]).is_ok() && sin.flush().is_ok() };
                let r = if !ok { None } else { match rx.recv_timeout(limit) { Ok(Some(l)) => Some(l), Ok(None) => None, Err(_) => { let _ = child.kill(); Some("TIMEOUT".to_string()) } } };
                let line = match r {
                    Some(l) if l != "TIMEOUT" => l,
                    other => {
                        let status = child.wait().map(|s| format!("{}", s)).unwrap_or("?".into());
                        let res = if other.is_some() { "TIMEOUT".to_string() } else { format!("ABORT {}", status) };
                        let (c2, r2) = spawn();
                        child = c2; rx = r2;
                        res
                    }
                };
                results.lock().unwrap()[i] = line;
            }
            let _ = child.kill();
            let _ = child.wait();
        }));
    }
    for h in handles { h.join().unwrap(); }
    std::sync::Arc::try_unwrap(results).map(|m| m.into_inner().unwrap()).unwrap_or_default()
}

fn main() {
    let args: Vec<String> = std::env::args().collect();
    if args.len() < 3 {
        eprintln!("usage: implrun gen|run <ID> [--seed S] [--n N] [--thorough] --cases F --impl F");
        std::process::exit(2);
    }
    if args[1] == "digest" {
        common::quiet_panics();
        c07::digest_main(&args[2..]);
        return;
    }
    if args[1] == "ast" {
        println!("{}", c09::dump(&args[2]));
        return;
    }
    if args[1] == "c12line" {
        // the C12 case line of the macro program a seed stands for (C08 kind Q)
        println!("{}", c12::program_line(args[2].parse().unwrap()));
        return;
    }
    if args[1] == "c08show" {
        // the entry file of a C08 case (the words after the configuration)
        let w: Vec<&str> = args[2..].iter().map(|s| s.as_str()).collect();
        match c08::input_of(&w) { Some(i) => { print!("{}", i.text); for (n, t) in &i.extra { print!("\n===== {}\n{}", n, t); } } None => eprintln!("bad case") }
        return;
    }
    if args[1] == "child" {
        // one case per line on stdin, one result per line on stdout; the compilation runs on a thread with the
        // default main-thread stack size (8 MiB), so what overflows here overflows in a user's program
        common::quiet_panics();
        let id = args[2].clone();
        let stdin = std::io::stdin();
        let mut line = String::new();
        loop {
            line.clear();
            if stdin.read_line(&mut line).unwrap_or(0) == 0 { break; }
            let l = line.trim_end().to_string();
            let idc = id.clone();
            let h = std::thread::Builder::new().stack_size(8 << 20).spawn(move || run_line(&idc, &l)).unwrap();
            let r = h.join().unwrap_or_else(|_| "PANIC ?: escaped".to_string());
            println!("{}", common::one_line(&r));
            use std::io::Write as _;
            std::io::stdout().flush().unwrap();
        }
        return;
    }
    if args[1] == "pgen" {
        print!("{}", pgen::generate(args[2].parse().unwrap(), args.get(3).and_then(|x| x.parse().ok()).unwrap_or(12)));
        return;
    }
    if args[1] == "shadow" {
        print!("{}", c15::shadow_program(args[2].parse().unwrap()));
        return;
    }
    if args[1] == "probe" {
        probe::main(&args[2..]);
        return;
    }
    let mode = args[1].as_str();
    let id = args[2].as_str();
    let mut seed = 1u64;
    let mut n = 100usize;
    let mut thorough = false;
    let mut cases_path = String::new();
    let mut impl_path = String::new();
    let mut i = 3;
    while i < args.len() {
        match args[i].as_str() {
            "--seed" => { seed = args[i + 1].parse().unwrap(); i += 1; }
            "--n" => { n = args[i + 1].parse().unwrap(); i += 1; }
            "--thorough" => thorough = true,
            "--cases" => { cases_path = args[i + 1].clone(); i += 1; }
            "--impl" => { impl_path = args[i + 1].clone(); i += 1; }
            other => { eprintln!("unknown argument {}", other); std::process::exit(2); }
        }
        i += 1;
    }
    common::quiet_panics();
    let cases: Vec<String> = match mode {
        "gen" => {
            let c = gen_all(id, seed, n, thorough);
            let mut f = std::io::BufWriter::new(std::fs::File::create(&cases_path).unwrap());
            for l in &c {
                writeln!(f, "{}", l).unwrap();
            }
            c
        }
        "run" => std::fs::read_to_string(&cases_path).unwrap().lines().map(|s| s.to_string()).collect(),
        _ => { eprintln!("unknown mode"); std::process::exit(2); }
    };
    if id == "C08" {
        let results = supervise(id, &cases);
        let mut f = std::io::BufWriter::new(std::fs::File::create(&impl_path).unwrap());
        for l in results { writeln!(f, "{}", l).unwrap(); }
        drop(f);
        std::process::exit(0);
    }
    // run in parallel over threads, keep order; every case gets a watchdog so a non-terminating case is reported
    // as TIMEOUT instead of hanging the run (its thread is abandoned and dies with the process)
    let nthreads = std::thread::available_parallelism().map(|x| x.get()).unwrap_or(4).min(16);
    let chunk = (cases.len() + nthreads - 1) / nthreads.max(1);
    let limit = std::time::Duration::from_secs(std::env::var("VERIF_CASE_TIMEOUT").ok().and_then(|v| v.parse().ok()).unwrap_or(20));
    let id_owned = id.to_string();
    let mut results: Vec<Vec<String>> = Vec::new();
    let mut handles = Vec::new();
    for part in cases.chunks(chunk.max(1)) {
        let part: std::sync::Arc<Vec<String>> = std::sync::Arc::new(part.to_vec());
        let idc = id_owned.clone();
        handles.push(std::thread::spawn(move || {
            // one long-lived worker (64 MiB stack) runs the cases of this chunk in order; the watchdog waits for each
            // result, and when a case does not finish in time the worker is abandoned (it dies with the process) and a
            // new one continues after that case
            let mut out: Vec<String> = Vec::with_capacity(part.len());
            let mut start = 0usize;
            while start < part.len() {
                let (tx, rx) = std::sync::mpsc::channel::<String>();
                let (idd, cases, from) = (idc.clone(), part.clone(), start);
                std::thread::Builder::new()
                    .stack_size(64 << 20)
                    .spawn(move || {
                        for l in cases[from..].iter() {
                            if tx.send(run_line(&idd, l)).is_err() { break; }
                        }
                    })
                    .unwrap();
                let mut timed_out = false;
                while out.len() < part.len() {
                    match rx.recv_timeout(limit) {
                        Ok(r) => out.push(r),
                        Err(std::sync::mpsc::RecvTimeoutError::Timeout) => { out.push("TIMEOUT".to_string()); timed_out = true; break; }
                        Err(std::sync::mpsc::RecvTimeoutError::Disconnected) => { out.push("PANIC worker thread died".to_string()); timed_out = true; break; }
                    }
                }
                start = out.len();
                if !timed_out { break; }
            }
            out
        }));
    }
    for h in handles {
        results.push(h.join().unwrap());
    }
    let mut f = std::io::BufWriter::new(std::fs::File::create(&impl_path).unwrap());
    for part in results {
        for l in part {
            writeln!(f, "{}", common::one_line(&l)).unwrap();
        }
    }
    drop(f);
    // abandoned watchdog threads must not keep the process alive
    std::process::exit(0);
}
