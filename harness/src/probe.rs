//! probe: compile one source file and print the outcome (used for replays and C08-style searches).
//!   implrun probe <file> <target> [nopipe] [layout] [name=<pipeline>]
use crate::common::*;

pub fn target_of(name: &str) -> Option<(rssl::Target, bool)> {
    match name {
        "HlslForDirectX" => Some((rssl::Target::HlslForDirectX, false)),
        "HlslForVulkan" => Some((rssl::Target::HlslForVulkan, false)),
        "HlslForVulkan+BA" => Some((rssl::Target::HlslForVulkan, true)),
        "Msl" => Some((rssl::Target::Msl, false)),
        _ => None,
    }
}

pub struct Outcome {
    pub kind: &'static str, // OK | ERR | PANIC
    pub text: String,
    pub pipelines: Vec<rssl::CompiledPipeline>,
}

pub fn compile_src(files: &[(&str, &str)], entry: &str, target: &str, nopipe: bool, layout: bool, name: Option<&str>, defines: &[(&str, &str)]) -> Outcome {
    let (t, ba) = match target_of(target) {
        Some(x) => x,
        None => return Outcome { kind: "ERR", text: "bad target".into(), pipelines: Vec::new() },
    };
    let r = catch(|| {
        let mut inc = MemFiles::from(files);
        let mut args = rssl::CompileArgs::new(entry, &mut inc, t).support_buffer_address(ba).validate_layout_consistency(layout).defines(defines);
        if nopipe {
            args = args.no_pipeline_mode();
        }
        args = args.pipeline_name(name);
        rssl::compile(args)
    });
    match r {
        Ok(Ok(p)) => Outcome { kind: "OK", text: String::new(), pipelines: p },
        Ok(Err(e)) => Outcome { kind: "ERR", text: e.to_string(), pipelines: Vec::new() },
        Err(m) => Outcome { kind: "PANIC", text: m, pipelines: Vec::new() },
    }
}

pub fn main(args: &[String]) {
    let src = std::fs::read_to_string(&args[0]).unwrap();
    let target = args.get(1).map(|s| s.as_str()).unwrap_or("HlslForDirectX");
    let nopipe = args.iter().any(|a| a == "nopipe");
    let layout = args.iter().any(|a| a == "layout");
    let show = args.iter().any(|a| a == "show");
    let name = args.iter().find_map(|a| a.strip_prefix("name="));
    let o = compile_src(&[("main.rssl", &src)], "main.rssl", target, nopipe, layout, name, &[]);
    println!("{} {}", o.kind, o.text.lines().next().unwrap_or(""));
    if show {
        for p in &o.pipelines {
            println!("{}", String::from_utf8_lossy(&p.data));
            println!("{:?}", p.metadata);
        }
    }
}
