//! C17: pipelines are selected and compiled independently.
//!   P <filter or -> <nopipe> <names..>      compute pipelines with these names in this order: which are compiled
//!   I <program> <target>                    compile(F) vs compile(F, name) vs compile(F without the other Pipeline blocks)
//! Output P: OK <pipeline names by their entry points> | ERR NotFound | ERR NoPipelines | ERR <other> | PANIC
//! Output I: SAME <n> | DIFF <detail>
use crate::common::*;
use crate::probe::compile_src;

fn source_p(names: &[&str]) -> String {
    let mut s = String::from("RWByteAddressBuffer g_out;\n");
    for (i, n) in names.iter().enumerate() {
        s += &format!("[numthreads(1, 1, 1)] void E{}_{}() {{ g_out.Store(0, {}u); }}\n", i, n, i);
    }
    for (i, n) in names.iter().enumerate() {
        s += &format!("Pipeline {} {{ ComputeShader = E{}_{}; }}\n", n, i, n);
    }
    s
}

fn run_p(w: &[&str]) -> String {
    if w.len() < 2 { return "BAD-CASE".into(); }
    let filter = if w[0] == "-" { None } else { Some(w[0]) };
    let nopipe = w[1] == "1";
    let names = &w[2..];
    let src = source_p(names);
    let mut outs = Vec::new();
    for target in ["HlslForDirectX", "HlslForVulkan", "Msl"] {
        let o = compile_src(&[("main.rssl", &src)], "main.rssl", target, nopipe, false, filter, &[]);
        outs.push(match o.kind {
            "OK" => {
                let mut v = vec!["OK".to_string()];
                for p in &o.pipelines {
                    v.push(match p.stages.first() {
                        Some(st) if st.entry_point.contains('_') => st.entry_point.split('_').nth(1).unwrap_or("?").to_string(),
                        Some(_) => {
                            // Metal: the stage entry point is a wrapper; the pipeline is the one whose entry function it calls
                            let text = String::from_utf8_lossy(&p.data).to_string();
                            let tail = text.rsplit("[[kernel]]").next().unwrap_or("").to_string();
                            let mut name = "?".to_string();
                            if let Some(i) = tail.find("    E") {
                                let rest = &tail[i + 4..];
                                if let Some(j) = rest.find('(') { name = rest[..j].split('_').nth(1).unwrap_or("?").to_string(); }
                            }
                            name
                        }
                        None => "-".into(),
                    });
                }
                v.join(" ")
            }
            "ERR" => {
                if o.text.starts_with("Shader does not contain the pipeline") { "ERR NotFound".into() }
                else if o.text.starts_with("Shader does not contain a single pipeline") { "ERR NoPipelines".into() }
                else if o.text.contains("pipeline with the same name is already defined") { "ERR Duplicate".into() }
                else { format!("ERR {}", o.text.lines().next().unwrap_or("")) }
            }
            _ => "PANIC".to_string(),
        });
    }
    if outs.iter().all(|x| *x == outs[0]) { outs[0].clone() } else { format!("TARGETS-DISAGREE {:?}", outs) }
}

// ---------------------------------------------------------------- multi-pipeline programs
const SHARED: &str = "struct VA { float4 position : SV_Position; float2 uv : TEXCOORD; };\nstruct Payload { uint start; };\nTexture2D<float4> g_tex;\nSamplerState g_samp;\nRWTexture2D<float4> g_out;\ncbuffer Params { float4 tint; uint count; }\nStructuredBuffer<float4> g_data;\ngroupshared Payload lds_payload;\nfloat4 shade(float2 uv) { return g_tex.Sample(g_samp, uv) * tint; }\n";

const ENTRIES: &[(&str, &str)] = &[
    ("CS0", "[numthreads(8, 8, 1)] void CS0(uint3 id : SV_DispatchThreadID) { g_out[id.xy] = g_data[id.x] + tint; }\n"),
    ("CS1", "[numthreads(4, 1, 1)] void CS1(uint3 id : SV_DispatchThreadID) { g_out[id.xy] = g_tex.Load(int3(id.xy, 0)) * (float)count; }\n"),
    ("VS0", "void VS0(uint vid : SV_VertexID, out float4 o_pos : SV_Position, out float2 o_uv : TEXCOORD) { o_pos = g_data[vid]; o_uv = float2(0.5f, 0.5f); }\n"),
    ("VS1", "void VS1(uint vid : SV_VertexID, out float4 o_pos : SV_Position, out float2 o_uv : TEXCOORD) { o_pos = float4(0, 0, 0, 1) * tint; o_uv = float2(0, 0); }\n"),
    ("PS0", "float4 PS0(float4 pos : SV_Position, float2 uv : TEXCOORD) : SV_Target0 { return shade(uv); }\n"),
    ("PS1", "float4 PS1(float4 pos : SV_Position, float2 uv : TEXCOORD) : SV_Target0 { return float4(uv, 0, 1); }\n"),
    ("MS0", "[numthreads(32, 1, 1)] [outputtopology(\"triangle\")] void MS0(uint3 dtid : SV_DispatchThreadID, out vertices VA o_v[32], out indices uint3 o_t[32]) { SetMeshOutputCounts(32, 32); VA v; v.position = g_data[dtid.x]; v.uv = float2(0, 0); o_v[dtid.x] = v; o_t[dtid.x] = uint3(0, 1, 2); }\n"),
    ("MS1", "[numthreads(32, 1, 1)] [outputtopology(\"triangle\")] void MS1(uint3 dtid : SV_DispatchThreadID, in payload Payload data, out vertices VA o_v[32], out indices uint3 o_t[32]) { SetMeshOutputCounts(32, 32); VA v; v.position = float4(data.start, 0, 0, 1); v.uv = float2(1, 1); o_v[dtid.x] = v; o_t[dtid.x] = uint3(0, 1, 2); }\n"),
    ("TS0", "[numthreads(32, 1, 1)] void TS0(uint3 dtid : SV_DispatchThreadID) { lds_payload.start = dtid.x + count; DispatchMesh(4u, 1u, 1u, lds_payload); }\n"),
];

/// pipeline kinds: name -> stage assignments
const PIPES: &[(&str, &str)] = &[
    ("Comp0", "ComputeShader = CS0;"), ("Comp1", "ComputeShader = CS1;"), ("Comp0b", "ComputeShader = CS0; DefaultBindGroup = 2;"),
    ("Gfx0", "VertexShader = VS0; PixelShader = PS0;"), ("Gfx1", "VertexShader = VS1; PixelShader = PS1;"), ("Gfx01", "VertexShader = VS0; PixelShader = PS1;"),
    ("Mesh0", "MeshShader = MS0; PixelShader = PS0;"), ("Mesh1", "MeshShader = MS0; PixelShader = PS1;"),
    ("Task0", "TaskShader = TS0; MeshShader = MS1; PixelShader = PS1;"), ("Task1", "TaskShader = TS0; MeshShader = MS1;"),
];

fn program_min(pipes: &[&str]) -> String {
    let mut s = String::from(SHARED);
    for (n, e) in ENTRIES {
        let used = pipes.iter().any(|p| PIPES.iter().any(|(pn, body)| pn == p && body.contains(&format!("= {};", n))));
        if used { s += e; }
    }
    for p in pipes {
        if let Some((n, body)) = PIPES.iter().find(|(n, _)| n == p) { s += &format!("Pipeline {} {{ {} }}\n", n, body); }
    }
    s
}

fn show(p: &rssl::CompiledPipeline) -> String {
    let stages: Vec<String> = p.stages.iter().map(|st| format!("{:?}/{}/{:?}", st.stage, st.entry_point, st.thread_group_size)).collect();
    format!("{}\n{:?}\n{:?}\n{:?}", String::from_utf8_lossy(&p.data), p.metadata, stages, p.graphics_pipeline_state)
}

fn run_i(spec: &str, target: &str) -> String {
    let pipes: Vec<&str> = spec.split(',').filter(|x| !x.is_empty()).collect();
    // the file holds the entry functions of every chosen pipeline; "alone" keeps them and drops the other Pipeline blocks
    let full = program_min(&pipes);
    let all = compile_src(&[("main.rssl", &full)], "main.rssl", target, false, false, None, &[]);
    if all.kind != "OK" {
        // does every pipeline compile in a file that holds nothing but itself and the functions it names?
        let each_ok = pipes.iter().all(|p| compile_src(&[("main.rssl", &program_min(&[p]))], "main.rssl", target, false, false, None, &[]).kind == "OK");
        return if each_ok { format!("FAILS-TOGETHER {} {}", all.kind, all.text.lines().next().unwrap_or("")) }
               else { format!("SKIP {} {}", all.kind, all.text.lines().next().unwrap_or("")) };
    }
    if all.pipelines.len() != pipes.len() { return format!("DIFF {} results for {} pipeline definitions", all.pipelines.len(), pipes.len()); }
    for (i, p) in pipes.iter().enumerate() {
        let want = show(&all.pipelines[i]);
        let named = compile_src(&[("main.rssl", &full)], "main.rssl", target, false, false, Some(p), &[]);
        if named.kind != "OK" || named.pipelines.len() != 1 { return format!("DIFF by name {}: {} {}", p, named.kind, named.text.lines().next().unwrap_or("")); }
        if show(&named.pipelines[0]) != want { return format!("DIFF pipeline {} compiled by name differs from its result in the whole file", p); }
        let alone_src = {
            let mut t = String::new();
            for line in full.lines() { if !line.starts_with("Pipeline ") || line.starts_with(&format!("Pipeline {} ", p)) { t += line; t.push('\n'); } }
            t
        };
        let alone = compile_src(&[("main.rssl", &alone_src)], "main.rssl", target, false, false, None, &[]);
        if alone.kind != "OK" || alone.pipelines.len() != 1 { return format!("DIFF alone {}: {} {}", p, alone.kind, alone.text.lines().next().unwrap_or("")); }
        if show(&alone.pipelines[0]) != want {
            let a = show(&alone.pipelines[0]);
            let pos = a.bytes().zip(want.bytes()).take_while(|(x, y)| x == y).count();
            let st = pos.saturating_sub(50);
            return format!("DIFF pipeline {} differs when the other Pipeline blocks are removed: `{}` vs `{}`", p,
                want[st..(pos + 50).min(want.len())].replace('\n', "\\n"), a[st..(pos + 50).min(a.len())].replace('\n', "\\n"));
        }
    }
    format!("SAME {}", pipes.len())
}

pub fn run_line(line: &str) -> String {
    let w: Vec<&str> = line.split_whitespace().collect();
    match w.first().copied() {
        Some("P") => run_p(&w[1..]),
        Some("I") if w.len() == 3 => run_i(w[1], w[2]),
        _ => "BAD-CASE".into(),
    }
}

pub fn gen_cases(seed: u64, n: usize, thorough: bool) -> Vec<String> {
    let mut rng = Rng::new(seed);
    let mut out = Vec::new();
    // every list of 0..4 names over {A, B, C} without repetition of a name, every filter, both modes
    let names = ["A", "B", "C", "D"];
    fn lists(pool: &[&str], k: usize, cur: &mut Vec<String>, out: &mut Vec<Vec<String>>) {
        out.push(cur.clone());
        if cur.len() == k { return; }
        for n in pool { if !cur.iter().any(|c| c == n) { cur.push(n.to_string()); lists(pool, k, cur, out); cur.pop(); } }
    }
    let mut ls = Vec::new();
    lists(&names[..3], 3, &mut Vec::new(), &mut ls);
    ls.push(vec!["A".into(), "B".into(), "C".into(), "D".into()]);
    ls.push(vec!["D".into(), "C".into(), "B".into(), "A".into()]);
    ls.push(vec!["A".into(), "A".into()]);
    ls.push(vec!["A".into(), "B".into(), "A".into()]);
    ls.push(vec!["B".into(), "A".into(), "A".into(), "C".into()]);
    for l in &ls {
        for filt in ["-", "A", "B", "C", "Z"] {
            for np in ["0", "1"] {
                out.push(format!("P {} {} {}", filt, np, l.join(" ")).trim_end().to_string());
            }
        }
    }
    // independence: 1..4 pipelines of mixed kinds sharing entry points and resources
    let kinds: Vec<&str> = PIPES.iter().map(|(n, _)| *n).collect();
    let reps = if thorough { n.max(200) } else { 36 };
    for k in 0..reps {
        let cnt = rng.range(1, 4) as usize;
        let mut chosen: Vec<&str> = Vec::new();
        // a third of the files mix all kinds, a third hold no mesh pipeline, a third hold nothing else (a Metal mesh
        // function beside a pipeline without a mesh stage is a recorded finding that ends the comparison early)
        let family: Vec<&str> = match (k / 3) % 3 {
            0 => kinds.clone(),
            1 => kinds.iter().copied().filter(|x| x.starts_with("Comp") || x.starts_with("Gfx")).collect(),
            _ => kinds.iter().copied().filter(|x| x.starts_with("Mesh") || x.starts_with("Task")).collect(),
        };
        let cnt = cnt.min(family.len());
        while chosen.len() < cnt {
            let c = *rng.pick(&family);
            if !chosen.contains(&c) { chosen.push(c); }
        }
        let target = ["HlslForDirectX", "HlslForVulkan", "Msl"][k % 3];
        out.push(format!("I {} {}", chosen.join(","), target));
    }
    for k in &kinds { for t in ["HlslForDirectX", "HlslForVulkan", "Msl"] { out.push(format!("I {} {}", k, t)); } }
    // every ordered pair of pipelines without a mesh stage, and of pipelines with one
    for fam in [["Comp", "Gfx"], ["Mesh", "Task"]] {
        let f: Vec<&str> = kinds.iter().copied().filter(|x| fam.iter().any(|p| x.starts_with(p))).collect();
        for a in &f { for b in &f { if a != b { for t in ["HlslForDirectX", "Msl"] { out.push(format!("I {},{} {}", a, b, t)); } } } }
    }
    out
}
