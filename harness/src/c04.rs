//! C04: emitted DirectX HLSL is accepted by the front end and is a fixpoint.
//!   G <corpus root> <entry>      third-party corpus entry point (includes read from disk)
//!   S <program source spec>      file:<repo file> | c14:<name> | c07:<name> | R <c05 program spec>
//! Output: FIX <bytes> | SKIP <first compile fails> | REJECT <second compile fails> | DRIFT <where> | SLOTS <differs> | PANIC
use crate::common::*;
use crate::probe::{compile_src, Outcome};

fn compile_disk(root: &str, entry: &str) -> Outcome {
    let repo = std::env::var("RSSL_REPO").unwrap_or("/repo".into());
    let r = catch(|| {
        let mut inc = DiskFiles { root: format!("{}/{}", repo, root) };
        let args = rssl::CompileArgs::new(entry, &mut inc, rssl::Target::HlslForDirectX).defines(CORPUS_DEFINES).no_pipeline_mode();
        rssl::compile(args)
    });
    match r {
        Ok(Ok(p)) => Outcome { kind: "OK", text: String::new(), pipelines: p },
        Ok(Err(e)) => Outcome { kind: "ERR", text: e.to_string(), pipelines: Vec::new() },
        Err(m) => Outcome { kind: "PANIC", text: m, pipelines: Vec::new() },
    }
}

fn judge(first: Outcome) -> String {
    if first.kind == "PANIC" { return format!("PANIC first {}", first.text.lines().next().unwrap_or("")); }
    if first.kind != "OK" || first.pipelines.len() != 1 { return format!("SKIP {}", first.text.lines().next().unwrap_or("")); }
    let text1 = String::from_utf8_lossy(&first.pipelines[0].data).to_string();
    let second = compile_src(&[("generated.hlsl", &text1)], "generated.hlsl", "HlslForDirectX", true, false, None, &[]);
    if second.kind == "PANIC" { return format!("PANIC second {}", second.text.lines().next().unwrap_or("")); }
    if second.kind != "OK" || second.pipelines.len() != 1 {
        let mut msg = second.text.lines().take(2).collect::<Vec<_>>().join(" | ");
        // a message without a position: the lines of the emitted text that hold both a `<` and a `>` are given instead
        // (the front end reads `a < b > (c)` as explicit template arguments and fails in several ways)
        if !second.text.contains("generated.hlsl:") {
            for l in text1.lines().filter(|l| l.contains('<') && l.contains('>') && !l.trim_start().starts_with("template")).take(12) { msg += " | "; msg += l.trim(); }
        }
        return format!("REJECT {}", msg);
    }
    let text2 = String::from_utf8_lossy(&second.pipelines[0].data).to_string();
    if text1 != text2 {
        let pos = text1.bytes().zip(text2.bytes()).take_while(|(a, b)| a == b).count();
        let st = pos.saturating_sub(60);
        let cut = |t: &str| t[st.min(t.len())..(pos + 60).min(t.len())].replace('\n', "\\n");
        return format!("DRIFT at byte {}: `{}` -> `{}`", pos, cut(&text1), cut(&text2));
    }
    // the slot of every resource: (group, name, slot); what the export legitimately forgets (address buffers become byte
    // buffers, the bindless flag, static sampler state) is not part of the statement
    let slots = |p: &rssl::CompiledPipeline| -> String {
        p.metadata.bind_groups.iter().enumerate().map(|(g, grp)| format!("group {}: [{}] inline {:?}", g, grp.bindings.iter().map(|b| format!("{}@{:?}", b.name, b.api_binding)).collect::<Vec<_>>().join(", "), grp.inline_constants)).collect::<Vec<_>>().join("; ")
    };
    let (m1, m2) = (slots(&first.pipelines[0]), slots(&second.pipelines[0]));
    if m1 != m2 {
        let pos = m1.bytes().zip(m2.bytes()).take_while(|(a, b)| a == b).count();
        let st = pos.saturating_sub(150);
        return format!("SLOTS metadata differs: {} -> {}", &m1[st..(pos + 80).min(m1.len())], &m2[st..(pos + 80).min(m2.len())]);
    }
    format!("FIX {}", text1.len())
}

pub fn run_line(line: &str) -> String {
    let w: Vec<&str> = line.split_whitespace().collect();
    match w.first().copied() {
        Some("G") if w.len() == 3 => judge(compile_disk(w[1], w[2])),
        Some("S") if w.len() >= 2 => {
            let files: Vec<(String, String)> = if w[1] == "R" {
                let spec = &w[1..];
                let decls: Vec<crate::c06::Decl> = match spec[8..].iter().map(|x| crate::c06::Decl::parse(x)).collect::<Option<Vec<_>>>() { Some(d) => d, None => return "BAD-CASE".into() };
                let list = |w: &str| -> Vec<usize> { w[1..].split(',').filter_map(|x| x.parse().ok()).collect() };
                vec![("main.rssl".into(), crate::c05::render(&decls, spec[1].parse().unwrap_or(0), spec[2], (spec[3].parse().unwrap_or(1), spec[4].parse().unwrap_or(1), spec[5].parse().unwrap_or(1)), &list(spec[6]), &list(spec[7]), false))]
            } else if let Some(rel) = w[1].strip_prefix("file:") {
                match std::fs::read_to_string(format!("{}/{}", std::env::var("RSSL_REPO").unwrap_or("/repo".into()), rel)) { Ok(t) => vec![("main.rssl".into(), t)], Err(_) => return "BAD-CASE".into() }
            } else if let Some(rel) = w[1].strip_prefix("verif:") {
                let root = std::env::var("RSSL_VERIF").unwrap_or("/verif".into());
                match std::fs::read_to_string(format!("{}/{}", root, rel)) { Ok(t) => vec![("main.rssl".into(), t)], Err(_) => return "BAD-CASE".into() }
            } else if let Some(path) = w[1].strip_prefix("abs:") {
                match std::fs::read_to_string(path) { Ok(t) => vec![("main.rssl".into(), t)], Err(_) => return "BAD-CASE".into() }
            } else if let Some(spec) = w[1].strip_prefix("gen:") {
                let mut it = spec.split(':');
                let seed: u64 = it.next().and_then(|x| x.parse().ok()).unwrap_or(0);
                let size: u32 = it.next().and_then(|x| x.parse().ok()).unwrap_or(12);
                vec![("main.rssl".into(), crate::pgen::generate(seed, size))]
            } else if let Some(spec) = w[1].strip_prefix("probe:") {
                // a reserved name of the HLSL exporter declared in one position and used (the programs of C15)
                let (pos, name) = match spec.split_once(':') { Some(x) => x, None => return "BAD-CASE".into() };
                match crate::c15::probe_source(pos, name) { Some(t) => vec![("main.rssl".into(), t)], None => return "BAD-CASE".into() }
            } else if let Some(seed) = w[1].strip_prefix("clash:") {
                vec![("main.rssl".into(), crate::c15::clash_program(seed.parse().unwrap_or(0)))]
            } else if let Some(seed) = w[1].strip_prefix("shadow:") {
                vec![("main.rssl".into(), crate::c15::shadow_program(seed.parse().unwrap_or(0)))]
            } else if let Some(name) = w[1].strip_prefix("c14:") {
                match crate::c14::program_files(name) { Some(f) => f, None => return "BAD-CASE".into() }
            } else if let Some(name) = w[1].strip_prefix("c07:") {
                match crate::c07::program_source(name) { Some(t) => vec![("main.rssl".into(), t)], None => return "BAD-CASE".into() }
            } else { return "BAD-CASE".into() };
            let list: Vec<(&str, &str)> = files.iter().map(|(a, b)| (a.as_str(), b.as_str())).collect();
            judge(compile_src(&list, &files[0].0, "HlslForDirectX", true, false, None, &[]))
        }
        _ => "BAD-CASE".into(),
    }
}

pub fn gen_cases(seed: u64, n: usize, _thorough: bool) -> Vec<String> {
    let mut rng = Rng::new(seed);
    let mut out = Vec::new();
    for (root, entry) in corpus_entries() { out.push(format!("G {} {}", root, entry)); }
    let root = std::env::var("RSSL_REPO").unwrap_or("/repo".into());
    for dir in ["tests/basic", "hlsl/tests", "msl/tests"] {
        if let Ok(rd) = std::fs::read_dir(format!("{}/{}", root, dir)) {
            let mut es: Vec<_> = rd.filter_map(|e| e.ok()).map(|e| e.path()).filter(|p| p.extension().map(|x| x == "rssl").unwrap_or(false)).collect();
            es.sort();
            for p in es { out.push(format!("S file:{}/{}", dir, p.file_name().unwrap().to_string_lossy())); }
        }
    }
    for name in crate::c14::program_names() { out.push(format!("S c14:{}", name)); }
    for name in ["names", "groups", "globals", "templates", "literals", "positions"] { out.push(format!("S c07:{}", name)); }
    for _ in 0..(4 * n) { out.push(format!("S gen:{}:{}", rng.below(1 << 40), rng.range(4, 24))); }
    // names the exporter has to change: every reserved name in every declaration position (a sample per run, all of
    // them in the thorough tier), symbols of one scope that want the same name, shadowing names across namespaces
    for pos in crate::c15::probe_positions() {
        for r in rssl::hlsl::verif::RESERVED_NAMES { if _thorough || rng.chance(1, 12) { out.push(format!("S probe:{}:{}", pos, r)); } }
    }
    for _ in 0..n { out.push(format!("S clash:{}", rng.below(1 << 40))); }
    for _ in 0..n / 2 { out.push(format!("S shadow:{}", rng.below(1 << 40))); }
    for _ in 0..n {
        let nd = rng.range(0, 7) as usize;
        let mut decls: Vec<crate::c06::Decl> = (0..nd).map(|_| crate::c06::gen_decl(&mut rng, false)).collect();
        for d in decls.iter_mut() { if rng.chance(1, 10) { d.ext = false; } }
        let pick = |rng: &mut Rng| -> String { (0..nd).filter(|_| rng.chance(1, 2)).map(|i| i.to_string()).collect::<Vec<_>>().join(",") };
        let (u, h) = (pick(&mut rng), pick(&mut rng));
        let ds: Vec<String> = decls.iter().map(|d| d.word()).collect();
        out.push(format!("S R {} CSMAIN {} {} {} U{} H{} {}", rng.below(3), rng.range(1, 8), rng.range(1, 4), rng.range(1, 2), u, h, ds.join(" ")).split_whitespace().collect::<Vec<_>>().join(" "));
    }
    out
}
