//! C14: layout trivia and source positions.
//!   L name hex name hex .. Q file offset     SourceManager: decode the location of an offset (compared with the model)
//!   W <program> <seed>     compile the program and a copy with trivia inserted at token boundaries
//!   K <program> <k> <mode> compile the program and a copy with k lines inserted before the first line
//! Output for W/K: SAME <verdict> | DIFF <detail>
use crate::common::*;
use crate::probe::compile_src;

fn hex(s: &[u8]) -> String { if s.is_empty() { "-".into() } else { s.iter().map(|b| format!("{:02x}", b)).collect() } }
fn unhex(s: &str) -> Vec<u8> { if s == "-" { Vec::new() } else { (0..s.len() / 2).map(|i| u8::from_str_radix(&s[2 * i..2 * i + 2], 16).unwrap_or(0)).collect() } }

fn run_loc(w: &[&str]) -> String {
    let mut sm = rssl::text::SourceManager::new();
    let mut ids = Vec::new();
    let mut i = 0;
    while i < w.len() && w[i] != "Q" {
        if i + 1 >= w.len() { return "BAD-CASE".into(); }
        let text = match String::from_utf8(unhex(w[i + 1])) { Ok(t) => t, Err(_) => return "BAD-CASE".into() };
        ids.push(sm.add_file(rssl::text::FileName(w[i].to_string()), text));
        i += 2;
    }
    if i + 2 >= w.len() { return "BAD-CASE".into(); }
    let (fi, off): (usize, u32) = match (w[i + 1].parse(), w[i + 2].parse()) { (Ok(a), Ok(b)) => (a, b), _ => return "BAD-CASE".into() };
    let r = catch(|| {
        let loc = sm.get_source_location_from_file_offset(ids[fi], rssl::text::StreamLocation(off));
        match sm.get_file_location(loc) {
            rssl::text::FileLocation::Known(name, line, col) => format!("{} {} {}", name.0, line.0, col.0),
            rssl::text::FileLocation::Unknown => "Unknown".to_string(),
        }
    });
    r.unwrap_or_else(|_| "PANIC".into())
}

// ---------------------------------------------------------------- programs
struct Prog { name: &'static str, files: &'static [(&'static str, &'static str)] }

const PROGS: &[Prog] = &[
    Prog { name: "ok-fn", files: &[("main.rssl", "float4 g;\nfloat f(float x, int n) {\n  float s = 0;\n  for (int i = 0; i < n; ++i) { s += x * i; }\n  return s > 1.5f ? s : -s;\n}\n")] },
    Prog { name: "ok-struct", files: &[("main.rssl", "struct S { float3 p; uint m[4]; };\nStructuredBuffer<S> buf : register(t0);\nfloat3 get(uint i) { S s = buf[i]; if (s.m[1] >> 2u < 3u) { return s.p; } return float3(1, 2, 3) * 2.0; }\n")] },
    Prog { name: "ok-macro", files: &[("main.rssl", "#define SQ(x) ((x) * (x))\n#define N 4\n#define CAT(a, b) a ## b\nint CAT(va, lue)[N];\nint f(int y) { return SQ(y + 1) + N + SQ ( SQ(2) ); }\n#undef N\n#define N 5\nstatic const int k = N;\n")] },
    Prog { name: "ok-cond", files: &[("main.rssl", "#define A 2\n#if A > 1 && defined(A)\nint x = 1;\n#elif A == 1\nint x = 2;\n#else\nint x = 3;\n#endif\n#ifndef B\nint y = x < 3 ? 1 : 0;\n#endif\n")] },
    Prog { name: "ok-include", files: &[("main.rssl", "#include \"a.h\"\nint f() { return A + g(2); }\n#include \"a.h\"\n"), ("a.h", "#pragma once\n#define A 7\nint g(int v) { return v << 1; }\n")] },
    Prog { name: "ok-template", files: &[("main.rssl", "template<typename T> T twice(T v) { return v + v; }\nfloat a() { return twice<float>(1.0) + twice(2); }\nvector<float, 3> q;\nbool lt(int a, int b) { return a < b; }\n")] },
    Prog { name: "ok-member", files: &[("main.rssl", "struct P { float3 v; int n[2]; float len() { return v.x + v.y; } };\nStructuredBuffer<P> ps;\nfloat f(P p, uint i) { return p.v.zyx.x + ps[i].v.y + p.len() + ps.Load(i).n[1] + 2.5.x + 1.0f.xx.y; }\n")] },
    Prog { name: "ok-int-swizzle", files: &[("main.rssl", "float2 f() { return 1.xx; }\n")] },
    Prog { name: "err-undeclared", files: &[("main.rssl", "void f() {\n  int x = 1;\n  int z = x + yy;\n}\n")] },
    Prog { name: "err-type", files: &[("main.rssl", "struct S { int a; };\nvoid f() {\n  S s;\n  float3 v = s;\n}\n")] },
    Prog { name: "err-parse", files: &[("main.rssl", "void f() {\n  int x = (1 + ;\n}\n")] },
    Prog { name: "err-parse2", files: &[("main.rssl", "int a;\nstruct { int b; };\nint c;\n")] },
    Prog { name: "err-lex", files: &[("main.rssl", "int a = 1;\nint b = 18446744073709551616;\n")] },
    Prog { name: "err-string", files: &[("main.rssl", "int a;\nint b; \"unterminated\nint c;\n")] },
    Prog { name: "err-endif", files: &[("main.rssl", "int a;\n#endif\nint b;\n")] },
    Prog { name: "ok-ifdef", files: &[("main.rssl", "#define USE 1\n#ifdef USE\nstatic const int a = 1;\n#else\nstatic const int a = 2;\n#endif\n#ifdef NOPE\nstatic const int c = a + nope;\n#endif\n#ifndef NOPE\nstatic const int d = a;\n#endif\n#undef USE\n#ifdef USE\nstatic const int e = oops;\n#endif\n")] },
    Prog { name: "err-directive", files: &[("main.rssl", "int a;\nint b;\n#frobnicate 1\n")] },
    Prog { name: "err-macro-args", files: &[("main.rssl", "#define F(a, b) a + b\nint x = 1;\nint y = F(1);\n")] },
    Prog { name: "err-in-macro", files: &[("main.rssl", "#define BAD(v) (v + undeclared_name)\nint f(int q) {\n  return BAD(q);\n}\n")] },
    Prog { name: "err-in-paste", files: &[("main.rssl", "#define CAT(a, b) a ## b\nint f() {\n  return CAT(un, known);\n}\n")] },
    Prog { name: "err-in-include", files: &[("main.rssl", "int a;\n#include \"b.h\"\nint c;\n"), ("b.h", "int ok;\n\nint bad = nope;\n")] },
    Prog { name: "err-lex-in-include", files: &[("main.rssl", "int a;\n#include \"b.h\"\nint c;\n"), ("b.h", "int ok;\nstatic const float bias = 0.5q;\n")] },
    Prog { name: "err-string-in-include", files: &[("main.rssl", "int a;\n#include \"b.h\"\n"), ("b.h", "int ok;\n\nint b; \"unterminated\nint c;\n")] },
    Prog { name: "err-char-in-nested-include", files: &[("main.rssl", "#include \"b.h\"\n"), ("b.h", "int x;\n#include \"c.h\"\n"), ("c.h", "\n\n  int y = 1 @ 2;\n")] },
    Prog { name: "err-after-include", files: &[("main.rssl", "#include \"b.h\"\nint c = ok;\nint d = nope;\n"), ("b.h", "int ok;\n")] },
    Prog { name: "err-nested-include", files: &[("main.rssl", "#include \"b.h\"\n"), ("b.h", "int x;\n#include \"c.h\"\n"), ("c.h", "\n\n  float y = x.q.r;\n")] },
    Prog { name: "err-missing-include", files: &[("main.rssl", "int a;\n#include \"zzz.h\"\n")] },
    Prog { name: "err-call", files: &[("main.rssl", "int g(int a) { return a; }\nint f() {\n  return g(1,\n           2);\n}\n")] },
    Prog { name: "err-redefine", files: &[("main.rssl", "int a;\nfloat b;\nint a;\n")] },
];

/// where the first diagnostic of a rejected program has to point: (program, file, line), read off the program texts
/// above ("a diagnostic for text inside an included file names that file and the line within it")
const EXPECT: &[(&str, &str, u32)] = &[
    ("err-undeclared", "main.rssl", 3), ("err-type", "main.rssl", 4), ("err-parse", "main.rssl", 2), ("err-parse2", "main.rssl", 2), ("err-lex", "main.rssl", 2),
    ("err-string", "main.rssl", 2), ("err-directive", "main.rssl", 3), ("err-in-macro", "main.rssl", 1), ("err-in-include", "b.h", 3), ("err-lex-in-include", "b.h", 2),
    ("err-string-in-include", "b.h", 3), ("err-char-in-nested-include", "c.h", 3), ("err-after-include", "main.rssl", 3), ("err-nested-include", "c.h", 3),
    ("err-missing-include", "main.rssl", 2), ("err-call", "main.rssl", 3), ("err-redefine", "main.rssl", 3),
];

fn prog(name: &str) -> Option<&'static Prog> { PROGS.iter().find(|p| p.name == name) }

fn outcome(files: &[(String, String)]) -> (String, String) {
    let list: Vec<(&str, &str)> = files.iter().map(|(a, b)| (a.as_str(), b.as_str())).collect();
    let mut parts = Vec::new();
    let mut kind = "";
    for target in ["HlslForDirectX", "Msl"] {
        let o = compile_src(&list, &files[0].0, target, true, false, None, &[]);
        kind = o.kind;
        if o.kind == "OK" {
            for p in &o.pipelines { parts.push(format!("{}\n{:?}", String::from_utf8_lossy(&p.data), p.metadata)); }
        } else {
            parts.push(o.text.clone());
        }
    }
    (kind.to_string(), parts.join("\n=====\n"))
}

// ---------------------------------------------------------------- coarse tokenizer (every piece is a union of real tokens)
fn pieces(line: &str) -> Vec<(usize, usize)> {
    let b = line.as_bytes();
    let mut out = Vec::new();
    let mut i = 0;
    while i < b.len() {
        let c = b[i];
        let start = i;
        if c == b' ' || c == b'\t' { i += 1; continue; }
        if c.is_ascii_alphabetic() || c == b'_' {
            // identifiers; the period of a member access is a piece of its own
            while i < b.len() && (b[i].is_ascii_alphanumeric() || b[i] == b'_') { i += 1; }
        } else if c.is_ascii_digit() || (c == b'.' && i + 1 < b.len() && b[i + 1].is_ascii_digit()) {
            // numbers (with fraction, exponent signs and suffix) as one piece; a period followed by `x` starts a swizzle
            // of the number (`1.xx` is the three tokens `1` `.` `xx`)
            while i < b.len() && (b[i].is_ascii_alphanumeric() || b[i] == b'_' || (b[i] == b'.' && !(i + 1 < b.len() && b[i + 1] == b'x')) || ((b[i] == b'+' || b[i] == b'-') && i > start && (b[i - 1] == b'e' || b[i - 1] == b'E'))) { i += 1; }
        } else if c == b'"' {
            i += 1;
            while i < b.len() && b[i] != b'"' { i += 1; }
            i = (i + 1).min(b.len());
        } else {
            // runs of operator characters stay together (<<=, ->, ##, ::, && ...)
            while i < b.len() && b"+-*/%&|^!=<>#:~?".contains(&b[i]) { i += 1; }
            if i == start { i += 1; }
        }
        out.push((start, i));
    }
    out
}

const INLINE: &[&str] = &[" ", "\t", "  ", "/* c */", " /**/ ", "\\\n", "/*/ c */", "/*/*/", "/***/", "/*//*/"];
const ANY: &[&str] = &[" ", "\t", "\n", "\n\n", "/* c */", "// c\n", "\\\n", " /* a\n b */ ", "\n  ", "/*/ c */", "/*/*/", "/***/", "//* c\n", "/* // */"];

/// the text with trivia inserted, and every insertion made: (offset in the original text, inserted text)
fn insert_trivia_rec(text: &str, rng: &mut Rng, density: u64) -> (String, Vec<(usize, &'static str)>) {
    let mut out = String::new();
    let mut made: Vec<(usize, &'static str)> = Vec::new();
    let mut line_start = 0usize;
    for line in text.split_inclusive('\n') {
        let this_line = line_start;
        line_start += line.len();
        let body = line.trim_end_matches('\n');
        let is_directive = body.trim_start().starts_with('#');
        if is_directive && (body.contains("include") || body.contains("pragma")) { out += line; continue; }
        let ps = pieces(body);
        let mut last = 0;
        let mut define_name_seen = 0;   // pieces seen on a #define line: '#', 'define', name
        if !is_directive && rng.chance(1, density) { let t = *rng.pick(&["\n", "// lead\n", "/* lead */ ", "  "]); out += t; made.push((this_line, t)); }
        // a directive may be preceded by blanks, a comment or a splice on its own line
        if is_directive && rng.chance(1, density) { let t = *rng.pick(&["  ", "\t", "/* lead */ ", "/* a */ /* b */", "\\\n", " \\\n  "]); out += t; made.push((this_line, t)); }
        for (k, (s, e)) in ps.iter().enumerate() {
            out += &body[last..*s];
            let piece = &body[*s..*e];
            let prev = if k > 0 { &body[ps[k - 1].0..ps[k - 1].1] } else { "" };
            // boundaries: not directly after a piece ending in < or >, not between a #define name and its '('
            let after_angle = prev.ends_with('<') || prev.ends_with('>');
            let define_paren = is_directive && body.contains("define") && define_name_seen == 3 && piece == "(" && *s == ps[k - 1].1;
            // inside a directive the first pieces ('#', name) stay on one line and `#` stays first
            if k > 0 && !after_angle && !define_paren && rng.chance(1, density) {
                let t = if is_directive { *rng.pick(INLINE) } else { *rng.pick(ANY) };
                out += t;
                made.push((this_line + *s, t));
            }
            out += piece;
            define_name_seen += 1;
            last = *e;
        }
        out += &body[last..];
        if !is_directive && rng.chance(1, density * 2) { let t = *rng.pick(&[" ", " // tail", " /* t */"]); out += t; made.push((this_line + body.len(), t)); }
        // after the last token of a directive line: blanks, a comment, a splice onto an empty line
        if is_directive && rng.chance(1, density) { let t = *rng.pick(&[" ", "\t ", " // tail", " /* t */", "/* t */ // u", " \\\n"]); out += t; made.push((this_line + body.len(), t)); }
        if line.ends_with('\n') { out.push('\n'); }
    }
    (out, made)
}

/// `file:line:col` positions of a diagnostic text replaced by a marker; returns (text without positions, positions)
fn split_positions(text: &str) -> (String, Vec<(String, u32, u32)>) {
    let mut pos = Vec::new();
    let mut out = String::new();
    for line in text.lines() {
        let mut found = false;
        // <file>:<line>:<col>: ...
        let parts: Vec<&str> = line.splitn(4, ':').collect();
        if parts.len() == 4 {
            if let (Ok(l), Ok(c)) = (parts[1].trim().parse::<u32>(), parts[2].trim().parse::<u32>()) {
                pos.push((parts[0].to_string(), l, c));
                out += "@:";
                out += parts[3];
                out.push('\n');
                found = true;
            }
        }
        if !found { out += line; out.push('\n'); }
    }
    (out, pos)
}

fn messages_only(text: &str) -> String {
    // keep the lines that carry a message; drop the echoed source line and the caret line that follow them
    let mut out = String::new();
    for line in text.lines() {
        let parts: Vec<&str> = line.splitn(4, ':').collect();
        if parts.len() == 4 && parts[1].trim().parse::<u32>().is_ok() && parts[2].trim().parse::<u32>().is_ok() {
            out += parts[0]; out += ":"; out += parts[3]; out.push('\n');
        } else if line.starts_with("=====") { out += line; out.push('\n'); }
    }
    out
}

fn run_w(name: &str, seed: u64) -> String {
    let p = match prog(name) { Some(p) => p, None => return "BAD-CASE".into() };
    let base: Vec<(String, String)> = p.files.iter().map(|(a, b)| (a.to_string(), b.to_string())).collect();
    let mut rng = Rng::new(seed);
    let density = rng.range(1, 4);
    let mut made_all: Vec<Vec<(usize, &'static str)>> = Vec::new();
    let varied: Vec<(String, String)> = base.iter().map(|(n, t)| { let (v, made) = insert_trivia_rec(t, &mut rng, density); made_all.push(made); (n.clone(), v) }).collect();
    let r = compare_w(&base, &varied);
    if !r.starts_with("DIFF") { return r; }
    // which single insertion is enough: each one is tried alone, the first that changes the result is named with the
    // source text on both sides of it
    for (fi, made) in made_all.iter().enumerate() {
        for (off, t) in made {
            let mut one = base.clone();
            one[fi].1 = format!("{}{}{}", &base[fi].1[..*off], t, &base[fi].1[*off..]);
            let r1 = compare_w(&base, &one);
            if r1.starts_with("DIFF") {
                let text = &base[fi].1;
                let mut a = off.saturating_sub(10); while !text.is_char_boundary(a) { a -= 1; }
                let mut b = (*off + 10).min(text.len()); while !text.is_char_boundary(b) { b += 1; }
                return format!("{} :: single insertion in {}: [{}]+[{}]+[{}]", r1, base[fi].0, text[a..*off].escape_debug(), t.escape_debug(), text[*off..b].escape_debug());
            }
        }
    }
    format!("{} :: no single insertion is enough", r)
}

fn compare_w(base: &[(String, String)], varied: &[(String, String)]) -> String {
    let (k1, o1) = outcome(base);
    let (k2, o2) = outcome(varied);
    let added: usize = varied.iter().zip(base.iter()).map(|(a, b)| a.1.len() - b.1.len()).sum();
    if std::env::var("VERIF_C14_SHOW").is_ok() { for (n, t) in varied { eprintln!("--- {}\n{}", n, t); } }
    if k1 == "PANIC" || k2 == "PANIC" { return format!("DIFF panic {} {}", k1, k2); }
    if k1 != k2 { return format!("DIFF verdict {} -> {} :: {}", k1, k2, o2.lines().next().unwrap_or("").replace('\n', " ")); }
    if k1 == "OK" {
        if o1 == o2 { format!("SAME OK +{}", added) } else { "DIFF output text or metadata changed".into() }
    } else {
        let (m1, m2) = (messages_only(&o1), messages_only(&o2));
        if m1 == m2 { format!("SAME ERR +{}", added) } else { format!("DIFF message `{}` -> `{}`", m1.replace('\n', " | "), m2.replace('\n', " | ")) }
    }
}

fn run_k(name: &str, k: usize, mode: &str) -> String {
    let p = match prog(name) { Some(p) => p, None => return "BAD-CASE".into() };
    let base: Vec<(String, String)> = p.files.iter().map(|(a, b)| (a.to_string(), b.to_string())).collect();
    let line = match mode { "blank" => "\n", "comment" => "// inserted line\n", "block" => "/* inserted\n", _ => "   \t\n" };
    // k lines in front of the first line of the file that holds the diagnosed text (every file is shifted)
    let mut ins = line.repeat(k);
    if mode == "block" && k > 0 { ins = format!("/*{}*/\n", "\n".repeat(k - 1)); }
    let varied: Vec<(String, String)> = base.iter().map(|(n, t)| (n.clone(), format!("{}{}", ins, t))).collect();
    let (k1, o1) = outcome(&base);
    let (k2, o2) = outcome(&varied);
    if k1 != k2 { return format!("DIFF verdict {} -> {}", k1, k2); }
    if k1 == "OK" { return if o1 == o2 { "SAME OK".into() } else { "DIFF output text or metadata changed".into() }; }
    let (t1, p1) = split_positions(&o1);
    let (t2, p2) = split_positions(&o2);
    if t1 != t2 { return format!("DIFF message or source excerpt changed: `{}` -> `{}`", t1.replace('\n', " | "), t2.replace('\n', " | ")); }
    if p1.len() != p2.len() { return "DIFF number of positions changed".into(); }
    // an #include line is not shifted relative to its own file's inserted lines: every file got k lines, so every line moves by k
    for (a, b) in p1.iter().zip(p2.iter()) {
        if a.0 != b.0 || a.1 + k as u32 != b.1 || a.2 != b.2 { return format!("DIFF position {}:{}:{} -> {}:{}:{} (k={})", a.0, a.1, a.2, b.0, b.1, b.2, k); }
    }
    if let Some((_, f, l)) = EXPECT.iter().find(|(n, _, _)| *n == name) {
        match p1.first() {
            Some(a) if a.0 == *f && a.1 == *l => {}
            Some(a) => return format!("DIFF the diagnostic points at {}:{}:{}, the faulty text is in {} line {}", a.0, a.1, a.2, f, l),
            None => return format!("DIFF the diagnostic has no position, the faulty text is in {} line {}", f, l),
        }
    }
    if p1.is_empty() { "SAME ERR-NOPOS".into() } else { format!("SAME ERR {}:{}:{}", p1[0].0, p1[0].1, p1[0].2) }
}

pub fn run_line(line: &str) -> String {
    let w: Vec<&str> = line.split_whitespace().collect();
    match w.first().copied() {
        Some("L") => run_loc(&w[1..]),
        Some("W") if w.len() == 3 => run_w(w[1], w[2].parse().unwrap_or(0)),
        Some("K") if w.len() == 4 => run_k(w[1], w[2].parse().unwrap_or(0), w[3]),
        _ => "BAD-CASE".into(),
    }
}

pub fn gen_cases(seed: u64, n: usize, thorough: bool) -> Vec<String> {
    let mut rng = Rng::new(seed);
    let mut out = Vec::new();
    // location decoding: every offset of small multi-file sets, files with and without final line feed, CRLF, empty files
    let texts: &[&[u8]] = &[b"", b"\n", b"a", b"ab\ncd", b"ab\ncd\n", b"\n\nx", b"a\r\nb\r\n", b"x\n\n\ny\n", b"\t tab\n  two"];
    for _ in 0..(if thorough { 60 } else { 12 }) {
        let nf = rng.range(1, 4) as usize;
        let fs: Vec<&[u8]> = (0..nf).map(|_| *rng.pick(texts)).collect();
        for (i, f) in fs.iter().enumerate() {
            for off in 0..=f.len() {
                let mut s = String::from("L");
                for (j, g) in fs.iter().enumerate() { s += &format!(" f{}.h {}", j, hex(g)); }
                s += &format!(" Q {} {}", i, off);
                out.push(s);
            }
        }
    }
    for p in PROGS {
        for k in [0usize, 1, 2, 7, 50] {
            for mode in ["blank", "comment", "block", "spaces"] { out.push(format!("K {} {} {}", p.name, k, mode)); }
        }
        let reps = (n / PROGS.len()).max(4);
        for _ in 0..reps { out.push(format!("W {} {}", p.name, rng.next() % 1000000)); }
    }
    out
}

pub fn program_names() -> Vec<&'static str> { PROGS.iter().map(|p| p.name).collect() }
pub fn program_files(name: &str) -> Option<Vec<(String, String)>> {
    prog(name).map(|p| p.files.iter().map(|(a, b)| (a.to_string(), b.to_string())).collect())
}
