//! C19: layout-consistency validation.  A case line is  <use> <type>  with the type in prefix words:
//!   S k <member>*k | A n <type> | V <Scalar> n | s <Scalar> | E <Scalar>
//! use: 0 StructuredBuffer<T>, 1 RWStructuredBuffer<T>, 2 ByteAddressBuffer.Load<T>, 3 RWByteAddressBuffer.Store<T>,
//!      4 BufferAddress.Load<T>, 5 RWBufferAddress.Store<T>, 6 StructuredBuffer<const T>, 7 RWStructuredBuffer<const T>,
//!      8 StructuredBuffer<alias of T>, 9 StructuredBuffer<alias of const T>
//! Output: ACCEPT | UNKNOWN | MISMATCH hs ha ms ma | OFFSET ho mo | REJECT:<front end>
use crate::common::*;

#[derive(Clone, Debug)]
pub enum Ty {
    S(Vec<Ty>),
    A(u32, Box<Ty>),
    V(&'static str, u32),
    Sc(&'static str),
    E(&'static str),
}

const SCALARS: &[(&str, &str)] = &[("Float16", "half"), ("Int32", "int"), ("UInt32", "uint"), ("Float32", "float"), ("Float64", "double"), ("Bool", "bool")];

fn scalar_src(n: &str) -> &'static str {
    SCALARS.iter().find(|(a, _)| *a == n).map(|(_, b)| *b).unwrap_or("float")
}
fn scalar_static(n: &str) -> Option<&'static str> {
    SCALARS.iter().find(|(a, _)| *a == n).map(|(a, _)| *a)
}

impl Ty {
    pub fn words(&self, out: &mut Vec<String>) {
        match self {
            Ty::S(ms) => {
                out.push("S".into());
                out.push(ms.len().to_string());
                for m in ms {
                    m.words(out);
                }
            }
            Ty::A(n, t) => {
                out.push("A".into());
                out.push(n.to_string());
                t.words(out);
            }
            Ty::V(s, n) => {
                out.push("V".into());
                out.push(s.to_string());
                out.push(n.to_string());
            }
            Ty::Sc(s) => {
                out.push("s".into());
                out.push(s.to_string());
            }
            Ty::E(s) => {
                out.push("E".into());
                out.push(s.to_string());
            }
        }
    }
    pub fn parse(w: &[&str], pos: &mut usize) -> Option<Ty> {
        let k = *w.get(*pos)?;
        *pos += 1;
        match k {
            "S" => {
                let n: usize = w.get(*pos)?.parse().ok()?;
                *pos += 1;
                let mut ms = Vec::new();
                for _ in 0..n {
                    ms.push(Ty::parse(w, pos)?);
                }
                Some(Ty::S(ms))
            }
            "A" => {
                let n: u32 = w.get(*pos)?.parse().ok()?;
                *pos += 1;
                Some(Ty::A(n, Box::new(Ty::parse(w, pos)?)))
            }
            "V" => {
                let s = scalar_static(w.get(*pos)?)?;
                let n: u32 = w.get(*pos + 1)?.parse().ok()?;
                *pos += 2;
                Some(Ty::V(s, n))
            }
            "s" => {
                let s = scalar_static(w.get(*pos)?)?;
                *pos += 1;
                Some(Ty::Sc(s))
            }
            "E" => {
                let s = scalar_static(w.get(*pos)?)?;
                *pos += 1;
                Some(Ty::E(s))
            }
            _ => None,
        }
    }
}

struct Emit {
    defs: String,
    n: usize,
}

impl Emit {
    /// returns (type text, array suffix) for a member/variable of this type
    fn ty(&mut self, t: &Ty) -> (String, String) {
        match t {
            Ty::Sc(s) => (scalar_src(s).to_string(), String::new()),
            Ty::V(s, n) => (format!("{}{}", scalar_src(s), n), String::new()),
            Ty::E(s) => {
                let id = self.n;
                self.n += 1;
                let lit = if *s == "UInt32" { "1u" } else { "1" };
                self.defs += &format!("enum E{} {{ E{}_A = {}, E{}_B }};\n", id, id, lit, id);
                (format!("E{}", id), String::new())
            }
            Ty::A(n, inner) => {
                let (b, suffix) = self.ty(inner);
                (b, format!("[{}]{}", n, suffix))
            }
            Ty::S(ms) => {
                let mut body = String::new();
                for (i, m) in ms.iter().enumerate() {
                    let (b, suffix) = self.ty(m);
                    body += &format!("    {} m{}{};\n", b, i, suffix);
                }
                let id = self.n;
                self.n += 1;
                self.defs += &format!("struct T{} {{\n{}}};\n", id, body);
                (format!("T{}", id), String::new())
            }
        }
    }
}

pub fn render(usage: u32, t: &Ty) -> String {
    let mut e = Emit { defs: String::new(), n: 0 };
    // arrays cannot be template arguments directly: wrap a top-level array in a typedef-free struct-less form
    let (name, suffix) = e.ty(t);
    let mut s = e.defs;
    let tname = if suffix.is_empty() {
        name
    } else {
        s += &format!("typedef {} TA{};\n", name, suffix);
        "TA".to_string()
    };
    match usage {
        0 => s += &format!("StructuredBuffer<{}> g_buf;\nvoid f() {{ g_buf.Load(0); }}\n", tname),
        1 => s += &format!("RWStructuredBuffer<{}> g_buf;\nvoid f() {{ g_buf.Load(0); }}\n", tname),
        2 => s += &format!("ByteAddressBuffer g_buf;\nvoid f() {{ g_buf.Load<{}>(0); }}\n", tname),
        3 => s += &format!("RWByteAddressBuffer g_buf;\nvoid f() {{ {} v = g_buf.Load<{}>(0); g_buf.Store(16, v); }}\n", tname, tname),
        // the element type behind a qualifier or an alias: the layouts compared are those of the structure itself
        6 => s += &format!("StructuredBuffer<const {}> g_buf;\nvoid f() {{ g_buf.Load(0); }}\n", tname),
        7 => s += &format!("RWStructuredBuffer<const {}> g_buf;\nvoid f() {{ g_buf.Load(0); }}\n", tname),
        8 => s += &format!("typedef {} TT;\nStructuredBuffer<TT> g_buf;\nvoid f() {{ g_buf.Load(0); }}\n", tname),
        9 => s += &format!("typedef const {} CT;\nStructuredBuffer<CT> g_buf;\nvoid f() {{ g_buf.Load(0); }}\n", tname),
        4 => s += &format!("BufferAddress g_buf;\nvoid f() {{ g_buf.Load<{}>(0); }}\n", tname),
        _ => s += &format!("RWBufferAddress g_buf;\nvoid f() {{ {} v = g_buf.Load<{}>(0); g_buf.Store(16, v); }}\n", tname, tname),
    }
    s
}

fn nums(s: &str) -> Vec<String> {
    let mut out = Vec::new();
    let mut cur = String::new();
    for c in s.chars() {
        if c.is_ascii_digit() {
            cur.push(c);
        } else if !cur.is_empty() {
            out.push(std::mem::take(&mut cur));
        }
    }
    if !cur.is_empty() {
        out.push(cur);
    }
    out
}

pub fn run_line(line: &str) -> String {
    let w: Vec<&str> = line.split_whitespace().collect();
    if w.len() < 2 {
        return "BAD-CASE".into();
    }
    let usage: u32 = w[0].parse().unwrap_or(0);
    let mut pos = 1;
    let t = match Ty::parse(&w, &mut pos) {
        Some(t) if pos == w.len() => t,
        _ => return "BAD-CASE".into(),
    };
    let src = render(usage, &t);
    // the front end must accept the program without layout validation, otherwise the case is outside the property
    let mut inc = MemFiles::single("main.rssl", &src);
    let args = rssl::CompileArgs::new("main.rssl", &mut inc, rssl::Target::HlslForDirectX).no_pipeline_mode();
    if let Err(e) = rssl::compile(args) {
        return format!("REJECT:{}", e.to_string().lines().next().unwrap_or(""));
    }
    let mut inc = MemFiles::single("main.rssl", &src);
    let args = rssl::CompileArgs::new("main.rssl", &mut inc, rssl::Target::HlslForDirectX)
        .no_pipeline_mode()
        .validate_layout_consistency(true);
    match rssl::compile(args) {
        Ok(_) => "ACCEPT".into(),
        Err(e) => {
            let msg = e.to_string();
            let l = msg.lines().find(|l| l.contains("struct has")).unwrap_or("");
            // the message follows "file(line): error: "; strip the location prefix before reading numbers
            let l = l.split("struct has").nth(1).unwrap_or("");
            if l.contains("unknown size") {
                "UNKNOWN".into()
            } else if l.contains("size=") {
                format!("MISMATCH {}", nums(l).join(" "))
            } else if l.contains("field at offset") {
                format!("OFFSET {}", nums(l).join(" "))
            } else {
                format!("OTHER:{}", msg.lines().next().unwrap_or(""))
            }
        }
    }
}

fn gen_leaf(rng: &mut Rng) -> Ty {
    let sc = *rng.pick(&["Float16", "Int32", "UInt32", "Float32", "Float64"]);
    let r = rng.below(20);
    if r == 0 {
        Ty::E(if rng.chance(1, 2) { "Int32" } else { "UInt32" })
    } else if r == 1 {
        Ty::Sc("Bool")
    } else if r < 9 {
        Ty::Sc(sc)
    } else {
        Ty::V(sc, rng.range(1, 4) as u32)
    }
}

fn gen_ty(rng: &mut Rng, depth: u32) -> Ty {
    let r = rng.below(10);
    if depth == 0 || r < 5 {
        gen_leaf(rng)
    } else if r < 7 {
        Ty::A(rng.range(1, 4) as u32, Box::new(gen_ty(rng, depth - 1)))
    } else {
        let n = rng.range(1, 4);
        Ty::S((0..n).map(|_| gen_ty(rng, depth - 1)).collect())
    }
}

/// layouts that agree are rare among uniformly random trees; this generator builds mostly-consistent structs
/// (members of 4/8/16-byte sizes in descending alignment) so the accepting side of the check is exercised.
fn gen_aligned(rng: &mut Rng, depth: u32) -> Ty {
    let n = rng.range(1, 6);
    let mut ms = Vec::new();
    for _ in 0..n {
        let r = rng.below(12);
        ms.push(match r {
            0 | 1 => Ty::V("Float32", 4),
            2 => Ty::V("UInt32", 2),
            3 => Ty::V("Float32", 2),
            4 => Ty::Sc("Float32"),
            5 => Ty::Sc("UInt32"),
            6 => Ty::V("Float16", 2),
            7 => Ty::Sc("Float64"),
            8 => Ty::A(rng.range(1, 4) as u32, Box::new(Ty::V("Float32", *rng.pick(&[2u32, 4])))),
            9 if depth > 0 => gen_aligned(rng, depth - 1),
            10 if depth > 0 => Ty::A(rng.range(1, 3) as u32, Box::new(gen_aligned(rng, depth - 1))),
            _ => Ty::V("Int32", *rng.pick(&[1u32, 2, 3, 4])),
        });
    }
    if rng.chance(1, 2) {
        // sort by descending alignment class to make agreement likely
        ms.sort_by_key(|m| match m {
            Ty::V(_, 4) => 0,
            Ty::S(_) | Ty::A(_, _) => 1,
            Ty::Sc("Float64") => 2,
            Ty::V(_, 2) => 3,
            _ => 4,
        });
    }
    Ty::S(ms)
}

pub fn gen_cases(seed: u64, n: usize, thorough: bool) -> Vec<String> {
    let mut rng = Rng::new(seed);
    let mut out = Vec::new();
    let line = |u: u32, t: &Ty| {
        let mut w = vec![u.to_string()];
        t.words(&mut w);
        w.join(" ")
    };
    // exhaustive: every ordered pair (quick) / triple (thorough) of members drawn from the full member alphabet:
    // every scalar x vector width, arrays of length 1..4 of each, enums, and a few nested structs
    let scalars = ["Float16", "Int32", "UInt32", "Float32", "Float64"];
    let mut leaves: Vec<Ty> = Vec::new();
    for s in scalars {
        leaves.push(Ty::Sc(s));
        for n in 2..=4 {
            leaves.push(Ty::V(s, n));
        }
    }
    let base = leaves.clone();
    for t in &base {
        for len in 1..=4u32 {
            leaves.push(Ty::A(len, Box::new(t.clone())));
        }
    }
    leaves.push(Ty::E("UInt32"));
    leaves.push(Ty::E("Int32"));
    leaves.push(Ty::S(vec![Ty::V("Float32", 2), Ty::Sc("Float32")]));
    leaves.push(Ty::S(vec![Ty::V("Float16", 3)]));
    leaves.push(Ty::S(vec![Ty::Sc("Float64"), Ty::Sc("Float32")]));
    leaves.push(Ty::A(2, Box::new(Ty::S(vec![Ty::Sc("Float64"), Ty::Sc("Float32")]))));
    leaves.push(Ty::A(2, Box::new(Ty::S(vec![Ty::V("Float16", 3)]))));
    leaves.push(Ty::A(3, Box::new(Ty::S(vec![Ty::V("Float32", 3), Ty::Sc("Float16")]))));
    for a in &leaves {
        out.push(line(0, &Ty::S(vec![a.clone()])));
        for (k, b) in leaves.iter().enumerate() {
            out.push(line(0, &Ty::S(vec![a.clone(), b.clone()])));
            if k % 4 == 0 { out.push(line(6 + (k as u32 / 4) % 4, &Ty::S(vec![a.clone(), b.clone()]))); }
        }
    }
    // sizes around 2^32: the checker computes in 32 bits and must answer "unknown size", never wrap or abort
    for (len, t) in [(1073741823u32, Ty::Sc("Float32")), (1073741824, Ty::Sc("Float32")), (4294967295, Ty::Sc("Float16")), (2147483648, Ty::Sc("Float16")),
                     (268435456, Ty::V("Float32", 4)), (268435455, Ty::V("Float32", 4)), (357913941, Ty::V("Float32", 3)), (357913942, Ty::V("Float32", 3)), (4294967295, Ty::Sc("Float64"))] {
        let big = Ty::A(len, Box::new(t.clone()));
        out.push(line(0, &Ty::S(vec![big.clone()])));
        out.push(line(0, &Ty::S(vec![Ty::Sc("Float32"), big.clone()])));
        out.push(line(0, &Ty::S(vec![big.clone(), Ty::Sc("Float64")])));
        out.push(line(0, &Ty::S(vec![big.clone(), big.clone()])));
        out.push(line(0, &Ty::S(vec![Ty::A(2, Box::new(Ty::S(vec![big.clone()])))])));
    }
    out.push(line(0, &Ty::S(vec![Ty::A(65536, Box::new(Ty::A(65536, Box::new(Ty::Sc("Float16")))))])));
    out.push(line(0, &Ty::S(vec![Ty::A(65536, Box::new(Ty::A(32768, Box::new(Ty::Sc("Float16")))))])));
    out.push(line(0, &Ty::S(vec![Ty::A(65535, Box::new(Ty::A(65537, Box::new(Ty::Sc("Float32")))))])));
    // triples over the vector/scalar leaves plus length-2/3 arrays of the odd-sized ones
    let mut small: Vec<Ty> = base.clone();
    for t in [Ty::V("Float16", 3), Ty::V("Float32", 3), Ty::V("Float16", 2), Ty::Sc("Float16"), Ty::V("Float64", 3)] {
        small.push(Ty::A(2, Box::new(t.clone())));
        small.push(Ty::A(3, Box::new(t)));
    }
    let step = if thorough { 1 } else { 7 };   // quick: a deterministic 1/7 sample of the triples
    let mut k = 0usize;
    for a in &small {
        for b in &small {
            for c in &small {
                k += 1;
                if k % step == 0 {
                    out.push(line(0, &Ty::S(vec![a.clone(), b.clone(), c.clone()])));
                }
            }
        }
    }
    for _ in 0..n {
        let usage = if rng.chance(1, 2) { 0 } else { rng.below(10) as u32 };
        let t = if rng.chance(1, 2) {
            gen_aligned(&mut rng, 2)
        } else {
            match gen_ty(&mut rng, 3) {
                t @ Ty::S(_) => t,
                t => Ty::S(vec![t, gen_leaf(&mut rng)]),
            }
        };
        out.push(line(usage, &t));
    }
    out
}
