//! C15: the name generator.  Case: <h|m> <symbol table words> # <source>
//!   decl := N id parent name | S id ns name | E id ns name | G id ns name | F id ns name | L id name   (- for none)
//! The symbol table is serialised from the typed module in the order NameMap::build visits it.
//! Output: <kind>:<id>=<generated leaf name> ... (kind 0 namespace, 1 struct, 2 enum, 3 global, 4 function, L local)
use crate::common::*;
use rssl::ir;
use rssl::ir::name_generator::{NameMap, NameSymbol};

fn opt(v: Option<ir::NamespaceId>) -> String {
    v.map(|x| x.0.to_string()).unwrap_or("-".into())
}

fn table(m: &ir::Module) -> String {
    let mut w = Vec::new();
    for i in 0..m.namespace_registry.get_namespace_count() {
        let id = ir::NamespaceId(i);
        w.push(format!("N {} {} {}", i, opt(m.namespace_registry.get_namespace_parent(id)), m.namespace_registry.get_namespace_name(id)));
    }
    for (i, s) in m.struct_registry.iter().enumerate() {
        w.push(format!("S {} {} {}", i, opt(s.namespace), s.name.node));
    }
    for i in 0..m.enum_registry.get_enum_count() {
        let d = m.enum_registry.get_enum_definition(ir::EnumId(i));
        w.push(format!("E {} {} {}", i, opt(d.namespace), d.name.node));
    }
    for (i, g) in m.global_registry.iter().enumerate() {
        if g.is_intrinsic {
            continue;
        }
        w.push(format!("G {} {} {}", i, opt(g.namespace), g.name.node));
    }
    for id in m.function_registry.iter() {
        if m.function_registry.get_intrinsic_data(id).is_some() {
            continue;
        }
        let sig = m.function_registry.get_function_signature(id);
        if !sig.template_params.is_empty() && m.function_registry.get_template_instantiation_data(id).is_none() {
            continue;
        }
        let n = m.function_registry.get_function_name_definition(id);
        w.push(format!("F {} {} {}", id.0, opt(n.namespace), n.name.node));
    }
    for id in m.variable_registry.iter() {
        w.push(format!("L {} {}", id.0, m.variable_registry.get_local_variable(id).name.node));
    }
    // what else can hide a root symbol from a path that does not start with `::`: enum values of namespaced enums,
    // struct members, struct methods
    w.push("|".into());
    for i in 0..m.enum_registry.get_enum_count() {
        let d = m.enum_registry.get_enum_definition(ir::EnumId(i));
        if let Some(ns) = d.namespace {
            for v in m.enum_registry.get_values(ir::EnumId(i)) { w.push(format!("V {} {}", ns.0, m.enum_registry.get_enum_value(*v).name.node)); }
        }
    }
    for s in m.struct_registry.iter() {
        for mem in &s.members { w.push(format!("M {}", mem.name)); }
        for f in &s.methods { w.push(format!("T {}", f.0)); }
    }
    w.join(" ")
}

/// for every struct / enum / global / function: one flag per use site (the root, then every namespace in id order) -
/// does the path written from the root need the leading `::` there
fn anchors(m: &ir::Module, map: &NameMap, out: &mut Vec<String>) {
    let mut sites: Vec<Option<ir::NamespaceId>> = vec![None];
    for i in 0..m.namespace_registry.get_namespace_count() { sites.push(Some(ir::NamespaceId(i))); }
    let mut one = |tag: u32, id: u32, sym: NameSymbol, out: &mut Vec<String>| {
        let flags: String = sites.iter().map(|u| if map.get_name_qualified(sym, *u).1 { '1' } else { '0' }).collect();
        out.push(format!("Q:{}:{}={}", tag, id, flags));
    };
    for i in 0..m.struct_registry.len() { one(1, i as u32, NameSymbol::Struct(ir::StructId(i as u32)), out); }
    for i in 0..m.enum_registry.get_enum_count() { one(2, i, NameSymbol::Enum(ir::EnumId(i)), out); }
    for (i, g) in m.global_registry.iter().enumerate() { if !g.is_intrinsic { one(3, i as u32, NameSymbol::GlobalVariable(ir::GlobalId(i as u32)), out); } }
    for id in m.function_registry.iter() {
        if m.function_registry.get_intrinsic_data(id).is_some() { continue; }
        let sig = m.function_registry.get_function_signature(id);
        if !sig.template_params.is_empty() && m.function_registry.get_template_instantiation_data(id).is_none() { continue; }
        one(4, id.0, NameSymbol::Function(id), out);
    }
}

fn names(m: &ir::Module, msl: bool) -> String {
    let map = if msl { NameMap::build(m, rssl::msl::verif::RESERVED_NAMES, false) } else { NameMap::build(m, rssl::hlsl::verif::RESERVED_NAMES, true) };
    let mut out = Vec::new();
    for i in 0..m.namespace_registry.get_namespace_count() {
        out.push(format!("0:{}={}", i, map.get_name_leaf(NameSymbol::Namespace(ir::NamespaceId(i)))));
    }
    for i in 0..m.struct_registry.len() {
        out.push(format!("1:{}={}", i, map.get_name_leaf(NameSymbol::Struct(ir::StructId(i as u32)))));
    }
    for i in 0..m.enum_registry.get_enum_count() {
        out.push(format!("2:{}={}", i, map.get_name_leaf(NameSymbol::Enum(ir::EnumId(i)))));
    }
    for (i, g) in m.global_registry.iter().enumerate() {
        if !g.is_intrinsic {
            out.push(format!("3:{}={}", i, map.get_name_leaf(NameSymbol::GlobalVariable(ir::GlobalId(i as u32)))));
        }
    }
    for id in m.function_registry.iter() {
        if m.function_registry.get_intrinsic_data(id).is_some() {
            continue;
        }
        let sig = m.function_registry.get_function_signature(id);
        if !sig.template_params.is_empty() && m.function_registry.get_template_instantiation_data(id).is_none() {
            continue;
        }
        out.push(format!("4:{}={}", id.0, map.get_name_leaf(NameSymbol::Function(id))));
    }
    for id in m.variable_registry.iter() {
        out.push(format!("L:{}={}", id.0, map.get_name_leaf(NameSymbol::LocalVariable(id))));
    }
    anchors(m, &map, &mut out);
    out.join(" ")
}

const POSITIONS: &[(&str, &str)] = &[
    ("function", "int @() { return 1; }\nint caller() { return @(); }\n"),
    ("parameter", "int fn0(int @) { return @; }\n"),
    ("local", "int fn0() { int @ = 2; return @; }\n"),
    ("global", "static int @ = 3;\nint fn0() { return @; }\n"),
    ("struct", "struct @ { int mem0; };\nint fn0(@ v) { return v.mem0; }\n"),
    ("member", "struct St0 { int @; };\nint fn0(St0 v) { return v.@; }\n"),
    ("method", "struct St0 { int mem0; int @() { return mem0; } };\nint fn0(St0 v) { return v.@(); }\n"),
    ("methodcall", "struct St0 { int mem0; int @() { return mem0; } int @(int a) { return a; } int other0() { return @() + @(2); } };\nint fn0(St0 v) { return v.other0() + v.@(); }\n"),
    ("enum", "enum @ { EnV0 };\nint fn0() { return (int)@::EnV0; }\n"),
    ("enumvalue", "enum En0 { @ };\nint fn0() { return (int)En0::@; }\n"),
    ("namespace", "namespace @ { static int gv0 = 1; struct NsS0 { int nm0; }; int nsf0(int a) { return a; } }\nint fn0() { @::NsS0 s; s.nm0 = @::nsf0(2); return s.nm0 + @::gv0; }\n"),
    ("cbuffer", "cbuffer @ { int cbm0; }\nint fn0() { return cbm0; }\n"),
    ("cbuffermember", "cbuffer Cb0 { int @; }\nint fn0() { return @; }\n"),
    ("templateparam", "template<typename @> @ fn0(@ v) { return v; }\nint fn1() { return fn0<int>(1); }\n"),
];

fn ident_tokens(text: &str) -> Vec<&str> {
    let mut out = Vec::new();
    let b = text.as_bytes();
    let mut i = 0;
    while i < b.len() {
        if b[i].is_ascii_alphabetic() || b[i] == b'_' {
            let st = i;
            while i < b.len() && (b[i].is_ascii_alphanumeric() || b[i] == b'_') {
                i += 1;
            }
            out.push(&text[st..i]);
        } else {
            i += 1;
        }
    }
    out
}

/// the probe program that declares <name> in <position> and uses it
pub fn probe_source(position: &str, name: &str) -> Option<String> {
    POSITIONS.iter().find(|(p, _)| *p == position).map(|(_, t)| t.replace('@', name))
}
pub fn probe_positions() -> Vec<&'static str> { POSITIONS.iter().map(|(p, _)| *p).collect() }

/// programs in which several symbols of one scope want the same name (overloads, a struct / enum / global / namespace
/// called like a function of another scope or like a `name_N` form), each of them used afterwards
pub fn clash_program(seed: u64) -> String {
    let mut rng = Rng::new(seed ^ 0xc1a5);
    let base = *rng.pick(&["f", "val", "Item", "abs", "uint64_t", "float16_t", "texture", "main", "T"]);
    let mut s = String::new();
    let mut uses = String::new();
    let n = rng.range(2, 5);
    for k in 0..n {
        match rng.below(6) {
            0 => { s += &format!("struct {}_{} {{ int m; }};\n", base, k); uses += &format!("    {}_{} s{}; s{}.m = {}; r += s{}.m;\n", base, k, k, k, k, k); }
            1 => { s += &format!("static int {}_{} = {};\n", base, k, k); uses += &format!("    r += {}_{};\n", base, k); }
            2 => { s += &format!("int {}(int a{}[{}]) {{ return a{}[0]; }}\n", base, k, k + 1, k); uses += &format!("    int q{}[{}]; q{}[0] = {}; r += {}(q{});\n", k, k + 1, k, k, base, k); }
            3 => { s += &format!("namespace N{} {{ struct {} {{ int m; }}; int {}_0() {{ return {}; }} }}\n", k, base, base, k); uses += &format!("    N{}::{} t{}; t{}.m = 1; r += t{}.m + N{}::{}_0();\n", k, base, k, k, k, k, base); }
            4 => { s += &format!("enum {}_{}e {{ {}_{}v = {} }};\n", base, k, base, k, k); uses += &format!("    r += (int){}_{}e::{}_{}v;\n", base, k, base, k); }
            _ => { s += &format!("int {}_{}(float x) {{ return {}; }}\n", base, k, k); uses += &format!("    r += {}_{}(1.0f);\n", base, k); }
        }
    }
    if rng.chance(1, 2) { s += &format!("struct {} {{ int m; }};\n", base); uses += &format!("    {} z; z.m = 3; r += z.m;\n", base); }
    // locals called like the names the generator hands out (`name_0`, `name_1`): in a free function next to the uses,
    // and in a method that calls overloaded methods of its struct by their bare names
    if rng.chance(1, 2) {
        let k = rng.below(3);
        uses += &format!("    int {}_{} = {}; r += {}_{};\n", base, k, 40 + k, base, k);
    }
    if rng.chance(1, 2) {
        let m = *rng.pick(&["scale", "f", "get"]);
        let k = rng.below(2);
        s += &format!("struct Ov{} {{ float w; float {}(int v) {{ return v * w; }} float {}(float v) {{ return v * w * 0.5f; }} float both() {{ float {}_{} = 3.0f; return {}(1) + {}(2.0f) + {}_{}; }} }};\n", k, m, m, m, k, m, m, m, k);
        uses += &format!("    Ov{} ov; ov.w = 2.0f; r += (int)ov.both();\n", k);
    }
    format!("{}int run() {{\n    int r = 0;\n{}    return r;\n}}\n", s, uses)
}

/// R <target> <position> <name>: declare <name> in the given position; the emitted source must not use it as an identifier
fn run_reserved(target: &str, position: &str, name: &str) -> String {
    let tpl = match POSITIONS.iter().find(|(p, _)| *p == position) {
        Some((_, t)) => *t,
        None => return "BAD-CASE".into(),
    };
    let src = tpl.replace('@', name);
    let o = crate::probe::compile_src(&[("main.rssl", &src)], "main.rssl", target, true, false, None, &[]);
    match o.kind {
        "OK" => {
            let text = String::from_utf8_lossy(&o.pipelines[0].data).to_string();
            // the same program with a neutral name shows which identifiers the exporter emits anyway
            let neutral = tpl.replace('@', "zq9");
            let base = crate::probe::compile_src(&[("main.rssl", &neutral)], "main.rssl", target, true, false, None, &[]);
            let base_text = if base.kind == "OK" { String::from_utf8_lossy(&base.pipelines[0].data).to_string() } else { String::new() };
            let n_here = ident_tokens(&text).iter().filter(|t| **t == name).count();
            let n_base = ident_tokens(&base_text).iter().filter(|t| **t == name).count();
            if n_here > n_base { format!("LEAK {}", n_here - n_base) } else { "CLEAN".into() }
        }
        "ERR" => format!("REJECT:{}", o.text.lines().next().unwrap_or("")),
        _ => "PANIC".into(),
    }
}

/// declarations of different kinds that want one name in one scope (the root or a namespace): an enum value, a global,
/// a function, a struct, a typedef, a namespace, a constant buffer and its member, an enum
pub fn same_name_program(seed: u64) -> String {
    let mut rng = Rng::new(seed ^ 0x5a3e);
    const POOL: &[&str] = &["a", "b", "Slow"];
    let in_ns = rng.chance(1, 3);
    let mut s = String::new();
    if in_ns { s += "namespace NS {\n"; }
    let n = rng.range(2, 4);
    for k in 0..n {
        let name = *rng.pick(POOL);
        match rng.below(9) {
            0 => s += &format!("enum En{} {{ {} = {} }};\n", k, name, k + 1),
            1 => s += &format!("static const int {} = {};\n", name, k + 10),
            2 => s += &format!("int {}() {{ return {}; }}\n", name, k + 20),
            3 => s += &format!("struct {} {{ int m{}; }};\n", name, k),
            4 => s += &format!("typedef int {};\n", name),
            5 => s += &format!("namespace {} {{ static const int z{} = 1; }}\n", name, k),
            6 if !in_ns => s += &format!("cbuffer Cb{} {{ int {}; }}\n", k, name),
            7 if !in_ns => s += &format!("cbuffer {} {{ int cm{}; }}\n", name, k),
            _ => s += &format!("enum {} {{ Vv{} }};\n", name, k),
        }
    }
    if in_ns { s += "}\n"; }
    s
}

fn decl_name(d: &rssl::ast::Declarator) -> Option<String> {
    match d {
        rssl::ast::Declarator::Empty => None,
        rssl::ast::Declarator::Identifier(id, _) => id.identifiers.last().map(|x| x.node.clone()),
        rssl::ast::Declarator::Pointer(p) => decl_name(&p.inner),
        rssl::ast::Declarator::Reference(p) => decl_name(&p.inner),
        rssl::ast::Declarator::Array(p) => decl_name(&p.inner),
    }
}

/// the names one scope of the emitted module declares, with the kind of entity; namespaces are scopes of their own
fn declared(defs: &[rssl::ast::RootDefinition], scope: &str, out: &mut Vec<(String, String, &'static str)>) {
    use rssl::ast::RootDefinition as R;
    for d in defs {
        match d {
            R::Struct(sd) => out.push((scope.to_string(), sd.name.node.clone(), "struct")),
            R::Enum(ed) => {
                out.push((scope.to_string(), ed.name.node.clone(), "enum"));
                for v in &ed.values { out.push((scope.to_string(), v.name.node.clone(), "enum value")); }
            }
            R::Typedef(td) => { if let Some(n) = decl_name(&td.declarator) { out.push((scope.to_string(), n, "typedef")); } }
            R::ConstantBuffer(cb) => {
                out.push((scope.to_string(), cb.name.node.clone(), "constant buffer"));
                for m in &cb.members { for dd in &m.defs { if let Some(n) = decl_name(&dd.declarator) { out.push((scope.to_string(), n, "constant buffer member")); } } }
            }
            R::GlobalVariable(gv) => { for dd in &gv.defs { if let Some(n) = decl_name(&dd.declarator) { out.push((scope.to_string(), n, "global")); } } }
            R::Function(fd) => out.push((scope.to_string(), fd.name.node.clone(), "function")),
            R::Namespace(name, inner) => {
                out.push((scope.to_string(), name.node.clone(), "namespace"));
                declared(inner, &format!("{}::{}", scope, name.node), out);
            }
            R::Pipeline(_) => {}
        }
    }
}

/// N <seed>: the emitted HLSL module never declares two entities of one name in one scope (overloads of a function and
/// the parts of a reopened namespace aside)
fn run_same_name(seed: u64) -> String {
    let src = same_name_program(seed);
    match catch(|| front_end(&src)) {
        Ok(Ok(_)) => {}
        Ok(Err(e)) => return format!("REJECT:{}", e),
        Err(e) => return format!("PANIC {}", e.lines().next().unwrap_or("")),
    }
    let _ = rssl::hlsl::verif::take_last_ast();
    let o = crate::probe::compile_src(&[("main.rssl", &src)], "main.rssl", "HlslForDirectX", true, false, None, &[]);
    if o.kind != "OK" { return format!("EXPORT-{} {}", o.kind, o.text.lines().next().unwrap_or("")); }
    let tree = match rssl::hlsl::verif::take_last_ast() { Some(t) => t, None => return "SKIP no tree".into() };
    let mut ds = Vec::new();
    declared(&tree.root_definitions, "", &mut ds);
    for (i, a) in ds.iter().enumerate() {
        for b in &ds[..i] {
            if a.0 == b.0 && a.1 == b.1 && !(a.2 == "function" && b.2 == "function") && !(a.2 == "namespace" && b.2 == "namespace") {
                return format!("DUP-NAME `{}` is declared as {} and as {} in scope `{}::`", a.1, b.2, a.2, a.0);
            }
        }
    }
    format!("DECLS {}", ds.len())
}

pub fn run_line(line: &str) -> String {
    if let Some(rest) = line.strip_prefix("N ") {
        return match rest.trim().parse::<u64>() { Ok(seed) => run_same_name(seed), Err(_) => "BAD-CASE".into() };
    }
    if let Some(rest) = line.strip_prefix("R ") {
        let w: Vec<&str> = rest.split_whitespace().collect();
        if w.len() != 3 {
            return "BAD-CASE".into();
        }
        return run_reserved(w[0], w[1], w[2]);
    }
    if let Some(rest) = line.strip_prefix("U ") {
        // every use refers to the entity it referred to in the source: the emitted HLSL is read back and every
        // function body must name the same entities (the comparison of C01, on programs made of shadowing names)
        let r = crate::c01::run_line(&format!("E dx shadow:{}", rest.trim()));
        if let Some(body) = r.strip_prefix("PAIRS ") {
            let mut n = 0;
            for item in body.split(" ;; ").skip(1) {
                let (name, rest) = match item.split_once(" :: ") { Some(x) => x, None => continue };
                let (a, b) = match rest.split_once(" || ") { Some(x) => x, None => continue };
                if crate::sdump::canonical_locals(a) != crate::sdump::canonical_locals(b) {
                    return format!("USES-DIFFER {} :: {} || {}", name, a, b);
                }
                n += 1;
            }
            return format!("USES-SAME {}", n);
        }
        return r;
    }
    let parts: Vec<&str> = line.splitn(2, " # ").collect();
    if parts.len() != 2 {
        return "BAD-CASE".into();
    }
    let msl = parts[0].starts_with("m ");
    let recorded = &parts[0][2..];
    let src = parts[1].replace("\\n", "\n");
    let m = match front_end(&src) {
        Ok(m) => m,
        Err(e) => return format!("REJECT:{}", e),
    };
    if table(&m) != recorded {
        return format!("IR-CHANGED {}", table(&m));
    }
    names(&m, msl)
}

fn pool(rng: &mut Rng, reserved: &[&str]) -> String {
    let r = rng.below(10);
    match r {
        0..=2 => (*rng.pick(&["a", "b", "f", "g", "v", "x", "foo", "bar"])).to_string(),
        3 | 4 => {
            // name_N forms of the other pool names
            format!("{}_{}", rng.pick(&["a", "f", "g", "foo", "abs", "texture", "x"]), rng.below(3))
        }
        5 | 6 | 7 => (*rng.pick(reserved)).to_string(),
        8 => format!("{}_{}_{}", rng.pick(&["f", "a"]), rng.below(2), rng.below(2)),
        _ => (*rng.pick(&["main", "in_", "out_", "T", "S0", "Texture2D_0", "float4_0", "abs_0", "min", "max"])).to_string(),
    }
}

fn gen_scope(rng: &mut Rng, reserved: &[&str], depth: u32, src: &mut String) {
    let n = rng.range(1, 6);
    for _ in 0..n {
        let name = pool(rng, reserved);
        match rng.below(8) {
            0 => *src += &format!("struct {} {{ int m; }};\n", name),
            1 => *src += &format!("enum {} {{ {}_V }};\n", name, name),
            2 | 3 => *src += &format!("static int {};\n", name),
            4 | 5 | 6 => {
                // an overload set of 1-3 functions with locals
                let k = rng.range(1, 3);
                for j in 0..k {
                    let p = pool(rng, reserved);
                    let l = pool(rng, reserved);
                    let ty = ["int", "float", "uint"][j as usize];
                    *src += &format!("void {}({} {}) {{ int {} = 0; }}\n", name, ty, p, l);
                }
            }
            _ if depth > 0 => {
                *src += &format!("namespace {} {{\n", name);
                gen_scope(rng, reserved, depth - 1, src);
                *src += "}\n";
            }
            _ => *src += &format!("static float {};\n", name),
        }
    }
}

/// declarations whose names come from a tiny pool, nested three namespaces deep, with enum values, struct members
/// and methods of the same names: most root paths are hidden somewhere
fn gen_shadow_scope(rng: &mut Rng, depth: u32, k: &mut u32, src: &mut String) {
    const POOL: &[&str] = &["a", "b", "f", "g"];
    let n = rng.range(1, 5);
    for _ in 0..n {
        let name = *rng.pick(POOL);
        *k += 1;
        match rng.below(10) {
            // namespaces that hold nothing (they are not written out, so their names hide nothing in the output)
            9 => *src += &format!("namespace {} {{ namespace {} {{ }} }}\n", rng.pick(&["a", "b", "N"]), rng.pick(&["a", "b", "f"])),
            0 => *src += &format!("struct S{} {{ int {}; int {}() {{ return {}; }} }};\n", k, name, rng.pick(POOL), k),
            1 => *src += &format!("enum E{} {{ {} }};\n", k, name),
            2 | 3 => *src += &format!("static const int {} = {};\n", name, k),
            4 | 5 => *src += &format!("int {}() {{ int {} = {}; return {}; }}\n", name, rng.pick(POOL), k, k),
            _ if depth > 0 => {
                *src += &format!("namespace {} {{\n", rng.pick(&["a", "b", "N"]));
                gen_shadow_scope(rng, depth - 1, k, src);
                *src += "}\n";
            }
            _ => *src += &format!("static const float {} = {}.0;\n", name, k),
        }
    }
}

/// a program of shadowing declarations plus, in every namespace, functions that use what the front end lets them use
/// through anchored, full and partial paths; each use is kept only if the program still type checks with it
pub fn shadow_program(seed: u64) -> String {
    let mut rng = Rng::new(seed ^ 0x5ad0);
    const NS: &[&str] = &["A", "B"];
    const FN: &[&str] = &["f", "g"];
    // namespaces as paths from the root; the root is the empty path
    let mut scopes: Vec<Vec<&str>> = vec![vec![]];
    fn grow<'a>(rng: &mut Rng, at: Vec<&'a str>, depth: u32, scopes: &mut Vec<Vec<&'a str>>) {
        if depth == 0 { return; }
        for n in NS {
            if rng.chance(3, 5) {
                let mut p = at.clone(); p.push(*n);
                scopes.push(p.clone());
                grow(rng, p, depth - 1, scopes);
            }
        }
    }
    grow(&mut rng, vec![], 3, &mut scopes);
    // what each scope declares: functions returning a distinct number, constants
    let mut decls: Vec<(Vec<&str>, String, bool)> = Vec::new();   // scope, name, is function
    let mut k = 0;
    let mut body = std::collections::BTreeMap::<Vec<&str>, String>::new();
    let mut enums: Vec<Vec<&str>> = Vec::new();
    for sc in &scopes {
        let mut text = String::new();
        for f in FN { if rng.chance(1, 2) { k += 1; text += &format!("int {}() {{ return {}; }}\n", f, k); decls.push((sc.clone(), f.to_string(), true)); } }
        if rng.chance(1, 3) { k += 1; text += &format!("static const int v = {};\n", k); decls.push((sc.clone(), "v".into(), false)); }
        // enums of one name in several namespaces; they are used through values that no enumerator has, which the
        // exporters write as a cast of the number to the enum's path
        if rng.chance(1, 2) { k += 1; text += &format!("enum E {{ P{} = {} }};\n", k, k); enums.push(sc.clone()); }
        body.insert(sc.clone(), text);
    }
    fn render(scopes: &[Vec<&str>], body: &std::collections::BTreeMap<Vec<&str>, String>, at: &[&str], out: &mut String) {
        *out += &body[&at.to_vec()];
        for sc in scopes {
            if sc.len() == at.len() + 1 && sc[..at.len()] == *at {
                *out += &format!("namespace {} {{\n", sc[at.len()]);
                render(scopes, body, sc, out);
                *out += "}\n";
            }
        }
    }
    let mut base = String::new();
    render(&scopes, &body, &[], &mut base);
    if decls.is_empty() && enums.is_empty() { return base; }
    let mut uses = String::new();
    let mut u = 0;
    for sc in &scopes {
        for _ in 0..4 {
            if decls.is_empty() { break; }
            let (dsc, name, is_fn) = rng.pick(&decls).clone();
            let mut full: Vec<String> = dsc.iter().map(|x| x.to_string()).collect();
            full.push(name);
            let take = rng.range(1, full.len() as u64) as usize;
            let mut path = full[full.len() - take..].join("::");
            if take == full.len() && rng.chance(1, 2) { path = format!("::{}", path); }
            let expr = if is_fn { format!("{}()", path) } else { path };
            u += 1;
            let mut block = String::new();
            for n in sc { block += &format!("namespace {} {{ ", n); }
            block += &format!("int use{}() {{ return {}; }}", u, expr);
            for _ in sc { block += " }"; }
            block += "\n";
            let trial = format!("{}{}{}", base, uses, block);
            if let Ok(Ok(_)) = catch(|| front_end(&trial)) { uses += &block; }
        }
        for _ in 0..2 {
            if enums.is_empty() { break; }
            let dsc = rng.pick(&enums).clone();
            let mut full: Vec<String> = dsc.iter().map(|x| x.to_string()).collect();
            full.push("E".into());
            let take = rng.range(1, full.len() as u64) as usize;
            let mut path = full[full.len() - take..].join("::");
            if take == full.len() && rng.chance(1, 2) { path = format!("::{}", path); }
            u += 1;
            let mut block = String::new();
            for n in sc { block += &format!("namespace {} {{ ", n); }
            block += &format!("int use{}(int x) {{ switch (x) {{ case ({}){}: return 1; }} return 0; }}", u, path, 1000 + u);
            for _ in sc { block += " }"; }
            block += "\n";
            let trial = format!("{}{}{}", base, uses, block);
            if let Ok(Ok(_)) = catch(|| front_end(&trial)) { uses += &block; }
        }
    }
    format!("{}{}", base, uses)
}

pub fn gen_cases(seed: u64, n: usize, _thorough: bool) -> Vec<String> {
    let mut rng = Rng::new(seed);
    let mut out = Vec::new();
    let mut push = |msl: bool, src: String, out: &mut Vec<String>| {
        if let Ok(Ok(m)) = catch(|| front_end(&src)) {
            out.push(format!("{} {} # {}", if msl { "m" } else { "h" }, table(&m), src.replace('\n', "\\n")));
        }
    };
    // every reserved name of each target as a function, a global, a struct and a local (those RSSL accepts)
    for msl in [false, true] {
        let reserved: &[&str] = if msl { rssl::msl::verif::RESERVED_NAMES } else { rssl::hlsl::verif::RESERVED_NAMES };
        for r in reserved {
            push(msl, format!("void {}() {{}}\nvoid g(int {}) {{ int v = {}; }}\n", r, r, r), &mut out);
            push(msl, format!("static int {};\nstruct {}_0 {{ int m; }};\nvoid {}_1(float {}) {{}}\n", r, r, r, r), &mut out);
            push(msl, format!("struct {} {{ int m; }};\nvoid f() {{}}\nvoid f(int x) {{}}\nvoid f_0() {{}}\n", r), &mut out);
        }
    }
    // every reserved name of each target in every declaration position
    for (target, reserved) in [("HlslForDirectX", rssl::hlsl::verif::RESERVED_NAMES), ("Msl", rssl::msl::verif::RESERVED_NAMES)] {
        for r in reserved {
            for (pos, _) in POSITIONS {
                out.push(format!("R {} {} {}", target, pos, r));
            }
        }
    }
    for _ in 0..n {
        let msl = rng.chance(1, 2);
        let reserved: &[&str] = if msl { rssl::msl::verif::RESERVED_NAMES } else { rssl::hlsl::verif::RESERVED_NAMES };
        let mut src = String::new();
        gen_scope(&mut rng, reserved, 2, &mut src);
        push(msl, src, &mut out);
    }
    for _ in 0..n / 3 {
        let mut src = String::new();
        let mut k = 0;
        gen_shadow_scope(&mut rng, 3, &mut k, &mut src);
        push(rng.chance(1, 2), src, &mut out);
    }
    for _ in 0..n / 10 { out.push(format!("U {}", rng.below(1 << 40))); }
    for _ in 0..n / 2 { out.push(format!("N {}", rng.below(1 << 40))); }
    out
}
