(* IRType.v — the typing rules of the typed IR (ir/src/ir_expressions.rs Expression::get_type, ir/src/intrinsics.rs
   IntrinsicOp::get_return_type) made strict: a node is well typed when the type the IR assigns it is the one its rule
   derives AND every operand has exactly the type the node requires (what the Rust side only asserts, or does not look
   at, when someone asks for a type).  Every node of the dump carries the type Expression::get_type answered.
   No proofs in this file. *)
From Coq Require Import List NArith Bool String.
Import ListNotations.
Local Open Scope string_scope.
Local Open Scope N_scope.

Inductive sk := KBool | KIntLit | KInt | KUInt | KFloatLit | KHalf | KFloat | KDouble.

Inductive ty :=
| TVoid
| TScalar (k : sk)
| TVector (n : N) (t : ty)
| TMatrix (r c : N) (t : ty)
| TStruct (id : N)
| TTemplate (id : N)
| TEnum (id : N)
| TArray (len : option N) (t : ty)
| TParam (id : N)
| TMod (bits : N) (t : ty)          (* bit 0 const, 1 volatile, 2 row_major, 3 column_major, 4 unorm, 5 snorm *)
| TObj0 (name : string)
| TObj1 (name : string) (t : ty).

Definition sk_eqb (a b : sk) : bool :=
  match a, b with
  | KBool, KBool | KIntLit, KIntLit | KInt, KInt | KUInt, KUInt | KFloatLit, KFloatLit | KHalf, KHalf | KFloat, KFloat
  | KDouble, KDouble => true
  | _, _ => false
  end.

Definition optN_eqb (a b : option N) : bool :=
  match a, b with Some x, Some y => x =? y | None, None => true | _, _ => false end.

Fixpoint ty_eqb (a b : ty) : bool :=
  match a, b with
  | TVoid, TVoid => true
  | TScalar x, TScalar y => sk_eqb x y
  | TVector n x, TVector m y => (n =? m) && ty_eqb x y
  | TMatrix r c x, TMatrix r' c' y => (r =? r') && (c =? c') && ty_eqb x y
  | TStruct x, TStruct y | TTemplate x, TTemplate y | TEnum x, TEnum y | TParam x, TParam y => x =? y
  | TArray l x, TArray l' y => optN_eqb l l' && ty_eqb x y
  | TMod b x, TMod b' y => (b =? b') && ty_eqb x y
  | TObj0 n, TObj0 m => String.eqb n m
  | TObj1 n x, TObj1 m y => String.eqb n m && ty_eqb x y
  | _, _ => false
  end.

Definition strip (t : ty) : ty := match t with TMod _ u => u | _ => t end.
Definition bits (t : ty) : N := match t with TMod b _ => b | _ => 0 end.
Definition is_const (t : ty) : bool := N.testbit (bits t) 0.
(* combine_modifier: no wrapper for the empty modifier *)
Definition remod (b : N) (t : ty) : ty := if b =? 0 then strip t else TMod b (strip t).
(* make_const *)
Definition make_const (t : ty) : ty := TMod (N.lor (bits t) 1) (strip t).

Inductive shape := ShS | ShV (n : N) | ShM (r c : N).
Definition total (s : shape) : N := match s with ShS => 1 | ShV n => n | ShM r c => r * c end.
Definition shape_eqb (a b : shape) : bool :=
  match a, b with ShS, ShS => true | ShV n, ShV m => n =? m | ShM r c, ShM r' c' => (r =? r') && (c =? c') | _, _ => false end.

(* numeric types: element kind and shape (modifiers on the type or on the element are looked through) *)
Definition num (t : ty) : option (sk * shape) :=
  match strip t with
  | TScalar k => Some (k, ShS)
  | TVector n u => match strip u with TScalar k => Some (k, ShV n) | _ => None end
  | TMatrix r c u => match strip u with TScalar k => Some (k, ShM r c) | _ => None end
  | _ => None
  end.

Definition with_kind (k : sk) (s : shape) : ty :=
  match s with ShS => TScalar k | ShV n => TVector n (TScalar k) | ShM r c => TMatrix r c (TScalar k) end.

Definition is_int_kind (k : sk) : bool := match k with KInt | KUInt | KIntLit => true | _ => false end.
Definition is_intlike_kind (k : sk) : bool := match k with KInt | KUInt | KIntLit | KBool => true | _ => false end.

(* ---------- expressions: every node carries the type the IR gives it ---------- *)
Inductive kind :=
| KLit | KVar | KEVal | KTern | KSeq
| KSwz (idx : list N)
| KMSwz (idx : list N)                     (* matrix swizzle: one number 4 * row + column per component *)
| KOpq (what : string)
| KSub
| KSMem (sid : N) (mt : ty)
| KCall (method intrinsic : bool) (nd : N) (params : list (N * ty)) (ret : ty)    (* direction 0 in, 1 out, 2 inout; a method call carries the object as its first operand; parameters from index nd on have default values and may be left out from the end *)
| KCtor (ar : list N)
| KCast | KSizeOf
| KOp (name : string).

Inductive expr := Node (k : kind) (t : ty) (lv : bool) (kids : list expr).

Definition e_ty (e : expr) : ty := match e with Node _ t _ _ => t end.
Definition e_lv (e : expr) : bool := match e with Node _ _ lv _ => lv end.
Definition e_kids (e : expr) : list expr := match e with Node _ _ _ ks => ks end.

(* row_major / column_major (bits 2 and 3) describe a matrix; a row or a component of it does not carry them *)
Definition unorient (b : N) : N := N.land b 51.

Fixpoint nodupN (l : list N) : bool :=
  match l with [] => true | x :: r => negb (existsb (N.eqb x) r) && nodupN r end.

(* does the path written by an assignment go through something const?  (a member of a const struct, an element of a const
   array, a component of a const vector, a constant buffer member ...) *)
Fixpoint const_path (e : expr) : bool :=
  match e with
  | Node k t _ kids =>
      is_const t ||
      match k, kids with
      | KSMem _ _, [x] | KSwz _, [x] | KMSwz _, [x] => const_path x
      | KSub, x :: _ =>
          (* an element of a resource is as writable as its own type says (read-only resources give const elements);
             the handle being const does not matter *)
          match strip (e_ty x) with TObj0 _ | TObj1 _ _ => false | _ => const_path x end
      | _, _ => false
      end
  end.

Definition writable (e : expr) : bool := e_lv e && negb (const_path e).

Definition in_list (s : string) (l : list string) : bool := existsb (String.eqb s) l.

Definition arith_ops := ["Add"; "Subtract"; "Multiply"; "Divide"; "Modulus"].
Definition int_ops := ["LeftShift"; "RightShift"; "BitwiseAnd"; "BitwiseOr"; "BitwiseXor"].
Definition cmp_ops := ["LessThan"; "LessEqual"; "GreaterThan"; "GreaterEqual"; "Equality"; "Inequality"].
Definition bool_ops := ["BooleanAnd"; "BooleanOr"].
Definition assign_arith := ["SumAssignment"; "DifferenceAssignment"; "ProductAssignment"; "QuotientAssignment"; "RemainderAssignment"].
Definition assign_int := ["LeftShiftAssignment"; "RightShiftAssignment"; "BitwiseAndAssignment"; "BitwiseOrAssignment"; "BitwiseXorAssignment"].

(* explicit casts the language has: numeric to numeric of the same shape, from a scalar (splat) or to fewer
   components; enums and integers; anything to itself; a struct from the literal zero *)
Definition castable (from to : ty) : bool :=
  ty_eqb (strip from) (strip to) ||
  match strip from with TObj1 "ConstantBuffer" inner => ty_eqb (strip inner) (strip to) | _ => false end ||
  match num from, num to with
  | Some (_, sf), Some (_, st) =>
      shape_eqb sf st || shape_eqb sf ShS || shape_eqb sf (ShV 1) ||
      match sf, st with
      | ShV n, ShV m => m <=? n
      | ShV _, ShS | ShM _ _, ShS => true
      | ShM r c, ShM r' c' => (r' <=? r) && (c' <=? c)
      | ShV n, ShM r c | ShM r c, ShV n => n =? r * c
      | _, _ => false
      end
  | Some (_, ShS), None => match strip to with TEnum _ | TStruct _ | TArray _ _ => true | _ => false end
  | None, Some (k, ShS) => match strip from with TEnum _ => true | _ => false end
  | _, _ => false
  end.

Definition err := option string.   (* None: the node is fine *)
Definition ok : err := None.
Definition bad (s : string) : err := Some s.
Definition req (b : bool) (s : string) : err := if b then None else Some s.
Definition both (a b : err) : err := match a with Some _ => a | None => b end.

Definition same (a b : ty) : bool := ty_eqb (strip a) (strip b).

Fixpoint args_ok (nd : N) (params : list (N * ty)) (args : list expr) : err :=
  match params, args with
  | (dir, pt) :: ps, a :: r =>
      both (req (same (e_ty a) pt || match strip pt with TParam _ => true | _ => false end) "argument type differs from the parameter type")
     (both (req ((dir =? 0) || writable a) "out / inout argument is not a writable lvalue")
           (args_ok (N.pred nd) ps r))
  | _, [] => req (nd =? 0) "argument count differs from the parameter count"
  | [], _ :: _ => bad "argument count differs from the parameter count"
  end.

Fixpoint slots_ok (k : sk) (ar : list N) (kids : list expr) : err :=
  match ar, kids with
  | [], [] => ok
  | a :: ar', x :: r =>
      both (match num (e_ty x) with
            | Some (k', s) => req (sk_eqb k k' && (total s =? a)) "constructor slot has another element type or size"
            | None => bad "constructor slot is not numeric"
            end)
           (slots_ok k ar' r)
  | _, _ => bad "constructor slot count"
  end.

Definition sumN (l : list N) : N := fold_right N.add 0 l.

Definition check_op (name : string) (t : ty) (lv : bool) (kids : list expr) : err :=
  match kids with
  | [a] =>
      let ta := e_ty a in
      if in_list name ["PrefixIncrement"; "PrefixDecrement"] then
        both (req (writable a) "increment of something that is not a writable lvalue")
       (both (req (match num ta with Some (k, _) => negb (sk_eqb k KBool) | None => false end) "increment of a non-numeric value")
             (req (ty_eqb t ta && lv) "type of a prefix increment"))
      else if in_list name ["PostfixIncrement"; "PostfixDecrement"] then
        both (req (writable a) "increment of something that is not a writable lvalue")
       (both (req (match num ta with Some (k, _) => negb (sk_eqb k KBool) | None => false end) "increment of a non-numeric value")
             (req (ty_eqb t (strip ta) && negb lv) "type of a postfix increment"))
      else if in_list name ["Plus"; "Minus"] then
        both (req (match num ta with Some _ => true | None => match strip ta with TEnum _ => true | _ => false end end) "sign of a value that is neither numeric nor of an enum type")
             (req (ty_eqb t (strip ta) && negb lv) "type of a sign operation")
      else if String.eqb name "LogicalNot" then
        match num ta with
        | Some (k, s) => both (req (sk_eqb k KBool) "logical not of a non-bool value")
                              (req (ty_eqb t (with_kind KBool s) && negb lv) "type of a logical not")
        | None => bad "logical not of a non-numeric value"
        end
      else if String.eqb name "BitwiseNot" then
        both (req (match num ta with Some (k, _) => is_intlike_kind k | None => match strip ta with TEnum _ => true | _ => false end end) "bitwise not of a value that is neither an integer nor of an enum type")
             (req (ty_eqb t (strip ta) && negb lv) "type of a bitwise not")
      else bad "unknown unary operation"
  | [a; b] =>
      let ta := e_ty a in let tb := e_ty b in
      if in_list name arith_ops then
        both (req (ty_eqb ta tb) "operands of an arithmetic operation have different types")
       (both (req (match num ta with Some (k, _) => negb (sk_eqb k KBool) | None => false end) "arithmetic on a non-numeric or bool value")
             (req (ty_eqb t ta && negb lv) "type of an arithmetic operation"))
      else if in_list name int_ops then
        both (req (ty_eqb ta tb) "operands of an integer operation have different types")
       (both (req (match num ta with Some (k, _) => is_int_kind k | None => false end) "integer operation on a non-integer value")
             (req (ty_eqb t ta && negb lv) "type of an integer operation"))
      else if in_list name bool_ops then
        both (req (ty_eqb ta tb && ty_eqb (strip ta) (TScalar KBool)) "operands of a short-circuit operation are not bool")
             (req (ty_eqb t ta && negb lv) "type of a short-circuit operation")
      else if in_list name cmp_ops then
        both (req (ty_eqb ta tb) "operands of a comparison have different types")
             (match num ta with
              | Some (_, s) => req (ty_eqb t (with_kind KBool s) && negb lv) "type of a comparison"
              | None => match strip ta with
                        | TEnum _ => req (ty_eqb t (TScalar KBool) && negb lv) "type of a comparison"
                        | _ => bad "comparison of values that are neither numeric nor of an enum type"
                        end
              end)
      else if String.eqb name "Assignment" then
        both (req (writable a) "assignment to something that is not a writable lvalue")
       (both (req (same ta tb) "assigned value has another type than the variable")
             (req (ty_eqb t ta && lv) "type of an assignment"))
      else if in_list name assign_arith then
        both (req (writable a) "assignment to something that is not a writable lvalue")
       (both (req (same ta tb) "assigned value has another type than the variable")
       (both (req (match num ta with Some (k, _) => negb (sk_eqb k KBool) | None => false end) "compound arithmetic on a non-numeric or bool value")
             (req (ty_eqb t ta && lv) "type of a compound assignment")))
      else if in_list name assign_int then
        both (req (writable a) "assignment to something that is not a writable lvalue")
       (both (req (same ta tb) "assigned value has another type than the variable")
       (both (req (match num ta with Some (k, _) => is_int_kind k | None => false end) "compound integer operation on a non-integer value")
             (req (ty_eqb t ta && lv) "type of a compound assignment")))
      else bad "unknown binary operation"
  | _ => bad "operation with an unexpected number of operands"
  end.

Definition check_node (k : kind) (t : ty) (lv : bool) (kids : list expr) : err :=
  match k with
  | KLit => both (req (match kids with [] => true | _ => false end) "literal with operands")
                 (req (negb lv && match strip t with TScalar _ | TEnum _ => true | _ => false end) "type of a literal")
  | KVar => req (lv && match kids with [] => true | _ => false end) "a variable is an lvalue leaf"
  | KEVal => req (negb lv && match strip t with TEnum _ => true | _ => false end && match kids with [] => true | _ => false end) "type of an enum value"
  | KTern =>
      match kids with
      | [c; a; b] =>
          both (req (ty_eqb (strip (e_ty c)) (TScalar KBool)) "ternary condition is not a bool")
         (both (req (same (e_ty a) (e_ty b)) "ternary arms have different types")
               (req (ty_eqb t (e_ty a) && negb lv) "type of a ternary"))
      | _ => bad "ternary operand count"
      end
  | KSeq =>
      match rev kids with
      | last :: _ => req (ty_eqb t (e_ty last) && Bool.eqb lv (e_lv last)) "type of a sequence"
      | [] => bad "empty sequence"
      end
  | KSwz idx =>
      match kids with
      | [x] =>
          let tx := e_ty x in
          match idx with
          | [] => bad "empty swizzle"
          | _ =>
              let n := N.of_nat (List.length idx) in
              match strip tx with
              | TScalar k =>
                  both (req (forallb (N.eqb 0) idx && (n <=? 4)) "swizzle component outside a scalar")
                       (req (ty_eqb t (remod (bits tx) (if n =? 1 then TScalar k else TVector n (TScalar k))) && Bool.eqb lv (e_lv x && nodupN idx)) "type of a swizzle")
              | TVector w s =>
                  both (req (forallb (fun i => i <? w) idx && (n <=? 4)) "swizzle component outside the vector")
                       (req (ty_eqb t (remod (bits tx) (if n =? 1 then s else TVector n s)) && Bool.eqb lv (e_lv x && nodupN idx)) "type of a swizzle")
              | _ => bad "swizzle of something that is neither a scalar nor a vector"
              end
          end
      | _ => bad "swizzle operand count"
      end
  | KMSwz idx =>
      match kids with
      | [x] =>
          let tx := e_ty x in
          match idx with
          | [] => bad "empty matrix swizzle"
          | _ =>
              let n := N.of_nat (List.length idx) in
              match strip tx with
              | TMatrix r c s =>
                  both (req (forallb (fun i => (i / 4 <? r) && (i mod 4 <? c)) idx && (n <=? 4)) "matrix swizzle component outside the matrix")
                       (req (ty_eqb t (remod (unorient (bits tx)) (if n =? 1 then s else TVector n s)) && Bool.eqb lv (e_lv x && nodupN idx)) "type of a matrix swizzle")
              | _ => bad "matrix swizzle of something that is not a matrix"
              end
          end
      | _ => bad "matrix swizzle operand count"
      end
  | KOpq _ => ok
  | KSub =>
      match kids with
      | [a; i] =>
          let ta := e_ty a in
          both (req (match num (e_ty i) with Some (k, _) => is_intlike_kind k | None => match strip (e_ty i) with TEnum _ => true | _ => false end end) "subscript is not an integer")
               (match strip ta with
                | TArray _ el => req (ty_eqb t el && lv) "type of an array element"
                | TVector _ s => req (ty_eqb t (remod (bits ta) s) && lv) "type of a vector element"
                | TMatrix _ c s => req (ty_eqb t (remod (unorient (bits ta)) (TVector c s)) && lv) "type of a matrix row"
                | TObj1 _ _ | TObj0 _ => req lv "an element of a resource is an lvalue"
                | _ => bad "subscript of something that cannot be indexed"
                end)
      | _ => bad "subscript operand count"
      end
  | KSMem sid mt =>
      match kids with
      | [x] => both (req (ty_eqb (strip (e_ty x)) (TStruct sid) ||
                          match strip (e_ty x) with TObj1 "ConstantBuffer" inner => ty_eqb (strip inner) (TStruct sid) | _ => false end)
                         "member access on a value of another type")
                    (req (ty_eqb t mt && Bool.eqb lv (e_lv x)) "type of a struct member")
      | _ => bad "member operand count"
      end
  | KCall method _ nd params ret =>
      both (if method then match kids with _ :: r => args_ok nd params r | [] => bad "method call without an object" end else args_ok nd params kids)
           (req (ty_eqb t ret && negb lv) "type of a call")
  | KCtor ar =>
      match num t with
      | Some (k, s) => both (req ((sumN ar =? total s) && negb lv) "constructor slots do not add up to the constructed type")
                            (slots_ok k ar kids)
      | None => bad "constructor of a non-numeric type"
      end
  | KCast =>
      match kids with
      | [x] => both (req (negb lv) "a cast is an rvalue") (req (castable (e_ty x) t) "cast between unrelated types")
      | _ => bad "cast operand count"
      end
  | KSizeOf => req (ty_eqb t (TScalar KUInt) && negb lv && match kids with [] => true | _ => false end) "type of sizeof"
  | KOp name => check_op name t lv kids
  end.

(* the first fault of an expression tree, outermost first *)
Fixpoint wt (e : expr) : err :=
  match e with
  | Node k t lv kids =>
      both (check_node k t lv kids)
           ((fix all (l : list expr) : err := match l with [] => None | x :: r => both (wt x) (all r) end) kids)
  end.

(* ---------- statements ---------- *)
Inductive init := INone | IExpr (e : expr) | IAgg (l : list init).

Inductive stmt :=
| SExpr (e : expr)
| SVar (t : ty) (i : init)
| SBlock (l : list stmt)
| SIf (c : expr) (a : list stmt)
| SIfElse (c : expr) (a b : list stmt)
| SFor (defs : list (ty * init)) (ini cond inc : option expr) (b : list stmt)
| SWhile (c : expr) (b : list stmt)
| SDo (b : list stmt) (c : expr)
| SSwitch (c : expr) (b : list stmt)
| SJump
| SRet (e : option expr)
| SLabel.

Fixpoint wt_init (top : bool) (t : ty) (i : init) : err :=
  match i with
  | INone => ok
  | IExpr e => both (wt e) (if top then req (same (e_ty e) t) "initialiser has another type than the variable" else ok)
  | IAgg l => (fix all (l : list init) : err := match l with [] => None | x :: r => both (wt_init false t x) (all r) end) l
  end.

Definition wt_opt (o : option expr) : err := match o with Some e => wt e | None => ok end.

Fixpoint wt_stmt (ret : ty) (s : stmt) : err :=
  let blk := fix blk (l : list stmt) : err := match l with [] => None | x :: r => both (wt_stmt ret x) (blk r) end in
  match s with
  | SExpr e => wt e
  | SVar t i => wt_init true t i
  | SBlock l => blk l
  | SIf c a => both (wt c) (blk a)
  | SIfElse c a b => both (wt c) (both (blk a) (blk b))
  | SFor defs ini cond inc b =>
      both ((fix all (l : list (ty * init)) : err := match l with [] => None | (t, i) :: r => both (wt_init true t i) (all r) end) defs)
     (both (wt_opt ini) (both (wt_opt cond) (both (wt_opt inc) (blk b))))
  | SWhile c b => both (wt c) (blk b)
  | SDo b c => both (blk b) (wt c)
  | SSwitch c b => both (wt c) (blk b)
  | SJump | SLabel => ok
  | SRet None => req (ty_eqb (strip ret) TVoid) "return without a value in a function that returns one"
  | SRet (Some e) => both (wt e) (req (same (e_ty e) ret) "returned value has another type than the function")
  end.

Record func := { f_id : N; f_ret : ty; f_params : list (N * ty * option expr); f_body : list stmt }.

Definition wt_func (f : func) : err :=
  both ((fix all (l : list (N * ty * option expr)) : err :=
           match l with
           | [] => None
           | (_, t, Some d) :: r => both (wt d) (both (req (same (e_ty d) t) "default argument has another type than the parameter") (all r))
           | (_, _, None) :: r => all r
           end) (f_params f))
       ((fix blk (l : list stmt) : err := match l with [] => None | x :: r => both (wt_stmt (f_ret f) x) (blk r) end) (f_body f)).

(* ---------- bottom-up derivation that ignores the annotations of the modelled nodes (the IR's own rules) ---------- *)
Definition derive_node (k : kind) (t : ty) (lv : bool) (kids : list (ty * bool)) : option (ty * bool) :=
  match k, kids with
  | KLit, [] => Some (t, false)
  | KVar, [] => Some (t, true)
  | KEVal, [] => Some (t, false)
  | KTern, [_; (ta, _); _] => Some (ta, false)
  | KSeq, _ => match rev kids with last :: _ => Some last | [] => None end
  | KMSwz idx, [(tx, lx)] =>
      let n := N.of_nat (List.length idx) in
      match strip tx with
      | TMatrix _ _ s => Some (remod (unorient (bits tx)) (if n =? 1 then s else TVector n s), lx && nodupN idx)
      | _ => None
      end
  | KSwz idx, [(tx, lx)] =>
      let n := N.of_nat (List.length idx) in
      match strip tx with
      | TScalar k => Some (remod (bits tx) (if n =? 1 then TScalar k else TVector n (TScalar k)), lx && nodupN idx)
      | TVector _ s => Some (remod (bits tx) (if n =? 1 then s else TVector n s), lx && nodupN idx)
      | _ => None
      end
  | KOpq _, _ => Some (t, lv)
  | KSub, [(ta, _); _] =>
      match strip ta with
      | TArray _ el => Some (el, true)
      | TVector _ s => Some (remod (bits ta) s, true)
      | TMatrix _ c s => Some (remod (unorient (bits ta)) (TVector c s), true)
      | TObj1 _ _ | TObj0 _ => Some (t, true)
      | _ => None
      end
  | KSMem _ mt, [(_, lx)] => Some (mt, lx)
  | KCall _ _ _ _ ret, _ => Some (ret, false)
  | KCtor _, _ => Some (t, false)
  | KCast, [_] => Some (t, false)
  | KSizeOf, [] => Some (TScalar KUInt, false)
  | KOp name, [(ta, _)] =>
      if in_list name ["PrefixIncrement"; "PrefixDecrement"] then Some (ta, true)
      else if in_list name ["PostfixIncrement"; "PostfixDecrement"; "Plus"; "Minus"; "BitwiseNot"] then Some (strip ta, false)
      else if String.eqb name "LogicalNot" then match num ta with Some (_, s) => Some (with_kind KBool s, false) | None => None end
      else None
  | KOp name, [(ta, _); _] =>
      if in_list name arith_ops || in_list name int_ops || in_list name bool_ops then Some (ta, false)
      else if in_list name cmp_ops then
        match num ta with
        | Some (_, s) => Some (with_kind KBool s, false)
        | None => match strip ta with TEnum _ => Some (TScalar KBool, false) | _ => None end
        end
      else if String.eqb name "Assignment" || in_list name assign_arith || in_list name assign_int then Some (ta, true)
      else None
  | _, _ => None
  end.

Fixpoint derive (e : expr) : option (ty * bool) :=
  match e with
  | Node k t lv kids =>
      match (fix all (l : list expr) : option (list (ty * bool)) :=
               match l with
               | [] => Some []
               | x :: r => match derive x, all r with Some a, Some b => Some (a :: b) | _, _ => None end
               end) kids with
      | Some ks => derive_node k t lv ks
      | None => None
      end
  end.
