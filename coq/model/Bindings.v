(* Bindings.v — executable model of Module::assign_api_bindings
   (ir/src/ir_module.rs, fn assign_api_bindings / process_definition).
   No proofs in this file.  The object-kind type and the two tables the Rust
   code consults are Section variables; they are instantiated with the tables
   regenerated from the source (gen/GenBindings.v). *)
From Coq Require Import List NArith Bool.
Import ListNotations.
Local Open Scope N_scope.

Record params := mkParams {
  require_slot_type : bool;
  support_buffer_address : bool;
  metal_slot_layout : bool;
  static_samplers_have_slots : bool }.

Inductive loc := Index (i : N) | InlineConstant (off : N).

Record binding := mkBinding { b_set : N; b_loc : loc; b_slots : N }.
  (* b_slots: slot_count = array_count * slice_cost (not stored by the Rust code; the
     correspondence compares it with descriptor_count * cost) *)

Section Model.
Variable okind : Type.
Variable metal2 : okind -> bool.     (* arms of `slice_cost` that cost 2 under metal_slot_layout *)
Variable is_addr : okind -> bool.    (* TypeRegistry::is_buffer_address *)

(* what process_definition looks at *)
Inductive dkind :=
| KCBuffer                (* RootDefinition::ConstantBuffer *)
| KObj (o : okind)        (* global whose (array-stripped) type layer is an object *)
| KOther.                 (* any other global (is_object () = false), and all other root definitions *)

Record decl := mkDecl {
  d_kind : dkind;
  d_array : option N;      (* Some len for T x[len] *)
  d_set : option N;        (* lang_slot.set / lang_binding.set *)
  d_static_sampler : bool; (* static_sampler.is_some() *)
  d_extern : bool }.       (* storage_class == Extern *)

Definition slice_cost (p : params) (k : dkind) : N :=
  match k with
  | KObj o => if metal_slot_layout p && metal2 o then 2 else 1
  | _ => 1
  end.

Definition array_count (d : decl) : N := match d_array d with Some n => n | None => 1 end.
Definition slot_count (p : params) (d : decl) : N := array_count d * slice_cost p (d_kind d).

(* is_buffer_address(decl.type_id): looks at the declared type with its outer modifier
   removed, so an array of buffer addresses is not one *)
Definition decl_is_addr (d : decl) : bool :=
  match d_kind d, d_array d with
  | KObj o, None => is_addr o
  | _, _ => false
  end.

Definition upd (m : N -> N) (k v : N) : N -> N := fun x => if x =? k then v else m x.

Record state := mkState {
  used : N -> N;           (* used_slots, absent = 0 *)
  inl : N -> N;            (* inline_size, absent = 0 *)
  inl_keys : list N }.     (* groups that have an inline_size entry, first insertion first *)

Definition init_state : state := mkState (fun _ => 0) (fun _ => 0) [].

Definition mem_N (x : N) (l : list N) : bool := existsb (N.eqb x) l.

Definition takes_inline (p : params) (d : decl) : bool :=
  match d_kind d with
  | KObj _ => support_buffer_address p && decl_is_addr d
  | _ => false
  end.

Definition skipped_sampler (p : params) (d : decl) : bool :=
  match d_kind d with
  | KCBuffer => false
  | _ => d_static_sampler d && negb (static_samplers_have_slots p)
  end.

Definition step (p : params) (dflt : N) (st : state) (d : decl) : option binding * state :=
  let set := match d_set d with Some s => s | None => dflt end in
  match d_kind d with
  | KCBuffer =>
      let i := used st set in
      (Some (mkBinding set (Index i) 1),
       mkState (upd (used st) set (i + 1)) (inl st) (inl_keys st))
  | KOther => (None, st)
  | KObj _ =>
      if negb (d_extern d) then (None, st)           (* only globals provided from outside the shader are bound *)
      else if skipped_sampler p d then (None, st)
      else
        let n := slot_count p d in
        if takes_inline p d then
          let off := inl st set in
          (Some (mkBinding set (InlineConstant off) n),
           mkState (used st) (upd (inl st) set (off + 8 * n))
                   (if mem_N set (inl_keys st) then inl_keys st else inl_keys st ++ [set]))
        else
          let i := used st set in
          (Some (mkBinding set (Index i) n),
           mkState (upd (used st) set (i + n)) (inl st) (inl_keys st))
  end.

Fixpoint assign_from (p : params) (dflt : N) (st : state) (ds : list decl)
  : list (option binding) * state :=
  match ds with
  | [] => ([], st)
  | d :: r =>
      let (b, st1) := step p dflt st d in
      let (bs, st2) := assign_from p dflt st1 r in
      (b :: bs, st2)
  end.

(* inline constant buffers: (set, api_location, size_in_bytes), one per key, then sorted *)
Definition block := (N * N * N)%type.

Definition block_leb (a b : block) : bool :=
  let '(s1, l1, z1) := a in
  let '(s2, l2, z2) := b in
  if s1 <? s2 then true else if s2 <? s1 then false
  else if l1 <? l2 then true else if l2 <? l1 then false
  else z1 <=? z2.

Fixpoint insert_block (x : block) (l : list block) : list block :=
  match l with
  | [] => [x]
  | y :: r => if block_leb x y then x :: y :: r else y :: insert_block x r
  end.

Definition sort_blocks (l : list block) : list block := fold_right insert_block [] l.

Definition blocks_of (st : state) (keys : list N) : list block :=
  map (fun s => (s, used st s, inl st s)) keys.

Definition assign (p : params) (dflt : N) (ds : list decl) : list (option binding) * list block :=
  let (bs, st) := assign_from p dflt init_state ds in
  (bs, sort_blocks (blocks_of st (inl_keys st))).

(* assert_eq!(decl.storage_class, GlobalStorage::Extern) in the inline-constant arm *)
Definition panics (p : params) (ds : list decl) : bool :=
  existsb (fun d => d_extern d && negb (skipped_sampler p d) && takes_inline p d && negb (d_extern d)) ds.

End Model.

Arguments KCBuffer {okind}.
Arguments KObj {okind} o.
Arguments KOther {okind}.
Arguments mkDecl {okind}.
Arguments d_kind {okind}.
Arguments d_array {okind}.
Arguments d_set {okind}.
Arguments d_static_sampler {okind}.
Arguments d_extern {okind}.
