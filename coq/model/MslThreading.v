(* MslThreading.v — how the Metal exporter passes globals that Metal cannot express as globals
   (msl/src/generator.rs analyse_globals / append_arguments_for_globals), and the trampoline that gives reference
   parameters copy-in / copy-out behaviour (generate_function_out_trampoline_body).  No proofs in this file. *)
From Coq Require Import List NArith ZArith Bool.
From RV Require Import Perm.
Import ListNotations.

(* ---------- threading ---------- *)
Section Threading.
Variable s : state.               (* the usage fixpoint: for every function, every symbol it reaches *)
Variable threaded : key -> bool.  (* the symbols that are globals passed as parameters (anything but a static const) *)

(* function_required_globals: the reachable threaded globals, sorted *)
Definition required (f : key) : list key := isort N.leb (filter threaded (get s f)).

(* the emitted signature and the emitted call *)
Definition signature (params : list key) (f : key) : list key := params ++ required f.
Definition call_arguments (args : list key) (callee : key) : list key := args ++ required callee.
End Threading.

(* ---------- out / inout parameters ---------- *)
Definition store := N -> Z.
Definition upd (s : store) (x : N) (v : Z) : store := fun y => if N.eqb y x then v else s y.

(* a function body as far as its out / inout parameters are concerned: a sequence of writes of a parameter, each value
   computed from the current values of all parameters *)
Inductive instr := ISet (dst : nat) (f : list Z -> Z).

Fixpoint set_nth (n : nat) (v : Z) (l : list Z) : list Z :=
  match n, l with
  | O, _ :: r => v :: r
  | S k, x :: r => x :: set_nth k v r
  | _, [] => []
  end.

(* value semantics (HLSL): the parameters are locals of the callee *)
Definition run_instr (vals : list Z) (i : instr) : list Z := match i with ISet d f => set_nth d (f vals) vals end.
Definition run_body (b : list instr) (vals : list Z) : list Z := fold_left run_instr b vals.

(* reference semantics (Metal `thread T&`): the parameters are addresses *)
Definition run_instr_ref (addrs : list N) (s : store) (i : instr) : store :=
  match i with ISet d f => match nth_error addrs d with Some a => upd s a (f (map s addrs)) | None => s end end.
Definition run_body_ref (addrs : list N) (b : list instr) (s : store) : store := fold_left (run_instr_ref addrs) b s.

Fixpoint copy (s : store) (dst : list N) (vals : list Z) : store :=
  match dst, vals with
  | a :: r, v :: w => copy (upd s a v) r w
  | _, _ => s
  end.

(* HLSL call: copy in, run on the callee's own variables, copy out left to right *)
Definition hlsl_call (b : list instr) (args : list N) (s : store) : store := copy s args (run_body b (map s args)).

(* Metal: the trampoline copies the arguments into fresh locals, runs the tagged overload on references to them, and
   copies the locals back left to right *)
Definition metal_call (b : list instr) (locals args : list N) (s : store) : store :=
  let s1 := copy s locals (map s args) in
  let s2 := run_body_ref locals b s1 in
  copy s2 args (map s2 locals).

(* what the references would do without the trampoline *)
Definition metal_call_direct (b : list instr) (args : list N) (s : store) : store := run_body_ref args b s.
