(* NameGen.v — executable model of NameMap::build (ir/src/name_generator.rs).  No proofs in this file. *)
From Coq Require Import List NArith Bool String Ascii.
From RV Require Import Wire.
Import ListNotations.
Local Open Scope string_scope.

Definition sym := (N * N)%type.                   (* NameSymbol: (kind tag, id) *)
Record entry := mkEntry { e_name : string; e_syms : list sym }.   (* one key of a scope's name -> symbols map *)

Definition in_str (x : string) (l : list string) : bool := existsb (String.eqb x) l.

(* format!("{}_{}", name, counter) *)
Definition cand (name : string) (k : N) : string := name ++ "_" ++ show_N k.

(* the `loop { counter += 1 }` search: first candidate accepted by `free`; fuel bounds the number of probes *)
Fixpoint find_free (free : string -> bool) (name : string) (k : N) (fuel : nat) : option string :=
  match fuel with
  | O => None
  | S f => let c := cand name k in if free c then Some c else find_free free name (k + 1)%N f
  end.

(* insertion sort by name (sort_by String::cmp) *)
Fixpoint insert_entry (e : entry) (l : list entry) : list entry :=
  match l with
  | [] => [e]
  | x :: r => if String.leb (e_name e) (e_name x) then e :: l else x :: insert_entry e r
  end.
Definition sort_entries (l : list entry) : list entry := fold_right insert_entry [] l.

Section Scope.
Variable reserved : list string.

(* unique in the scope and not reserved: the name is kept *)
Definition is_kept (e : entry) : bool :=
  match e_syms e with [_] => negb (in_str (e_name e) reserved) | _ => false end.

Definition kept_names (es : list entry) : list string := map e_name (filter is_kept es).

(* symbols of one entry that need a generated name; threads the used set; None = out of fuel *)
Fixpoint gen_syms (name : string) (syms : list sym) (used : list string) (out : list (sym * string))
  : option (list string * list (sym * string)) :=
  match syms with
  | [] => Some (used, out)
  | s :: r =>
      match find_free (fun c => negb (in_str c used)) name 0%N (S (List.length used)) with
      | None => None
      | Some c => gen_syms name r (c :: used) ((s, c) :: out)
      end
  end.

Fixpoint gen_entries (es : list entry) (used : list string) (out : list (sym * string))
  : option (list string * list (sym * string)) :=
  match es with
  | [] => Some (used, out)
  | e :: r =>
      if is_kept e then gen_entries r used out
      else match gen_syms (e_name e) (e_syms e) used out with
           | None => None
           | Some (used', out') => gen_entries r used' out'
           end
  end.

Definition kept_assignments (es : list entry) : list (sym * string) :=
  flat_map (fun e => if is_kept e then map (fun s => (s, e_name e)) (e_syms e) else []) es.

(* one scope: (kept assignments, generated assignments); generated names also go to used_names_all_scopes *)
Definition assign_scope (es : list entry) : option (list (sym * string) * list (sym * string)) :=
  match gen_entries (sort_entries es) (kept_names es ++ reserved)%list [] with
  | None => None
  | Some (_, gen) => Some (kept_assignments es, rev gen)
  end.

(* local variables: (variable id, source name) in id order *)
Fixpoint assign_locals (locals : list (N * string)) (all_local_names used_all : list string) (out : list (N * string))
  : option (list (N * string)) :=
  match locals with
  | [] => Some (rev out)
  | (id, name) :: r =>
      if in_str name used_all then
        match find_free (fun c => negb (in_str c all_local_names) && negb (in_str c used_all)) name 0%N
                        (S (List.length all_local_names + List.length used_all)) with
        | None => None
        | Some c => assign_locals r all_local_names (c :: used_all) ((id, c) :: out)
        end
      else assign_locals r all_local_names used_all ((id, name) :: out)
  end.

(* the whole build: scopes in any order; used_names_all_scopes = reserved + every generated global name *)
Fixpoint assign_scopes (scopes : list (list entry)) : option (list (sym * string) * list string) :=
  match scopes with
  | [] => Some ([], [])
  | es :: r =>
      match assign_scope es, assign_scopes r with
      | Some (k, g), Some (rest, gens) => Some ((k ++ g ++ rest)%list, (map snd g ++ gens)%list)
      | _, _ => None
      end
  end.

(* the names given to global variables (symbol kind 3) *)
Definition gvar_names (globals : list (sym * string)) : list string :=
  map snd (filter (fun p : sym * string => N.eqb (fst (fst p)) 3) globals).

Definition build (scopes : list (list entry)) (locals : list (N * string))
  : option (list (sym * string) * list (N * string)) :=
  match assign_scopes scopes with
  | None => None
  | Some (globals, gens) =>
      (* a global variable can become a function parameter (Metal): a local never shares the name of one *)
      match assign_locals locals (map snd locals) (gvar_names globals ++ gens ++ reserved)%list [] with
      | None => None
      | Some ls => Some (globals, ls)
      end
  end.
End Scope.
