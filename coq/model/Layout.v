(* Layout.v — executable model of ir/src/layout_checker.rs (get_type_layout,
   get_field_offsets and the per-type part of check_layout) and the reference layout
   rules the property is stated against.  No proofs in this file. *)
From Coq Require Import List NArith Bool.
Import ListNotations.
Local Open Scope N_scope.

Inductive mode := Hlsl | Metal.   (* PackingMode::HlslStructuredBuffer | PackingMode::Metal *)

Section Model.
Variable scalar : Type.
Variable ssize : scalar -> option N.    (* ScalarType::get_size *)
Variable sbool : scalar -> bool.        (* the `Scalar(ScalarType::Bool) => None` arm *)
Variable amin : N.                      (* get_field_offsets: `if count > amin` *)

Inductive ty :=
| TScalar (s : scalar)
| TVec (s : scalar) (n : N)
| TStruct (ms : tys)
| TArr (t : ty) (n : N)           (* Array(ty, Some(n)) *)
| TEnum (s : scalar)              (* enum with this underlying scalar *)
| TOpaque                         (* void, matrix, object, unsized array: no layout *)
with tys := TNil | TCons (t : ty) (r : tys).

Definition round_up (x a : N) : N := ((x + a - 1) / a) * a.      (* u32::next_multiple_of, a > 0 *)
Definition pow2ceil (n : N) : N := if n <=? 1 then 1 else 2 ^ N.log2_up n.   (* u32::next_power_of_two *)

Definition scalar_layout (s : scalar) : option (N * N) :=
  if sbool s then None else
  match ssize s with Some z => Some (z, z) | None => None end.

(* ---------- the implementation: get_type_layout ---------- *)
Fixpoint layout (m : mode) (t : ty) : option (N * N) :=    (* (size, align) *)
  match t with
  | TScalar s => scalar_layout s
  | TEnum s => scalar_layout s
  | TVec s n =>
      match scalar_layout s with
      | None => None
      | Some (z, a) =>
          match m with
          | Hlsl => Some (z * n, a)
          | Metal => let x := pow2ceil n in Some (z * x, z * x)
          end
      end
  | TStruct ms =>
      match layout_members m ms 0 1 with
      | None => None
      | Some (z, a) => Some (round_up z a, a)
      end
  | TArr t n =>
      match layout m t with
      | None => None
      | Some (z, a) => Some (z * n, a)
      end
  | TOpaque => None
  end
with layout_members (m : mode) (ms : tys) (size align : N) : option (N * N) :=
  match ms with
  | TNil => Some (size, align)
  | TCons t r =>
      match layout m t with
      | None => None
      | Some (z, a) => layout_members m r (round_up size a + z) (N.max align a)
      end
  end.

(* ---------- the implementation: get_field_offsets ---------- *)
Fixpoint offsets (m : mode) (t : ty) (base : N) : list N :=
  match t with
  | TStruct ms => offsets_members m ms base 0
  | TArr t n =>
      match layout m t with
      | None => []
      | Some (z, _) => offsets m t base ++ (if amin <? n then [base + z] else [])
      end
  | _ => []
  end
with offsets_members (m : mode) (ms : tys) (base size : N) : list N :=
  match ms with
  | TNil => []
  | TCons t r =>
      match layout m t with
      | None => []
      | Some (z, a) =>
          let o := round_up size a in
          (base + o) :: offsets m t (base + o) ++ offsets_members m r base (o + z)
      end
  end.

Inductive verdict :=
| Accept
| Unknown
| Mismatch (hs ha ms ma : N)       (* size/align HLSL, size/align Metal, sizes already rounded *)
| OffsetMismatch (ho mo : N).

Fixpoint first_diff (a b : list N) : option (N * N) :=
  match a, b with
  | x :: a', y :: b' => if x =? y then first_diff a' b' else Some (x, y)
  | _, _ => None
  end.

(* the body of `for (ty, loc) in types_to_check` *)
Definition check (t : ty) : verdict :=
  match layout Hlsl t, layout Metal t with
  | Some (hz, ha), Some (mz, ma) =>
      let hz' := round_up hz ha in
      let mz' := round_up mz ma in
      if negb (hz' =? mz') then Mismatch hz' ha mz' ma
      else match first_diff (offsets Hlsl t 0) (offsets Metal t 0) with
           | Some (x, y) => OffsetMismatch x y
           | None => Accept
           end
  | _, _ => Unknown
  end.

(* ---------- the reference rules (trusted statement of "the layout") ----------
   HLSL structured-buffer packing: a scalar is aligned to its own size; a vector of n
   occupies n scalars and is aligned like its scalar.  Metal: a vector of n occupies and is
   aligned to pow2ceil(n) scalars.  Both: a struct places each member at the next multiple
   of the member's alignment, its alignment is the largest member alignment and its size is
   rounded up to it; an array of n places element i at i times the element size.
   spec_fields lists the byte offset of every scalar/vector/enum leaf, arrays fully
   expanded, in declaration order. *)
Fixpoint spec_sa (m : mode) (t : ty) : option (N * N) :=
  match t with
  | TScalar s | TEnum s => scalar_layout s
  | TVec s n =>
      match scalar_layout s with
      | None => None
      | Some (z, a) => match m with
                       | Hlsl => Some (n * z, a)
                       | Metal => Some (pow2ceil n * z, pow2ceil n * z)
                       end
      end
  | TStruct ms =>
      match spec_members_sa m ms 0 1 with
      | None => None
      | Some (z, a) => Some (round_up z a, a)
      end
  | TArr t n => match spec_sa m t with None => None | Some (z, a) => Some (n * z, a) end
  | TOpaque => None
  end
with spec_members_sa (m : mode) (ms : tys) (cursor align : N) : option (N * N) :=
  match ms with
  | TNil => Some (cursor, align)
  | TCons t r =>
      match spec_sa m t with
      | None => None
      | Some (z, a) => spec_members_sa m r (round_up cursor a + z) (N.max align a)
      end
  end.

Definition stride (m : mode) (t : ty) : N := match spec_sa m t with Some (z, _) => z | None => 0 end.

Fixpoint spec_fields (m : mode) (t : ty) (base : N) : list N :=
  match t with
  | TScalar _ | TVec _ _ | TEnum _ | TOpaque => [base]
  | TStruct ms => spec_member_fields m ms base 0
  | TArr t n =>
      flat_map (fun i => spec_fields m t (base + N.of_nat i * stride m t)) (seq 0 (N.to_nat n))
  end
with spec_member_fields (m : mode) (ms : tys) (base cursor : N) : list N :=
  match ms with
  | TNil => []
  | TCons t r =>
      match spec_sa m t with
      | None => []
      | Some (z, a) =>
          let o := round_up cursor a in
          spec_fields m t (base + o) ++ spec_member_fields m r base (o + z)
      end
  end.

(* total size as a buffer stride *)
Definition spec_total (m : mode) (t : ty) : option N :=
  match spec_sa m t with Some (z, a) => Some (round_up z a) | None => None end.

(* ---------- 32-bit sizes: the implementation computes in u32 with checked operations and answers "unknown size" when a
   struct's running size, its rounded size or an array's size (or an array's length) does not fit ---------- *)
Definition two32 : N := 4294967296.

Fixpoint fits (m : mode) (t : ty) : bool :=
  match t with
  | TStruct ms =>
      fits_members m ms 0 1 &&
      match layout_members m ms 0 1 with Some (z, a) => round_up z a <? two32 | None => true end
  | TArr t n =>
      fits m t && (n <? two32) && match layout m t with Some (z, _) => z * n <? two32 | None => true end
  | _ => true
  end
with fits_members (m : mode) (ms : tys) (size align : N) : bool :=
  match ms with
  | TNil => true
  | TCons t r =>
      fits m t &&
      match layout m t with
      | Some (z, a) =>
          (round_up size a <? two32) && (round_up size a + z <? two32) && fits_members m r (round_up size a + z) (N.max align a)
      | None => true
      end
  end.

Definition check32 (t : ty) : verdict := if fits Hlsl t && fits Metal t then check t else Unknown.

End Model.

Arguments TScalar {scalar}.
Arguments TVec {scalar}.
Arguments TStruct {scalar}.
Arguments TArr {scalar}.
Arguments TEnum {scalar}.
Arguments TOpaque {scalar}.
Arguments TNil {scalar}.
Arguments TCons {scalar}.
