(* Evaluator.v — executable model of evaluate_constexpr / evaluate_operator / evaluate_cast
   (typer/src/evaluator.rs), driven by the arm tables regenerated from the source, and the
   reference evaluator with HLSL semantics.  No proofs in this file. *)
From Coq Require Import List ZArith NArith Bool String.
From Flocq Require Import Core IEEE754.BinarySingleNaN.
From RV Require Import EvalSem.
Import ListNotations.
Local Open Scope Z_scope.

Inductive cty :=
| TS (s : string)                 (* ScalarType name *)
| TE (id : N) (underlying : string)
| TOther.

Inductive expr :=
| ELit (c : const)
| ECast (t : cty) (e : expr)
| EUn (op : string) (e : expr)
| EBin (op : string) (l r : expr)
| ESizeOf (size : option Z)
| ENotConst.                        (* anything evaluate_constexpr answers Err(()) for *)

Definition zres_to (k : ckind) (r : zres) : res :=
  match r with ZOk z => ROk (VInt k z) | ZNotConst => RNotConst | ZPanic => RPanic end.

Definition is_int_kind (k : ckind) : bool :=
  match k with KIntLiteral | KInt32 | KUInt32 | KInt64 | KUInt64 => true | _ => false end.

(* the operator semantics both evaluators are parametrised by *)
Record opsem := mkOpsem {
  sem_un : string -> const -> res;
  sem_bin : string -> const -> const -> res;
  sem_cast : string -> const -> res;          (* target scalar name, source with enum wrapper already removed *)
  drops_enum : string -> bool }.

Section Eval.
Variable S : opsem.

Definition unwrap (c : const) : const := match c with VEnum _ u => u | _ => c end.

Fixpoint eval_cast (t : cty) (v : const) : res :=
  match t with
  | TS s => sem_cast S s (unwrap v)
  | TE id u => match sem_cast S u (unwrap v) with ROk r => ROk (VEnum id r) | e => e end
  | TOther => RNotConst
  end.

Definition rewrap (op : string) (w : option N) (r : res) : res :=
  match r, w with
  | ROk c, Some id => if drops_enum S op then ROk c else ROk (VEnum id c)
  | _, _ => r
  end.

Fixpoint eval (e : expr) : res :=
  match e with
  | ELit c => ROk c
  | ECast t e => match eval e with ROk v => eval_cast t v | r => r end
  | ESizeOf (Some z) => ROk (VInt KUInt32 z)
  | ESizeOf None => RNotConst
  | ENotConst => RNotConst
  | EUn op e =>
      match eval e with
      | ROk (VEnum id u) => rewrap op (Some id) (sem_un S op u)
      | ROk v => sem_un S op v
      | r => r
      end
  | EBin op l r =>
      match eval l with
      | ROk a =>
          match eval r with
          | ROk b =>
              (* the enum_wrap bookkeeping with its two asserts *)
              match a, b with
              | VEnum i x, VEnum j y => if N.eqb i j then rewrap op (Some i) (sem_bin S op x y) else RPanic
              | VEnum _ _, _ => RPanic                       (* assert!(enum_wrap.is_none()) *)
              | x, VEnum j y => rewrap op (Some j) (sem_bin S op x y)
              | x, y => sem_bin S op x y
              end
          | r' => r'
          end
      | r' => r'
      end
  end.
End Eval.

(* ================= the implementation: table driven ================= *)
Section Impl.
Variable unary_table : list (string * option ckind * usem).
Variable binary_table : list (string * option ckind * option ckind * bsem).
Variable special_table : list (string * ssem).
Variable enum_drop : list string.
Variable cast_table : list (string * option ckind * csem).
Variable debug : bool.

Definition kmatch (p : option ckind) (k : ckind) : bool := match p with None => true | Some q => ckind_eqb q k end.

Definition find_un (op : string) (k : ckind) : option usem :=
  option_map snd (find (fun '(o, p, _) => String.eqb o op && kmatch p k) unary_table).
Definition find_bin (op : string) (k1 k2 : ckind) : option bsem :=
  option_map snd (find (fun '(o, p1, p2, _) => String.eqb o op && kmatch p1 k1 && kmatch p2 k2) binary_table).
Definition find_cast (t : string) (k : ckind) : option csem :=
  option_map snd (find (fun '(o, p, _) => String.eqb o t && kmatch p k) cast_table).
Definition find_special (op : string) : option ssem :=
  option_map snd (find (fun '(o, _) => String.eqb o op) special_table).

Definition apply_un (s : usem) (c : const) : res :=
  match s, c with
  | UStep k f o, VInt k' z => zres_to k (rust_arith debug k f o false z 1)
  | UNeg k f, VInt _ z => zres_to k (rust_neg debug k f z)
  | UNeg k _, VF64 _ x => ROk (VF64 k (BinarySingleNaN.Bopp x))
  | UNeg k _, VF32 _ x => ROk (VF32 k (BinarySingleNaN.Bopp x))
  | UNot _, VBool b => ROk (VBool (negb b))
  | UNot k, VInt _ z => ROk (VInt k (wrap k (Z.lnot z)))
  | UClone, _ => ROk c
  | UNotConst, _ => RNotConst
  | UPanic, _ => RPanic
  | _, _ => RPanic                      (* a pattern that binds a payload of another shape cannot match *)
  end.

Definition apply_bin (s : bsem) (a b : const) : res :=
  match s, a, b with
  | BArith k f o zc, VInt _ x, VInt _ y => zres_to k (rust_arith debug k f o zc x y)
  | BCmp c, VBool x, VBool y => ROk (VBool (bcmp c x y))
  | BCmp c, VInt _ x, VInt _ y => ROk (VBool (zcmp c x y))
  | BCmp c, VF64 _ x, VF64 _ y => ROk (VBool (fcmp c x y))
  | BCmp c, VF32 _ x, VF32 _ y => ROk (VBool (fcmp c x y))
  | BBoolAnd, VBool x, VBool y => ROk (VBool (x && y))
  | BBoolOr, VBool x, VBool y => ROk (VBool (x || y))
  | BNotConst, _, _ => RNotConst
  | _, _, _ => RPanic
  end.

Definition apply_cast (s : csem) (c : const) : res :=
  match s, c with
  | CKeep k, VBool b => ROk (VBool b)
  | CKeep k, VInt _ z => ROk (VInt k z)
  | CKeep k, VF64 _ x => ROk (VF64 k x)
  | CKeep k, VF32 _ x => ROk (VF32 k x)
  | CAs k (Ri32 | Ru32), VBool b => ROk (VInt k (Z.b2z b))
  | CAs k (Ri32 | Ru32), VInt _ z => ROk (VInt k (wrap k z))
  | CAs k (Ri32 | Ru32), VF64 _ x => ROk (VInt k (trunc_sat k x))
  | CAs k (Ri32 | Ru32), VF32 _ x => ROk (VInt k (trunc_sat k x))
  | CAs k Rf32, VInt _ z => ROk (VF32 k (f32_of_Z z))
  | CAs k Rf32, VF64 _ x => ROk (VF32 k (f32_of_f64 x))
  | CAs k Rf32, VF32 _ x => ROk (VF32 k x)
  | CAs k Rf64, VInt _ z => ROk (VF64 k (f64_of_Z z))
  | CAs k Rf64, VF32 _ x => ROk (VF64 k (f64_of_f32 x))
  | CAs k Rf64, VF64 _ x => ROk (VF64 k x)
  | CNonZero, VInt _ z => ROk (VBool (negb (z =? 0)))
  | CFNonZero, VF64 _ x => ROk (VBool (fis_nonzero x))
  | CFNonZero, VF32 _ x => ROk (VBool (fis_nonzero x))
  | CBoolToFloat k, VBool b =>
      match k with
      | KFloat64 | KFloatLiteral => ROk (VF64 k (f64_of_Z (Z.b2z b)))
      | _ => ROk (VF32 k (f32_of_Z (Z.b2z b)))
      end
  | CNotConst, _ => RNotConst
  | _, _ => RPanic
  end.

Definition impl_sem : opsem :=
  mkOpsem
    (fun op c => match find_un op (kind_of c) with Some s => apply_un s c | None => RNotConst end)
    (fun op a b =>
       match find_special op with
       | Some SEq => ROk (VBool (const_eqb a b))
       | Some SNe => ROk (VBool (negb (const_eqb a b)))
       | None => match find_bin op (kind_of a) (kind_of b) with Some s => apply_bin s a b | None => RNotConst end
       end)
    (fun t c => match find_cast t (kind_of c) with Some s => apply_cast s c | None => RNotConst end)
    (fun op => existsb (String.eqb op) enum_drop).

Definition impl_eval : expr -> res := eval impl_sem.
End Impl.

(* ================= the reference: HLSL semantics =================
   The reference first classifies an operator application by the operand kinds (a tag), then gives the tag
   its meaning.  Everything an HLSL front end would fold for bool / int / uint / untyped literals / floats is
   listed; anything else is "not a constant". *)
Local Open Scope string_scope.

Definition typed_int (k : ckind) : bool := match k with KInt32 | KUInt32 => true | _ => false end.
Definition arith_int (k : ckind) : bool := match k with KIntLiteral | KInt32 | KUInt32 => true | _ => false end.
Definition is_f64_kind (k : ckind) : bool := match k with KFloatLiteral | KFloat64 => true | _ => false end.
Definition is_f32_kind (k : ckind) : bool := match k with KFloat16 | KFloat32 => true | _ => false end.
Definition cmp_kind (k : ckind) : bool :=
  match k with KString | KEnum => false | _ => true end.

Definition op_arith (op : string) : option arith :=
  if String.eqb op "Add" then Some OAdd else if String.eqb op "Subtract" then Some OSub
  else if String.eqb op "Multiply" then Some OMul else if String.eqb op "Divide" then Some ODiv
  else if String.eqb op "Modulus" then Some ORem else if String.eqb op "LeftShift" then Some OShl
  else if String.eqb op "RightShift" then Some OShr else if String.eqb op "BitwiseAnd" then Some OAnd
  else if String.eqb op "BitwiseOr" then Some OOr else if String.eqb op "BitwiseXor" then Some OXor
  else None.

Definition op_cmp (op : string) : option cmp :=
  if String.eqb op "LessThan" then Some CLt else if String.eqb op "LessEqual" then Some CLe
  else if String.eqb op "GreaterThan" then Some CGt else if String.eqb op "GreaterEqual" then Some CGe
  else None.

Inductive btag := TArith (k : ckind) (o : arith) | TCmp (c : cmp) | TBoolAnd | TBoolOr | TEq | TNe | TBNone.
Inductive utag := TStep (k : ckind) (o : arith) | TNeg (k : ckind) | TFNeg (k : ckind) | TLNot | TBNot (k : ckind)
                | TPlus | TUNone | TUPanic.
Inductive ctag := TToBool | TToInt (k : ckind) | TToF32 (k : ckind) | TToF64 (k : ckind) | TCNone.

Definition ref_bin_tag (op : string) (k1 k2 : ckind) : btag :=
  if String.eqb op "Equality" then TEq else if String.eqb op "Inequality" then TNe
  else if String.eqb op "BooleanAnd" then (if ckind_eqb k1 KBool && ckind_eqb k2 KBool then TBoolAnd else TBNone)
  else if String.eqb op "BooleanOr" then (if ckind_eqb k1 KBool && ckind_eqb k2 KBool then TBoolOr else TBNone)
  else match op_arith op, op_cmp op with
       | Some o, _ => if ckind_eqb k1 k2 && arith_int k1 then TArith k1 o else TBNone
       | None, Some c => if ckind_eqb k1 k2 && cmp_kind k1 then TCmp c else TBNone
       | None, None => TBNone
       end.

Definition interp_bin (t : btag) (a b : const) : res :=
  match t, a, b with
  | TArith k o, VInt _ x, VInt _ y => zres_to k (ref_arith k o x y)
  | TCmp c, VBool x, VBool y => ROk (VBool (bcmp c x y))
  | TCmp c, VInt _ x, VInt _ y => ROk (VBool (zcmp c x y))
  | TCmp c, VF64 _ x, VF64 _ y => ROk (VBool (fcmp c x y))
  | TCmp c, VF32 _ x, VF32 _ y => ROk (VBool (fcmp c x y))
  | TBoolAnd, VBool x, VBool y => ROk (VBool (x && y))
  | TBoolOr, VBool x, VBool y => ROk (VBool (x || y))
  | TEq, _, _ => ROk (VBool (const_eqb a b))
  | TNe, _, _ => ROk (VBool (negb (const_eqb a b)))
  | _, _, _ => RNotConst
  end.

Definition ref_bin (op : string) (a b : const) : res := interp_bin (ref_bin_tag op (kind_of a) (kind_of b)) a b.

Definition ref_un_tag (op : string) (k : ckind) : utag :=
  if String.eqb op "Plus" then TPlus
  else if String.eqb op "Minus" then
    (if ckind_eqb k KInt32 || ckind_eqb k KIntLiteral then TNeg k
     else if is_f64_kind k || is_f32_kind k then TFNeg k else TUNone)
  else if String.eqb op "LogicalNot" then (if ckind_eqb k KBool then TLNot else TUNone)
  else if String.eqb op "BitwiseNot" then (if arith_int k then TBNot k else TUPanic)
  else if String.eqb op "PrefixIncrement" || String.eqb op "PostfixIncrement" then (if typed_int k then TStep k OAdd else TUNone)
  else if String.eqb op "PrefixDecrement" || String.eqb op "PostfixDecrement" then (if typed_int k then TStep k OSub else TUNone)
  else TUNone.

Definition interp_un (t : utag) (c : const) : res :=
  match t, c with
  | TPlus, _ => ROk c
  | TStep k o, VInt _ z => ROk (VInt k (wrap k (match o with OAdd => z + 1 | _ => z - 1 end)))
  | TNeg k, VInt _ z => zres_to k (ref_neg k z)
  | TFNeg k, VF64 _ x => ROk (VF64 k (BinarySingleNaN.Bopp x))
  | TFNeg k, VF32 _ x => ROk (VF32 k (BinarySingleNaN.Bopp x))
  | TLNot, VBool b => ROk (VBool (negb b))
  | TBNot k, VInt _ z => ROk (VInt k (wrap k (Z.lnot z)))
  | TUPanic, _ => RPanic          (* `~` applied to a non-integer constant: the evaluator's panic!() arm *)
  | _, _ => RNotConst
  end.

Definition ref_un (op : string) (c : const) : res := interp_un (ref_un_tag op (kind_of c)) c.

(* conversions: to bool = "is non-zero"; to int/uint from integers = two's complement truncation, from floats =
   truncation toward zero saturating at the range ends with NaN -> 0; to float types = round to nearest even;
   half carries single precision.  64-bit integer constants, strings and (unwrapped) enums are not convertible. *)
Definition convertible (k : ckind) : bool :=
  match k with KInt64 | KUInt64 | KString | KEnum => false | _ => true end.

Definition ref_cast_tag (t : string) (k : ckind) : ctag :=
  if negb (convertible k) then TCNone
  else if String.eqb t "Bool" then TToBool
  else if String.eqb t "Int32" then TToInt KInt32
  else if String.eqb t "UInt32" then TToInt KUInt32
  else if String.eqb t "Float16" then TToF32 KFloat16
  else if String.eqb t "Float32" then TToF32 KFloat32
  else if String.eqb t "Float64" then TToF64 KFloat64
  else TCNone.

Definition interp_cast (t : ctag) (c : const) : res :=
  match t, c with
  | TToBool, VBool b => ROk (VBool b)
  | TToBool, VInt _ z => ROk (VBool (negb (Z.eqb z 0)))
  | TToBool, VF64 _ x => ROk (VBool (fis_nonzero x))
  | TToBool, VF32 _ x => ROk (VBool (fis_nonzero x))
  | TToInt k, VBool b => ROk (VInt k (Z.b2z b))
  | TToInt k, VInt k' z => ROk (VInt k (if ckind_eqb k k' then z else wrap k z))   (* own type: identity *)
  | TToInt k, VF64 _ x => ROk (VInt k (trunc_sat k x))
  | TToInt k, VF32 _ x => ROk (VInt k (trunc_sat k x))
  | TToF32 k, VBool b => ROk (VF32 k (f32_of_Z (Z.b2z b)))
  | TToF32 k, VInt _ z => ROk (VF32 k (f32_of_Z z))
  | TToF32 k, VF64 _ x => ROk (VF32 k (f32_of_f64 x))
  | TToF32 k, VF32 _ x => ROk (VF32 k x)
  | TToF64 k, VBool b => ROk (VF64 k (f64_of_Z (Z.b2z b)))
  | TToF64 k, VInt _ z => ROk (VF64 k (f64_of_Z z))
  | TToF64 k, VF64 _ x => ROk (VF64 k x)
  | TToF64 k, VF32 _ x => ROk (VF64 k (f64_of_f32 x))
  | _, _ => RNotConst
  end.

Definition ref_cast (t : string) (c : const) : res := interp_cast (ref_cast_tag t (kind_of c)) c.

Definition ref_sem : opsem :=
  mkOpsem ref_un ref_bin ref_cast
    (fun op => match op_cmp op with Some _ => true | None => String.eqb op "Equality" || String.eqb op "Inequality" end).

Definition ref_eval : expr -> res := eval ref_sem.

(* the operators the IR can contain (ir::IntrinsicOp) and the cast targets evaluate_cast distinguishes *)
Definition known_ops : list string :=
  ["PrefixIncrement"; "PrefixDecrement"; "PostfixIncrement"; "PostfixDecrement"; "Plus"; "Minus"; "LogicalNot";
   "BitwiseNot"; "Add"; "Subtract"; "Multiply"; "Divide"; "Modulus"; "LeftShift"; "RightShift"; "BitwiseAnd";
   "BitwiseOr"; "BitwiseXor"; "BooleanAnd"; "BooleanOr"; "LessThan"; "LessEqual"; "GreaterThan"; "GreaterEqual";
   "Equality"; "Inequality"; "Assignment"; "SumAssignment"; "DifferenceAssignment"; "ProductAssignment";
   "QuotientAssignment"; "RemainderAssignment"; "LeftShiftAssignment"; "RightShiftAssignment";
   "BitwiseAndAssignment"; "BitwiseOrAssignment"; "BitwiseXorAssignment"; "MakeSigned"; "MakeSignedPushZero";
   "MeshOutputSetVertex"; "MeshOutputSetPrimitive"; "MeshOutputSetIndices"].
Definition known_scalars : list string :=
  ["Bool"; "IntLiteral"; "Int32"; "UInt32"; "FloatLiteral"; "Float16"; "Float32"; "Float64"].
Definition all_kinds : list ckind :=
  [KBool; KIntLiteral; KInt32; KUInt32; KInt64; KUInt64; KFloatLiteral; KFloat16; KFloat32; KFloat64; KString; KEnum].
