(* CondIncl.v — conditional compilation together with #include and #pragma: the gating of every
   directive in preprocess_command (preprocess/src/preprocess.rs) on ConditionChain::is_active, the
   condition chain shared between a file and the files it includes, FileLoader::load's once-set and
   the include depth limit.  Extends Cond.v.  No proofs in this file. *)
From Coq Require Import List NArith Bool String.
From RV Require Import Cond.
Import ListNotations.

Inductive xline :=
| XL (l : line)                 (* a line of Cond.v *)
| XInclude (f : string)         (* #include "f" *)
| XPragmaOnce                   (* #pragma once *)
| XPragmaWarning                (* #pragma warning ... : accepted and ignored *)
| XPragmaOther                  (* any other #pragma: UnknownPragma where the group is selected *)
| XUnknown.                     (* any other directive name: UnknownCommand where the group is selected *)

Inductive xerr :=
| XE (e : perr)
| XFailedToFindFile | XIncludeDepthExceeded | XUnknownPragma | XUnknownCommand.

Record xstate := mkX { x_p : pstate; x_once : list string }.

Section XRun.
Variable switch : cstate -> bool -> cstate.
Variable evalc : env -> list ctok -> bool + cerr.
Variable files : string -> option (list xline).       (* the include handler *)

Definition marked (st : xstate) (f : string) : bool := existsb (String.eqb f) (x_once st).

(* preprocess_included_file over the lines of one file; `d` = MAX_INCLUDE_DEPTH - include_depth *)
Fixpoint xrun (d : nat) (self : string) (ls : list xline) (st : xstate) {struct d} : xstate + xerr :=
  (fix go (ls : list xline) (st : xstate) {struct ls} : xstate + xerr :=
     match ls with
     | [] => inl st
     | l :: r =>
         let skip := negb (is_active (p_stack (x_p st))) in
         match l with
         | XL l0 =>
             match step switch evalc (x_p st) l0 with
             | inl p => go r (mkX p (x_once st))
             | inr e => inr (XE e)
             end
         | XInclude f =>
             if skip then go r st
             else match files f with
                  | None => inr XFailedToFindFile
                  | Some body =>
                      match d with
                      | O => inr XIncludeDepthExceeded
                      | S d' =>
                          (* FileLoader::load hands out empty contents for a file marked #pragma once *)
                          match xrun d' f (if marked st f then [] else body) st with
                          | inl st' => go r st'
                          | inr e => inr e
                          end
                      end
                  end
         | XPragmaOnce => if skip then go r st else go r (mkX (x_p st) (self :: x_once st))
         | XPragmaWarning => go r st
         | XPragmaOther => if skip then go r st else inr XUnknownPragma
         | XUnknown => if skip then go r st else inr XUnknownCommand
         end
     end) ls st.

(* preprocess_initial_file: the entry file at depth 0, then the chain must be empty *)
Definition xrun_file (depth : nat) (entry : string) (e0 : env) : (env * list otok) + xerr :=
  match files entry with
  | None => inr XFailedToFindFile
  | Some ls =>
      match xrun depth entry ls (mkX (mkP [] e0 []) []) with
      | inr e => inr e
      | inl st =>
          match p_stack (x_p st) with
          | [] => inl (p_env (x_p st), p_out (x_p st))
          | _ => inr (XE ConditionChainNotFinished)
          end
      end
  end.
End XRun.

(* the lines of a group: conditionals inside it are closed inside it, and no #elif/#else/#endif of the
   enclosing conditional appears (k = the number of conditionals opened and not yet closed) *)
Fixpoint xgroup (k : nat) (ls : list xline) : bool :=
  match ls with
  | [] => match k with O => true | _ => false end
  | XL (LIf _) :: r | XL (LIfdef _) :: r | XL (LIfndef _) :: r => xgroup (S k) r
  | XL (LElif _) :: r | XL LElse :: r => match k with O => false | _ => xgroup k r end
  | XL LEndif :: r => match k with O => false | S k' => xgroup k' r end
  | _ :: r => xgroup k r
  end.

Definition no_once (ls : list xline) : bool :=
  forallb (fun l => match l with XPragmaOnce => false | _ => true end) ls.
