(* Loc.v — executable model of SourceManager (text/src/location.rs): files own consecutive ranges of source
   locations (length + 1 slots each) and a location is decoded to file name, line and column by counting the
   line feeds before it.  No proofs in this file. *)
From Coq Require Import List NArith Bool String.
Import ListNotations.
Local Open Scope N_scope.

Record sfile := { f_name : string; f_bytes : list N }.

Definition nl : N := 10.

(* the loop of get_file_location over contents[..offset], started at (line, column) *)
Fixpoint advance (bytes : list N) (n : nat) (line col : N) : N * N :=
  match n, bytes with
  | O, _ => (line, col)
  | S n', c :: r => if c =? nl then advance r n' (line + 1) 1 else advance r n' line (col + 1)
  | S _, [] => (line, col)          (* offset beyond the contents: only the end-of-file slot, never read *)
  end.

Definition line_col (bytes : list N) (offset : nat) : N * N := advance bytes offset 1 1.

Definition slots (f : sfile) : N := N.of_nat (List.length (f_bytes f)) + 1.

(* get_file_location *)
Fixpoint locate (fs : list sfile) (current : N) (loc : N) : option (string * N * N) :=
  match fs with
  | [] => None
  | f :: r =>
      let next := current + slots f in
      if loc <? next then
        let '(l, c) := line_col (f_bytes f) (N.to_nat (loc - current)) in Some (f_name f, l, c)
      else locate r next loc
  end.

(* add_file: the base location of the i-th file *)
Fixpoint base_of (fs : list sfile) (i : nat) : N :=
  match i, fs with
  | O, _ => 0
  | S j, f :: r => slots f + base_of r j
  | S _, [] => 0
  end.

Definition total (fs : list sfile) : N := fold_right (fun f n => slots f + n) 0 fs.

(* get_source_location_from_file_offset *)
Definition location_of (fs : list sfile) (i : nat) (offset : nat) : N := base_of fs i + N.of_nat offset.

Definition count_nl (bytes : list N) : N := N.of_nat (List.length (filter (fun c => c =? nl) bytes)).
