(* Perm.v — the places where the compiler walks a hash container in its internal order, each as a function of a
   list in arbitrary order: collect-then-sort (inline constant buffers, required globals, argument buffers, helpers,
   names of a scope) and the usage fixpoint over arbitrarily ordered keys (ir/src/usage_analysis.rs recurse).
   No proofs in this file. *)
From Coq Require Import List NArith Bool.
Import ListNotations.

(* ---------- Vec::sort / sort_by as insertion sort (any stable sort gives the same list) ---------- *)
Section Sort.
Variable A : Type.
Variable leb : A -> A -> bool.

Fixpoint insert (x : A) (l : list A) : list A :=
  match l with
  | [] => [x]
  | y :: r => if leb x y then x :: l else y :: insert x r
  end.

Definition isort (l : list A) : list A := fold_right insert [] l.
End Sort.

Arguments insert {A}.
Arguments isort {A}.

(* inline_constant_buffers.sort(): (set, size) pairs in derived (lexicographic) order *)
Definition pair_leb (a b : N * N) : bool :=
  (fst a <? fst b)%N || ((fst a =? fst b)%N && (snd a <=? snd b)%N).

(* ---------- GlobalUsageAnalysis::recurse ---------- *)
Definition key := N.
Definition state := list (key * list key).      (* the map as an association list with distinct keys *)

Definition mem (x : key) (l : list key) : bool := existsb (N.eqb x) l.

Fixpoint get (s : state) (k : key) : list key :=
  match s with
  | [] => []
  | (k', v) :: r => if N.eqb k k' then v else get r k
  end.

Fixpoint set (s : state) (k : key) (v : list key) : state :=
  match s with
  | [] => []
  | (k', v') :: r => if N.eqb k k' then (k', v) :: r else (k', v') :: set r k v
  end.

(* extend a duplicate-free list by the elements of another that it does not hold yet (HashSet::extend) *)
Fixpoint extend (cur add : list key) : list key :=
  match add with
  | [] => cur
  | x :: r => if mem x cur then extend cur r else extend (cur ++ [x]) r
  end.

(* the body of `for key in &keys` *)
Definition visit (s : state) (k : key) : state * bool :=
  let cur := get s k in
  let new := fold_left (fun acc o => extend acc (get s o)) cur cur in
  if Nat.ltb (List.length cur) (List.length new) then (set s k new, true) else (s, false).

Fixpoint pass (ks : list key) (s : state) (modified : bool) : state * bool :=
  match ks with
  | [] => (s, modified)
  | k :: r => let '(s', m) := visit s k in pass r s' (modified || m)
  end.

(* `loop { ...; if !modified { break } }` *)
Fixpoint recurse (fuel : nat) (ks : list key) (s : state) : option state :=
  match fuel with
  | O => None
  | S f => let '(s', m) := pass ks s false in if m then recurse f ks s' else Some s'
  end.
