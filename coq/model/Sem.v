(* Sem.v — the functions of an IR dump as trees, their encoding as dump words, the renaming of locals on trees, and an
   evaluator.  harness/src/sdump.rs writes a function as the prefix encoding `enc_func`; `Alpha.pair` compares two such
   word lists.  The evaluator gives the trees a meaning in which a local variable is a cell of a store addressed by
   its VariableId: reads, writes through member / swizzle / subscript paths, compound assignments, increments,
   copy-in / copy-out calls, sequencing, conditionals, loops with break / continue, returns.  What the operators,
   literals, conversions, accessors, callees and globals *do* is a parameter of the evaluator (a Section variable,
   not an axiom): the theorems in proofs/SemProofs.v hold for every choice of them, because the comparison demands
   those words to be identical.  Switch enters at the first matching case label of its block (else the default label), falls through
   labels and leaves at break; discard ends the invocation.  No proofs in this file. *)
From Coq Require Import List NArith Bool String.
From RV Require Import Wire Alpha.
Import ListNotations.
Local Open Scope string_scope.
Local Open Scope list_scope.

(* ---- trees ---- *)
Inductive expr :=
| ELoc (x : N)                                            (* Loc @x *)
| ELeaf (ws : list string)                                (* Lit c.. | Mem s m | CVar b m | EVal e v | SizeOf ty.. *)
| EGlob (n : string)                                      (* Glob n *)
| ETern (c a b : expr)
| ESeq (es : list expr)
| EAcc (ws : list string) (e : expr)                      (* Swz n slots.. | MSwz n slots.. | SMem m | OMem m | Cast ty.. *)
| ESub (a i : expr)
| ECall (hd : list string) (dirs : list (string * list string)) (args : list expr)   (* name, call type; direction and type per parameter *)
| ECtor (ty : list string) (ar : list string) (es : list expr)
| EOp (name : string) (args : list expr).

Inductive init := INone | IExp (e : expr) | IAgg (l : list init).

Definition vardef := (N * list string * init)%type.        (* id, storage class and type words, initialiser *)

Inductive forinit := FEmpty | FExp (e : expr) | FDefs (ds : list vardef).

Inductive stmt :=
| SAttr (w : string) (s : stmt)
| SExpr (e : expr)
| SVar (d : vardef)
| SBlock (b : list stmt)
| SIf (c : expr) (b : list stmt)
| SIfElse (c : expr) (a b : list stmt)
| SFor (fi : forinit) (c inc : option expr) (b : list stmt)
| SWhile (c : expr) (b : list stmt)
| SDo (b : list stmt) (c : expr)
| SSwitch (c : expr) (b : list stmt)
| SWord (ws : list string)                                 (* SBreak | SContinue | SDiscard | SRet0 | SCase c.. | SDefault *)
| SRet (e : expr).

Definition param := (N * string * list string * option expr)%type.   (* id, direction, type words, default value *)
Record func := { f_ret : list string; f_params : list param; f_body : list stmt }.

(* ---- the encoding sdump.rs writes ---- *)
Definition ws (l : list string) : list tok := map W l.
Definition count {A} (l : list A) : tok := W (show_N (N.of_nat (List.length l))).

Fixpoint enc (e : expr) : list tok :=
  match e with
  | ELoc x => [W "Loc"; Id x]
  | ELeaf l => ws l
  | EGlob n => [W "Glob"; W n]
  | ETern c a b => W "Tern" :: enc c ++ enc a ++ enc b
  | ESeq es => W "Seq" :: count es :: flat_map enc es
  | EAcc l e => ws l ++ enc e
  | ESub a i => W "Sub" :: enc a ++ enc i
  | ECall hd dirs args =>
      W "Call" :: ws hd ++ count dirs :: flat_map (fun d => W (fst d) :: ws (snd d)) dirs ++ count args :: flat_map enc args
  | ECtor ty ar es => W "Ctor" :: ws ty ++ count es :: ws ar ++ flat_map enc es
  | EOp name args => W "Op" :: W name :: count args :: flat_map enc args
  end.

Fixpoint enc_init (i : init) : list tok :=
  match i with
  | INone => [W "IN"]
  | IExp e => W "IE" :: enc e
  | IAgg l => W "IA" :: count l :: flat_map enc_init l
  end.

Definition enc_vardef (d : vardef) : list tok :=
  let '(x, l, i) := d in Id x :: ws l ++ enc_init i.

Definition enc_opt (o : option expr) : list tok :=
  match o with Some e => W "Y" :: enc e | None => [W "N"] end.

Fixpoint enc_stmt (s : stmt) : list tok :=
  let block := fun (b : list stmt) => count b :: flat_map enc_stmt b in
  match s with
  | SAttr w s => W "Attr" :: W w :: enc_stmt s
  | SExpr e => W "SExpr" :: enc e
  | SVar d => W "SVar" :: enc_vardef d
  | SBlock b => W "SBlock" :: block b
  | SIf c b => W "SIf" :: enc c ++ block b
  | SIfElse c a b => W "SIfElse" :: enc c ++ block a ++ block b
  | SFor fi c inc b =>
      W "SFor" :: match fi with
                  | FEmpty => [W "FE"]
                  | FExp e => W "FX" :: enc e
                  | FDefs ds => W "FD" :: count ds :: flat_map enc_vardef ds
                  end ++ enc_opt c ++ enc_opt inc ++ block b
  | SWhile c b => W "SWhile" :: enc c ++ block b
  | SDo b c => W "SDo" :: block b ++ enc c
  | SSwitch c b => W "SSwitch" :: enc c ++ block b
  | SWord l => ws l
  | SRet e => W "SRet" :: enc e
  end.

Definition enc_block (b : list stmt) : list tok := count b :: flat_map enc_stmt b.

Definition enc_param (p : param) : list tok :=
  let '(x, dir, ty, dflt) := p in Id x :: W dir :: ws ty ++ enc_opt dflt.

Definition enc_func (f : func) : list tok :=
  W "F" :: ws (f_ret f) ++ count (f_params f) :: flat_map enc_param (f_params f) ++ enc_block (f_body f).

(* ---- renaming of locals ---- *)
Definition rn_id (r : corr) (a : N) : N := match lookup_l r a with Some b => b | None => a end.

Fixpoint rn (r : corr) (e : expr) : expr :=
  match e with
  | ELoc x => ELoc (rn_id r x)
  | ELeaf l => ELeaf l
  | EGlob n => EGlob n
  | ETern c a b => ETern (rn r c) (rn r a) (rn r b)
  | ESeq es => ESeq (map (rn r) es)
  | EAcc l e => EAcc l (rn r e)
  | ESub a i => ESub (rn r a) (rn r i)
  | ECall hd dirs args => ECall hd dirs (map (rn r) args)
  | ECtor ty ar es => ECtor ty ar (map (rn r) es)
  | EOp name args => EOp name (map (rn r) args)
  end.

Fixpoint rn_init (r : corr) (i : init) : init :=
  match i with INone => INone | IExp e => IExp (rn r e) | IAgg l => IAgg (map (rn_init r) l) end.

Definition rn_vardef (r : corr) (d : vardef) : vardef := let '(x, l, i) := d in (rn_id r x, l, rn_init r i).
Definition rn_opt (r : corr) (o : option expr) : option expr := option_map (rn r) o.

Fixpoint rn_stmt (r : corr) (s : stmt) : stmt :=
  match s with
  | SAttr w s => SAttr w (rn_stmt r s)
  | SExpr e => SExpr (rn r e)
  | SVar d => SVar (rn_vardef r d)
  | SBlock b => SBlock (map (rn_stmt r) b)
  | SIf c b => SIf (rn r c) (map (rn_stmt r) b)
  | SIfElse c a b => SIfElse (rn r c) (map (rn_stmt r) a) (map (rn_stmt r) b)
  | SFor fi c inc b =>
      SFor match fi with FEmpty => FEmpty | FExp e => FExp (rn r e) | FDefs ds => FDefs (map (rn_vardef r) ds) end
           (rn_opt r c) (rn_opt r inc) (map (rn_stmt r) b)
  | SWhile c b => SWhile (rn r c) (map (rn_stmt r) b)
  | SDo b c => SDo (map (rn_stmt r) b) (rn r c)
  | SSwitch c b => SSwitch (rn r c) (map (rn_stmt r) b)
  | SWord l => SWord l
  | SRet e => SRet (rn r e)
  end.

Definition rn_param (r : corr) (p : param) : param := let '(x, dir, ty, dflt) := p in (rn_id r x, dir, ty, rn_opt r dflt).
Definition rn_func (r : corr) (f : func) : func :=
  {| f_ret := f_ret f; f_params := map (rn_param r) (f_params f); f_body := map (rn_stmt r) (f_body f) |}.

(* ---- the evaluator ---- *)
(* what the words of a dump do: every theorem about the evaluator holds for every interpretation *)
Record interp (V G : Type) := {
  leaf : list string -> G -> option V;   (* literals, constant-buffer members, enum values, sizeof *)
  gget : string -> G -> option V;   
  gput : string -> V -> G -> option G;   
  truth : V -> option bool;   
  acc_get : list string -> V -> option V;   (* member, swizzle, cast: the part / converted value *)
  acc_put : list string -> V -> V -> option V;   (* container, new part -> new container *)
  idx_get : V -> V -> option V;   
  idx_put : V -> V -> V -> option V;   (* container, index, new element *)
  call : list string -> list (string * list string) -> list (option V) -> G -> option (V * list V * G);   
  ctor : list string -> list string -> list V -> option V;   
  op : string -> list V -> option V;   (* every operator that only computes *)
  dflt : list string -> option V;   (* what a declaration without initialiser holds *)
  agg : list string -> list V -> option V;   (* an aggregate initialiser's value for a declared type *)
  case_match : list string -> V -> option bool;
}.
Arguments leaf {V G} _.
Arguments gget {V G} _.
Arguments gput {V G} _.
Arguments truth {V G} _.
Arguments acc_get {V G} _.
Arguments acc_put {V G} _.
Arguments idx_get {V G} _.
Arguments idx_put {V G} _.
Arguments call {V G} _.
Arguments ctor {V G} _.
Arguments op {V G} _.
Arguments dflt {V G} _.
Arguments agg {V G} _.
Arguments case_match {V G} _.

Section Eval.
  Context {V G : Type} (I : interp V G).

  Definition locals := N -> option V.
  Definition upd (l : locals) (x : N) (v : V) : locals := fun y => if N.eqb y x then Some v else l y.
  Definition st := (locals * G)%type.

  Inductive step := AW (l : list string) | AI (i : V).
  Inductive base := BLoc (x : N) | BGlob (n : string).
  Definition lv := (base * list step)%type.

  Definition bind {A B} (o : option (A * st)) (k : A -> st -> option (B * st)) : option (B * st) :=
    match o with Some (a, s) => k a s | None => None end.
  Definition lift {A} (o : option A) (s : st) : option (A * st) :=
    match o with Some a => Some (a, s) | None => None end.

  Definition step_get (a : step) (v : V) : option V := match a with AW l => acc_get I l v | AI i => idx_get I v i end.
  Definition step_put (a : step) (v n : V) : option V := match a with AW l => acc_put I l v n | AI i => idx_put I v i n end.

  Fixpoint path_get (p : list step) (v : V) : option V :=
    match p with [] => Some v | a :: q => match step_get a v with Some u => path_get q u | None => None end end.
  Fixpoint path_put (p : list step) (v n : V) : option V :=
    match p with
    | [] => Some n
    | a :: q => match step_get a v with
                | Some u => match path_put q u n with Some u' => step_put a v u' | None => None end
                | None => None
                end
    end.

  Definition base_get (b : base) (s : st) : option V := match b with BLoc x => fst s x | BGlob n => gget I n (snd s) end.
  Definition base_put (b : base) (v : V) (s : st) : option st :=
    match b with
    | BLoc x => Some (upd (fst s) x v, snd s)
    | BGlob n => match gput I n v (snd s) with Some g => Some (fst s, g) | None => None end
    end.
  Definition lv_get (l : lv) (s : st) : option V :=
    match base_get (fst l) s with Some v => path_get (snd l) v | None => None end.
  (* a whole variable may be written before it holds anything; a part of it may not *)
  Definition lv_put (l : lv) (n : V) (s : st) : option st :=
    match snd l with
    | [] => base_put (fst l) n s
    | p => match base_get (fst l) s with
           | Some v => match path_put p v n with Some v' => base_put (fst l) v' s | None => None end
           | None => None
           end
    end.

  Definition assign_base (name : string) : option (option string) :=
    if String.eqb name "Assignment" then Some None
    else if String.eqb name "SumAssignment" then Some (Some "Add")
    else if String.eqb name "DifferenceAssignment" then Some (Some "Subtract")
    else if String.eqb name "ProductAssignment" then Some (Some "Multiply")
    else if String.eqb name "QuotientAssignment" then Some (Some "Divide")
    else if String.eqb name "RemainderAssignment" then Some (Some "Modulus")
    else if String.eqb name "LeftShiftAssignment" then Some (Some "LeftShift")
    else if String.eqb name "RightShiftAssignment" then Some (Some "RightShift")
    else if String.eqb name "BitwiseAndAssignment" then Some (Some "BitwiseAnd")
    else if String.eqb name "BitwiseOrAssignment" then Some (Some "BitwiseOr")
    else if String.eqb name "BitwiseXorAssignment" then Some (Some "BitwiseXor")
    else None.
  (* Some true: the value of the expression is the new value; Some false: the old one *)
  Definition incdec (name : string) : option bool :=
    if String.eqb name "PrefixIncrement" || String.eqb name "PrefixDecrement" then Some true
    else if String.eqb name "PostfixIncrement" || String.eqb name "PostfixDecrement" then Some false
    else None.

  Section Expr.
    Variable ev : expr -> st -> option (V * st).             (* the evaluator with one unit of fuel less *)

    Fixpoint evs (es : list expr) (s : st) : option (list V * st) :=
      match es with
      | [] => Some ([], s)
      | e :: r => bind (ev e s) (fun v s1 => bind (evs r s1) (fun vs s2 => Some (v :: vs, s2)))
      end.

    (* where an lvalue expression lives; a subscript evaluates its index *)
    Fixpoint lval (e : expr) (s : st) : option (lv * st) :=
      match e with
      | ELoc x => Some ((BLoc x, []), s)
      | EGlob n => Some ((BGlob n, []), s)
      | EAcc l e => bind (lval e s) (fun b s1 => Some ((fst b, snd b ++ [AW l]), s1))
      | ESub a i => bind (lval a s) (fun b s1 => bind (ev i s1) (fun vi s2 => Some ((fst b, snd b ++ [AI vi]), s2)))
      | _ => None
      end.

    (* arguments left to right: a value for `in`, a place (and its value, for `inout`) otherwise *)
    Fixpoint evargs (dirs : list (string * list string)) (es : list expr) (s : st) : option (list (option V * option lv) * st) :=
      match dirs, es with
      | _, [] => Some ([], s)
      | [], _ :: _ => None
      | d :: dr, e :: r =>
          if String.eqb (fst d) "0" then
            bind (ev e s) (fun v s1 => bind (evargs dr r s1) (fun l s2 => Some ((Some v, None) :: l, s2)))
          else
            bind (lval e s) (fun p s1 =>
              bind (if String.eqb (fst d) "1" then Some (None, s1) else lift (option_map Some (lv_get p s1)) s1) (fun v s2 =>
                bind (evargs dr r s2) (fun l s3 => Some ((v, Some p) :: l, s3))))
      end.

    Fixpoint copy_back (l : list (option V * option lv)) (outs : list V) (s : st) : option st :=
      match l, outs with
      | [], _ => Some s
      | (_, None) :: r, _ :: o => copy_back r o s
      | (_, Some p) :: r, v :: o => match lv_put p v s with Some s1 => copy_back r o s1 | None => None end
      | _ :: _, [] => None
      end.

    Definition ev1 (e : expr) (s : st) : option (V * st) :=
      match e with
      | ELoc x => lift (fst s x) s
      | ELeaf l => lift (leaf I l (snd s)) s
      | EGlob n => lift (gget I n (snd s)) s
      | ETern c a b => bind (ev c s) (fun vc s1 => match truth I vc with Some true => ev a s1 | Some false => ev b s1 | None => None end)
      | ESeq es => bind (evs es s) (fun vs s1 => lift (last (map Some vs) None) s1)
      | EAcc l e => bind (ev e s) (fun v s1 => lift (acc_get I l v) s1)
      | ESub a i => bind (ev a s) (fun va s1 => bind (ev i s1) (fun vi s2 => lift (idx_get I va vi) s2))
      | ECall hd dirs args =>
          bind (evargs dirs args s) (fun l s1 =>
            match call I hd dirs (map fst l) (snd s1) with
            | Some (v, outs, g) => match copy_back l outs (fst s1, g) with Some s2 => Some (v, s2) | None => None end
            | None => None
            end)
      | ECtor ty ar es => bind (evs es s) (fun vs s1 => lift (ctor I ty ar vs) s1)
      | EOp name args =>
          match assign_base name, incdec name, args with
          | Some b, _, [l; r] =>
              bind (lval l s) (fun p s1 => bind (ev r s1) (fun vr s2 =>
                match (match b with
                       | None => Some vr
                       | Some o => match lv_get p s2 with Some old => op I o [old; vr] | None => None end
                       end) with
                | Some n => match lv_put p n s2 with Some s3 => Some (n, s3) | None => None end
                | None => None
                end))
          | None, Some pre, [l] =>
              bind (lval l s) (fun p s1 =>
                match lv_get p s1 with
                | Some old => match op I name [old] with
                              | Some n => match lv_put p n s1 with Some s2 => Some (if pre then n else old, s2) | None => None end
                              | None => None
                              end
                | None => None
                end)
          | None, None, _ => bind (evs args s) (fun vs s1 => lift (op I name vs) s1)
          | _, _, _ => None
          end
      end.
  End Expr.

  Fixpoint ev (fuel : nat) (e : expr) (s : st) : option (V * st) :=
    match fuel with O => None | S f => ev1 (ev f) e s end.

  (* ---- statements ---- *)
  Inductive outcome := ONormal | OBreak | OContinue | ORet (v : option V) | ODiscard.

  Fixpoint ev_init (fuel : nat) (ty : list string) (i : init) (s : st) : option (V * st) :=
    match fuel with
    | O => None
    | S f =>
        match i with
        | INone => lift (dflt I ty) s
        | IExp e => ev f e s
        | IAgg l =>
            bind ((fix go (l : list init) (s : st) : option (list V * st) :=
                     match l with
                     | [] => Some ([], s)
                     | x :: r => bind (ev_init f ("elem" :: ty) x s) (fun v s1 => bind (go r s1) (fun vs s2 => Some (v :: vs, s2)))
                     end) l s)
                 (fun vs s1 => lift (agg I ty vs) s1)
        end
    end.

  Definition ex_vardef (fuel : nat) (d : vardef) (s : st) : option st :=
    let '(x, ty, i) := d in
    match ev_init fuel ty i s with Some (v, s1) => Some (upd (fst s1) x v, snd s1) | None => None end.

  Fixpoint ex_vardefs (fuel : nat) (ds : list vardef) (s : st) : option st :=
    match ds with [] => Some s | d :: r => match ex_vardef fuel d s with Some s1 => ex_vardefs fuel r s1 | None => None end end.

  Definition cond (fuel : nat) (c : option expr) (s : st) : option (bool * st) :=
    match c with
    | None => Some (true, s)
    | Some e => match ev fuel e s with
                | Some (v, s1) => match truth I v with Some b => Some (b, s1) | None => None end
                | None => None
                end
    end.

  Section Stmt.
    Variable ex : stmt -> st -> option (outcome * st).        (* one unit of fuel less *)
    Variable fuel : nat.                                      (* for expressions *)

    Fixpoint ex_block (b : list stmt) (s : st) : option (outcome * st) :=
      match b with
      | [] => Some (ONormal, s)
      | x :: r => match ex x s with
                  | Some (ONormal, s1) => ex_block r s1
                  | other => other
                  end
      end.

    (* `n` iterations at most: the caller passes its fuel *)
    Fixpoint loop (n : nat) (first : bool) (c inc : option expr) (b : list stmt) (s : st) : option (outcome * st) :=
      match n with
      | O => None
      | S m =>
          match (if first then Some (true, s) else cond fuel c s) with
          | Some (true, s1) =>
              match ex_block b s1 with
              | Some (ORet v, s2) => Some (ORet v, s2)
              | Some (ODiscard, s2) => Some (ODiscard, s2)
              | Some (OBreak, s2) => Some (ONormal, s2)
              | Some (_, s2) =>
                  match inc with
                  | Some e => match ev fuel e s2 with Some (_, s3) => loop m false c inc b s3 | None => None end
                  | None => loop m false c inc b s2
                  end
              | None => None
              end
          | Some (false, s1) => Some (ONormal, s1)
          | None => None
          end
      end.

    (* switch: the statements after the first matching case label, else after the default label; labels are looked
       for among the statements of the switch block itself; None: the comparison is not defined *)
    Fixpoint find_case (b : list stmt) (v : V) : option (option (list stmt)) :=
      match b with
      | [] => Some None
      | SWord (w :: cw) :: r =>
          if String.eqb w "SCase" then
            match case_match I cw v with
            | Some true => Some (Some r)
            | Some false => find_case r v
            | None => None
            end
          else find_case r v
      | _ :: r => find_case r v
      end.
    Fixpoint find_default (b : list stmt) : option (list stmt) :=
      match b with
      | [] => None
      | SWord l :: r => match l with [w] => if String.eqb w "SDefault" then Some r else find_default r | _ => find_default r end
      | _ :: r => find_default r
      end.

    Definition ex1 (x : stmt) (s : st) : option (outcome * st) :=
      match x with
      | SAttr _ y => ex y s
      | SExpr e => match ev fuel e s with Some (_, s1) => Some (ONormal, s1) | None => None end
      | SVar d => match ex_vardef fuel d s with Some s1 => Some (ONormal, s1) | None => None end
      | SBlock b => ex_block b s
      | SIf c b => match cond fuel (Some c) s with
                   | Some (true, s1) => ex_block b s1
                   | Some (false, s1) => Some (ONormal, s1)
                   | None => None
                   end
      | SIfElse c a b => match cond fuel (Some c) s with
                         | Some (true, s1) => ex_block a s1
                         | Some (false, s1) => ex_block b s1
                         | None => None
                         end
      | SFor fi c inc b =>
          match (match fi with
                 | FEmpty => Some s
                 | FExp e => match ev fuel e s with Some (_, s1) => Some s1 | None => None end
                 | FDefs ds => ex_vardefs fuel ds s
                 end) with
          | Some s1 => loop fuel false c inc b s1
          | None => None
          end
      | SWhile c b => loop fuel false (Some c) None b s
      | SDo b c => loop fuel true (Some c) None b s
      | SSwitch c b =>
          match ev fuel c s with
          | Some (v, s1) =>
              match find_case b v with
              | Some entry =>
                  match (match entry with Some r => Some r | None => find_default b end) with
                  | Some r => match ex_block r s1 with
                              | Some (OBreak, s2) => Some (ONormal, s2)
                              | other => other
                              end
                  | None => Some (ONormal, s1)
                  end
              | None => None
              end
          | None => None
          end
      | SWord l =>
          match l with
          | [] => None
          | w :: rest =>
              if String.eqb w "SCase" then Some (ONormal, s)                  (* a label does nothing when reached *)
              else match rest with
                   | [] => if String.eqb w "SBreak" then Some (OBreak, s)
                           else if String.eqb w "SContinue" then Some (OContinue, s)
                           else if String.eqb w "SRet0" then Some (ORet None, s)
                           else if String.eqb w "SDiscard" then Some (ODiscard, s)
                           else if String.eqb w "SDefault" then Some (ONormal, s)
                           else None
                   | _ => None
                   end
          end
      | SRet e => match ev fuel e s with Some (v, s1) => Some (ORet (Some v), s1) | None => None end
      end.
  End Stmt.

  Fixpoint ex (fuel : nat) (x : stmt) (s : st) : option (outcome * st) :=
    match fuel with O => None | S f => ex1 (ex f) f x s end.

  (* ---- a function applied to arguments: what the caller can see ---- *)
  Fixpoint bind_params (ps : list param) (args : list (option V)) (l : locals) : option locals :=
    match ps, args with
    | [], [] => Some l
    | (x, _, _, _) :: pr, Some v :: ar => bind_params pr ar (upd l x v)
    | (x, _, _, _) :: pr, None :: ar => bind_params pr ar l
    | _, _ => None
    end.

  Fixpoint read_outs (ps : list param) (l : locals) : list (option V) :=
    match ps with
    | [] => []
    | (x, dir, _, _) :: pr => (if String.eqb dir "0" then None else l x) :: read_outs pr l
    end.

  (* result: whether the invocation was discarded, the returned value, the final values of the out / inout parameters, the outside *)
  Definition run (fuel : nat) (f : func) (args : list (option V)) (g : G) : option (bool * option V * list (option V) * G) :=
    match bind_params (f_params f) args (fun _ => None) with
    | Some l =>
        match ex_block (ex fuel) (f_body f) (l, g) with
        | Some (o, (l1, g1)) =>
            Some (match o with ODiscard => true | _ => false end, match o with ORet v => v | _ => None end, read_outs (f_params f) l1, g1)
        | None => None
        end
    | None => None
    end.
End Eval.
