(* The words a generated program must not use as a name, as far as this development knows them: a reviewed list,
   written by hand from the languages' own documents, NOT taken from /repo.  It is the statement of "reserved words
   or built-in names of the target language" that C15's table obligation and probes are measured against.
     - C++ keywords and alternative tokens (ISO C++14 [lex.key]); both targets are C++ dialects (DXC parses HLSL with
       clang's C++ front end, Metal is C++14).  `double`, `for` and `register` are keywords of RSSL itself.
     - HLSL: the keyword appendix of the HLSL reference (dx-graphics-hlsl-appendix-keywords) without the words DXC lets
       a program use as identifiers (precise, sample, center, globallycoherent, the mesh-shader words) and without the
       effect-framework words of FXC (pass, compile, fxgroup, stateblock, ...); the sized scalar aliases of HLSL 2018.
     - Metal: address spaces and function qualifiers (Metal Shading Language Specification, sections 4 and 5.1), the
       scalar types it declares outside namespace metal (section 2.1), and the names `metal` and `main`.
   A word missing here is a word the checks do not ask about; a word listed here that a target does not reserve would
   only make the checks ask for a harmless suffix. *)
From Coq Require Import List String.
Import ListNotations.
Local Open Scope string_scope.

Definition cpp_words : list string := [
  "alignas";
  "alignof";
  "and";
  "and_eq";
  "asm";
  "auto";
  "bitand";
  "bitor";
  "bool";
  "break";
  "case";
  "catch";
  "char";
  "char16_t";
  "char32_t";
  "class";
  "compl";
  "const";
  "const_cast";
  "constexpr";
  "continue";
  "decltype";
  "default";
  "delete";
  "do";
  "dynamic_cast";
  "else";
  "enum";
  "explicit";
  "export";
  "extern";
  "false";
  "float";
  "friend";
  "goto";
  "if";
  "inline";
  "int";
  "long";
  "mutable";
  "namespace";
  "new";
  "noexcept";
  "not";
  "not_eq";
  "nullptr";
  "operator";
  "or";
  "or_eq";
  "private";
  "protected";
  "public";
  "reinterpret_cast";
  "return";
  "short";
  "signed";
  "sizeof";
  "static";
  "static_assert";
  "static_cast";
  "struct";
  "switch";
  "template";
  "this";
  "thread_local";
  "throw";
  "true";
  "try";
  "typedef";
  "typeid";
  "typename";
  "union";
  "unsigned";
  "using";
  "virtual";
  "void";
  "volatile";
  "wchar_t";
  "while";
  "xor";
  "xor_eq"].

Definition hlsl_keywords : list string := [
  "cbuffer";
  "centroid";
  "column_major";
  "discard";
  "groupshared";
  "in";
  "inout";
  "interface";
  "line";
  "lineadj";
  "linear";
  "nointerpolation";
  "noperspective";
  "out";
  "packoffset";
  "point";
  "row_major";
  "shared";
  "snorm";
  "tbuffer";
  "technique";
  "triangle";
  "triangleadj";
  "uniform";
  "unorm"].

Definition hlsl_builtin_types : list string := [
  "dword";
  "half";
  "matrix";
  "min10float";
  "min12int";
  "min16float";
  "min16int";
  "min16uint";
  "string";
  "sampler";
  "texture";
  "uint";
  "vector";
  "int16_t";
  "uint16_t";
  "int32_t";
  "uint32_t";
  "int64_t";
  "uint64_t";
  "float16_t";
  "float32_t";
  "float64_t";
  "AppendStructuredBuffer";
  "Buffer";
  "ByteAddressBuffer";
  "ConstantBuffer";
  "ConsumeStructuredBuffer";
  "InputPatch";
  "LineStream";
  "OutputPatch";
  "PointStream";
  "RWBuffer";
  "RWByteAddressBuffer";
  "RWStructuredBuffer";
  "RWTexture1D";
  "RWTexture1DArray";
  "RWTexture2D";
  "RWTexture2DArray";
  "RWTexture3D";
  "SamplerComparisonState";
  "SamplerState";
  "StructuredBuffer";
  "Texture1D";
  "Texture1DArray";
  "Texture2D";
  "Texture2DArray";
  "Texture2DMS";
  "Texture2DMSArray";
  "Texture3D";
  "TextureCube";
  "TextureCubeArray";
  "TriangleStream"].

Definition msl_keywords : list string := [
  "constant";
  "device";
  "thread";
  "threadgroup";
  "threadgroup_imageblock";
  "ray_data";
  "object_data";
  "kernel";
  "vertex";
  "fragment"].

Definition msl_global_names : list string := [
  "half";
  "uint";
  "uchar";
  "ushort";
  "ulong";
  "size_t";
  "ptrdiff_t";
  "int8_t";
  "uint8_t";
  "int16_t";
  "uint16_t";
  "int32_t";
  "uint32_t";
  "int64_t";
  "uint64_t";
  "bfloat";
  "metal";
  "main"].

Definition hlsl_target_words : list string := cpp_words ++ hlsl_keywords ++ hlsl_builtin_types.
Definition msl_target_words : list string := cpp_words ++ msl_keywords ++ msl_global_names.

(* membership in a table of names, as a boolean *)
Definition listed (table : list string) (w : string) : bool := existsb (String.eqb w) table.
