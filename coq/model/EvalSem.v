(* EvalSem.v — constants, the semantics of the Rust operators the constant evaluator uses
   (typer/src/evaluator.rs), and the reference HLSL semantics.  No proofs in this file.
   Floating point values are Flocq binary32/binary64 (single-NaN representation). *)
From Coq Require Import List ZArith NArith Bool String.
From Flocq Require Import Core IEEE754.BinarySingleNaN IEEE754.Binary IEEE754.Bits.
Import ListNotations.
Local Open Scope Z_scope.

(* ir::Constant variants *)
Inductive ckind :=
| KBool | KIntLiteral | KInt32 | KUInt32 | KInt64 | KUInt64
| KFloatLiteral | KFloat16 | KFloat32 | KFloat64 | KString | KEnum.

Definition ckind_eqb (a b : ckind) : bool :=
  match a, b with
  | KBool, KBool | KIntLiteral, KIntLiteral | KInt32, KInt32 | KUInt32, KUInt32 | KInt64, KInt64
  | KUInt64, KUInt64 | KFloatLiteral, KFloatLiteral | KFloat16, KFloat16 | KFloat32, KFloat32
  | KFloat64, KFloat64 | KString, KString | KEnum, KEnum => true
  | _, _ => false
  end.

Inductive arith := OAdd | OSub | OMul | ODiv | ORem | OShl | OShr | OAnd | OOr | OXor | ONeg.
Inductive flavour := FBare | FWrapping | FChecked | FExact.   (* `a + b` | wrapping_* | checked_* | checked without bit loss *)
Inductive cmp := CLt | CLe | CGt | CGe.
Inductive bsem :=
| BArith (k : ckind) (f : flavour) (o : arith) (zero_check : bool)
| BCmp (c : cmp) | BBoolAnd | BBoolOr | BNotConst.
Inductive usem :=
| UStep (k : ckind) (f : flavour) (o : arith)     (* x +/- 1 *)
| UNeg (k : ckind) (f : flavour)
| UNot (k : ckind)
| UClone | UNotConst | UPanic.
Inductive ssem := SEq | SNe.
Inductive rty := Ri32 | Ru32 | Rf32 | Rf64.
Inductive csem :=
| CKeep (k : ckind) | CAs (k : ckind) (r : rty) | CNonZero | CFNonZero | CBoolToFloat (k : ckind)
| CNotConst | CUnreachable.

Definition f64 := BinarySingleNaN.binary_float 53 1024.
Definition f32 := BinarySingleNaN.binary_float 24 128.

Inductive const :=
| VBool (b : bool)
| VInt (k : ckind) (z : Z)        (* IntLiteral (i128), Int32, UInt32, Int64, UInt64 *)
| VF64 (k : ckind) (f : f64)      (* FloatLiteral, Float64 *)
| VF32 (k : ckind) (f : f32)      (* Float16 and Float32 both carry an f32 *)
| VEnum (id : N) (c : const).

Definition kind_of (c : const) : ckind :=
  match c with
  | VBool _ => KBool | VInt k _ => k | VF64 k _ => k | VF32 k _ => k | VEnum _ _ => KEnum
  end.

Inductive res := ROk (c : const) | RNotConst | RPanic.

(* ---------- machine integers ---------- *)
Definition bits (k : ckind) : Z := match k with KIntLiteral => 128 | KInt64 | KUInt64 => 64 | _ => 32 end.
Definition signed (k : ckind) : bool := match k with KUInt32 | KUInt64 => false | _ => true end.
Definition lo (k : ckind) : Z := if signed k then - 2 ^ (bits k - 1) else 0.
Definition hi (k : ckind) : Z := if signed k then 2 ^ (bits k - 1) - 1 else 2 ^ bits k - 1.
Definition in_range (k : ckind) (z : Z) : bool := (lo k <=? z) && (z <=? hi k).
Definition wrap (k : ckind) (z : Z) : Z := (z - lo k) mod 2 ^ bits k + lo k.

Inductive zres := ZOk (z : Z) | ZNotConst | ZPanic.

(* the only quotient that does not fit: MIN / -1 of a signed type *)
Definition div_overflows (k : ckind) (a b : Z) : bool := signed k && (a =? lo k) && (b =? -1).

Definition shift (o : arith) (k : ckind) (a amt : Z) : Z :=
  match o with
  | OShl => wrap k (a * 2 ^ amt)
  | _ => Z.shiftr a amt
  end.

(* the Rust operator selected by (flavour, op) applied to in-range operands; `debug` = overflow checks on *)
Definition rust_arith (debug : bool) (k : ckind) (f : flavour) (o : arith) (zc : bool) (a b : Z) : zres :=
  if zc && (b =? 0) then ZNotConst else
  match o with
  | OAdd | OSub | OMul =>
      let r := match o with OAdd => a + b | OSub => a - b | _ => a * b end in
      match f with
      | FBare => if in_range k r then ZOk r else if debug then ZPanic else ZOk (wrap k r)
      | FWrapping => ZOk (wrap k r)
      | _ => if in_range k r then ZOk r else ZNotConst
      end
  | ODiv =>
      if b =? 0 then match f with FChecked | FExact => ZNotConst | _ => ZPanic end
      else if div_overflows k a b
           then match f with FBare => ZPanic | FWrapping => ZOk (wrap k (Z.quot a b)) | _ => ZNotConst end
           else ZOk (Z.quot a b)
  | ORem =>
      if b =? 0 then match f with FChecked | FExact => ZNotConst | _ => ZPanic end
      else if div_overflows k a b
           then match f with FBare => ZPanic | FWrapping => ZOk 0 | _ => ZNotConst end
           else ZOk (Z.rem a b)
  | OShl | OShr =>
      let ok := (0 <=? b) && (b <? bits k) in
      match f with
      | FBare => if ok then ZOk (shift o k a b) else if debug then ZPanic else ZOk (shift o k a (b mod bits k))
      | FWrapping => ZOk (shift o k a (b mod bits k))
      | FChecked => if ok then ZOk (shift o k a b) else ZNotConst
      | FExact => if ok && in_range k (a * 2 ^ b) then ZOk (shift o k a b) else ZNotConst
      end
  | OAnd => ZOk (Z.land a b)
  | OOr => ZOk (Z.lor a b)
  | OXor => ZOk (Z.lxor a b)
  | ONeg => ZNotConst
  end.

Definition rust_neg (debug : bool) (k : ckind) (f : flavour) (a : Z) : zres :=
  let r := - a in
  match f with
  | FBare => if in_range k r then ZOk r else if debug then ZPanic else ZOk (wrap k r)
  | FWrapping => ZOk (wrap k r)
  | _ => if in_range k r then ZOk r else ZNotConst
  end.

(* ---------- reference HLSL semantics on integers ----------
   int/uint: 32-bit two's complement wrap-around, shift counts use their low five bits, division or
   modulus by zero is not a constant (INT_MIN / -1 is not a constant either, INT_MIN % -1 is 0).
   Untyped integer literals: exact arithmetic; a value outside the evaluator's 128-bit carrier, a
   shift count outside [0,128) or a shift that loses bits is not a constant. *)
Definition ref_arith (k : ckind) (o : arith) (a b : Z) : zres :=
  match k with
  | KIntLiteral =>
      let fit := fun r => if in_range k r then ZOk r else ZNotConst in
      match o with
      | OAdd => fit (a + b) | OSub => fit (a - b) | OMul => fit (a * b)
      | ODiv => if b =? 0 then ZNotConst else if div_overflows k a b then ZNotConst else ZOk (Z.quot a b)
      | ORem => if b =? 0 then ZNotConst else if div_overflows k a b then ZNotConst else ZOk (Z.rem a b)
      | OShl => if (0 <=? b) && (b <? 128) && in_range k (a * 2 ^ b) then ZOk (a * 2 ^ b) else ZNotConst
      | OShr => if (0 <=? b) && (b <? 128) then ZOk (Z.shiftr a b) else ZNotConst
      | OAnd => ZOk (Z.land a b) | OOr => ZOk (Z.lor a b) | OXor => ZOk (Z.lxor a b)
      | ONeg => ZNotConst
      end
  | _ =>
      match o with
      | OAdd => ZOk (wrap k (a + b)) | OSub => ZOk (wrap k (a - b)) | OMul => ZOk (wrap k (a * b))
      | ODiv => if b =? 0 then ZNotConst else if div_overflows k a b then ZNotConst else ZOk (Z.quot a b)
      | ORem => if b =? 0 then ZNotConst else if div_overflows k a b then ZOk 0 else ZOk (Z.rem a b)
      | OShl => ZOk (wrap k (a * 2 ^ (b mod bits k)))
      | OShr => ZOk (Z.shiftr a (b mod bits k))
      | OAnd => ZOk (Z.land a b) | OOr => ZOk (Z.lor a b) | OXor => ZOk (Z.lxor a b)
      | ONeg => ZNotConst
      end
  end.

Definition ref_neg (k : ckind) (a : Z) : zres :=
  match k with
  | KIntLiteral => if in_range k (- a) then ZOk (- a) else ZNotConst
  | _ => ZOk (wrap k (- a))
  end.

(* ---------- floating point helpers (Flocq) ---------- *)
Definition f64_of_Z (z : Z) : f64 := BinarySingleNaN.binary_normalize 53 1024 eq_refl eq_refl mode_NE z 0 false.
Definition f32_of_Z (z : Z) : f32 := BinarySingleNaN.binary_normalize 24 128 eq_refl eq_refl mode_NE z 0 false.

Definition f32_of_f64 (x : f64) : f32 :=
  match x with
  | BinarySingleNaN.B754_zero s => BinarySingleNaN.B754_zero s
  | BinarySingleNaN.B754_infinity s => BinarySingleNaN.B754_infinity s
  | BinarySingleNaN.B754_nan => BinarySingleNaN.B754_nan
  | BinarySingleNaN.B754_finite s m e _ =>
      BinarySingleNaN.binary_normalize 24 128 eq_refl eq_refl mode_NE (cond_Zopp s (Zpos m)) e s
  end.

Definition f64_of_f32 (x : f32) : f64 :=
  match x with
  | BinarySingleNaN.B754_zero s => BinarySingleNaN.B754_zero s
  | BinarySingleNaN.B754_infinity s => BinarySingleNaN.B754_infinity s
  | BinarySingleNaN.B754_nan => BinarySingleNaN.B754_nan
  | BinarySingleNaN.B754_finite s m e _ =>
      BinarySingleNaN.binary_normalize 53 1024 eq_refl eq_refl mode_NE (cond_Zopp s (Zpos m)) e s
  end.

(* Rust `f as iN/uN`: truncate toward zero, saturate, NaN -> 0 *)
Definition trunc_sat {prec emax} (k : ckind) (x : BinarySingleNaN.binary_float prec emax) : Z :=
  match x with
  | BinarySingleNaN.B754_nan => 0
  | BinarySingleNaN.B754_infinity s => if s then lo k else hi k
  | _ => Z.max (lo k) (Z.min (hi k) (BinarySingleNaN.Btrunc x))
  end.

Definition fcmp {prec emax} (c : cmp) (x y : BinarySingleNaN.binary_float prec emax) : bool :=
  match BinarySingleNaN.Bcompare x y, c with
  | Some Lt, (CLt | CLe) => true
  | Some Eq, (CLe | CGe) => true
  | Some Gt, (CGt | CGe) => true
  | _, _ => false
  end.

Definition fis_nonzero {prec emax} (x : BinarySingleNaN.binary_float prec emax) : bool :=
  match x with BinarySingleNaN.B754_zero _ => false | _ => true end.     (* v != 0.0 : NaN != 0.0 is true *)

Definition feq {prec emax} (x y : BinarySingleNaN.binary_float prec emax) : bool :=
  match BinarySingleNaN.Bcompare x y with Some Eq => true | _ => false end.

Definition zcmp (c : cmp) (a b : Z) : bool :=
  match c with CLt => a <? b | CLe => a <=? b | CGt => b <? a | CGe => b <=? a end.
Definition bcmp (c : cmp) (a b : bool) : bool := zcmp c (Z.b2z a) (Z.b2z b).

(* derived PartialEq on ir::Constant *)
Fixpoint const_eqb (a b : const) : bool :=
  match a, b with
  | VBool x, VBool y => Bool.eqb x y
  | VInt k x, VInt k' y => ckind_eqb k k' && (x =? y)
  | VF64 k x, VF64 k' y => ckind_eqb k k' && feq x y
  | VF32 k x, VF32 k' y => ckind_eqb k k' && feq x y
  | VEnum i x, VEnum j y => N.eqb i j && const_eqb x y
  | _, _ => false
  end.
