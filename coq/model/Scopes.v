(* Scopes.v — how a qualified name is looked up by the front end (typer/src/typer/scopes.rs: find_identifier,
   walk_into_scopes) and how the exporters decide whether a path written from the root needs the leading `::`
   (ir/src/name_generator.rs: is_hidden_from_root, get_name_qualified).
   A namespace is its path, innermost name first; the environment is the set of namespace paths and the set of
   (namespace, name) declarations.  A use site is a namespace plus the stack of local frames (function parameters and
   locals, struct members) around it; frames declare plain names only. *)
From Coq Require Import List Bool String.
Import ListNotations.

Section Scopes.
Variable is_ns : list string -> bool.
Variable has : list string -> string -> bool.
(* names declared inside structs and functions, as the name map collects them *)
Variable inner : string -> bool.
(* namespaces that are written into the output: those that hold a declaration, directly or in a namespace inside them
   (an empty namespace is not emitted, so its name cannot capture a path in the emitted text) *)
Variable live : list string -> bool.

(* walk_into_scopes *)
Fixpoint walk (s : list string) (dirs : list string) : option (list string) :=
  match dirs with
  | [] => Some s
  | n :: r => if is_ns (n :: s) then walk (n :: s) r else None
  end.

Definition find_in (s : list string) (dirs : list string) (leaf : string) : option (list string) :=
  match walk s dirs with
  | Some t => if has t leaf then Some t else None
  | None => None
  end.

(* find_identifier, Relative base: try the scope, then its parent, ... then the root *)
Fixpoint lookup (s : list string) (dirs : list string) (leaf : string) : option (list string) :=
  match find_in s dirs leaf with
  | Some t => Some t
  | None => match s with [] => None | _ :: p => lookup p dirs leaf end
  end.

Inductive found := Local | Declared (ns : list string).

(* the local frames come first; they hold plain names and no namespaces *)
Fixpoint lookup_from (frames : list (string -> bool)) (u : list string) (dirs : list string) (leaf : string) : option found :=
  match frames with
  | f :: fs => match dirs with
               | [] => if f leaf then Some Local else lookup_from fs u dirs leaf
               | _ => lookup_from fs u dirs leaf
               end
  | [] => option_map Declared (lookup u dirs leaf)
  end.

(* find_identifier, Absolute base: the root only *)
Definition lookup_abs (dirs : list string) (leaf : string) : option found := option_map Declared (find_in [] dirs leaf).

(* ---- the exporter ---- *)
Definition declares (s : list string) (n : string) : bool := (is_ns (n :: s) && live (n :: s)) || has s n.

Fixpoint hidden_ns (u : list string) (n : string) : bool :=
  match u with
  | [] => false
  | _ :: p => declares u n || hidden_ns p n
  end.

Definition hidden (u : list string) (n : string) : bool := inner n || hidden_ns u n.

Record path := { p_abs : bool; p_dirs : list string; p_leaf : string }.

(* get_name_qualified for the symbol `leaf` declared in namespace t, used from namespace u *)
Definition emit (u t : list string) (leaf : string) : path :=
  let dirs := rev t in
  {| p_abs := hidden u (hd leaf dirs); p_dirs := dirs; p_leaf := leaf |}.

Definition resolve (frames : list (string -> bool)) (u : list string) (p : path) : option found :=
  if p_abs p then lookup_abs (p_dirs p) (p_leaf p) else lookup_from frames u (p_dirs p) (p_leaf p).

(* what the exporters did before: never anchored *)
Definition emit_relative (t : list string) (leaf : string) : path := {| p_abs := false; p_dirs := rev t; p_leaf := leaf |}.
End Scopes.
