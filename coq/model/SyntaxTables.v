(* SyntaxTables.v — the printer and parser models of Syntax.v instantiated with the tables generated from
   the sources (GenSyntax.v).  No proofs in this file. *)
From Coq Require Import List NArith Bool String Ascii.
From RV Require Import Syntax GenSyntax.
Import ListNotations.
Local Open Scope string_scope.

Definition find_un (o : string) : option (string * N * string * bool) :=
  find (fun r => match r with (n, _, _, _) => String.eqb n o end) unops.
Definition find_bin (o : string) : option (string * N * string * nat * string) :=
  find (fun r => match r with (n, _, _, _, _) => String.eqb n o end) binops.

Definition t_un_prec (o : string) : N := match find_un o with Some (_, p, _, _) => p | None => 0%N end.
Definition t_un_sp (o : string) : string := match find_un o with Some (_, _, s, _) => s | None => "?" end.
Definition t_un_post (o : string) : bool := match find_un o with Some (_, _, _, b) => b | None => false end.
Definition t_bin_prec (o : string) : N := match find_bin o with Some (_, p, _, _, _) => p | None => 0%N end.
Definition t_bin_sp (o : string) : string := match find_bin o with Some (_, _, s, _, _) => s | None => "?" end.
Definition t_bin_level (o : string) : nat := match find_bin o with Some (_, _, _, l, _) => l | None => 0 end.
Definition t_bin_tight (o : string) : bool := String.eqb o binop_without_space_before.

Definition misc (k : string) : N :=
  match find (fun r => String.eqb (fst r) k) misc_prec with Some (_, p) => p | None => 0%N end.

Definition t_assoc (p : N) : assoc :=
  match find (fun r => match r with (lo, hi, _) => (lo <=? p)%N && (p <=? hi)%N end) assoc_rows with
  | Some (_, _, k) => if String.eqb k "LeftToRight" then L2R else if String.eqb k "RightToLeft" then R2L else ANone
  | None => ANone
  end.

Definition side_of_name (s : string) : side :=
  if String.eqb s "Left" then SLeft else if String.eqb s "Right" then SRight
  else if String.eqb s "Middle" then SMiddle else SCommaList.

Definition t_sides (kind : string) : list side :=
  match find (fun r => String.eqb (fst r) kind) sub_calls with
  | Some (_, calls) => map (fun c => match c with (_, _, s) => side_of_name s end) calls
  | None => []
  end.

Definition outer_of_call (i : nat) : N :=
  match find (fun r => String.eqb (fst r) "Call") sub_calls with
  | Some (_, calls) =>
      match nth_error calls i with
      | Some (_, o, _) =>
          (* decimal literal in the source *)
          (fix go (s : string) (acc : N) : N :=
             match s with
             | EmptyString => acc
             | String c r => go r (acc * 10 + (N_of_ascii c - 48))%N
             end) o 0%N
      | None => 0%N
      end
  | None => 0%N
  end.

Definition t_sep_chars : list ascii :=
  flat_map (fun s => match s with String c _ => [c] | EmptyString => [] end) prefix_separated_chars.

Definition top_outer : N := 4294967295%N.    (* u32::MAX, checked against top_call in the obligations *)

Definition t_fmt : expr -> N -> side -> list item :=
  fmt t_un_prec t_un_sp t_un_post t_bin_prec t_bin_sp t_bin_tight
      (misc "Identifier") (misc "TernaryConditional") (misc "ArraySubscript") (misc "Member") (misc "Call") (misc "Cast")
      (outer_of_call 0) (outer_of_call 1) t_assoc t_sep_chars t_sides.

Definition t_print (e : expr) : list item := t_fmt e top_outer (side_of_name (snd top_call)).

Definition t_prefix_of (s : string) : option string :=
  match find (fun r => String.eqb (snd r) s) parser_prefix with Some (n, _) => Some n | None => None end.
Definition t_postfix_of (s : string) : option string :=
  match find (fun r => String.eqb (snd r) s) parser_postfix with Some (n, _) => Some n | None => None end.
Definition t_bin_at (n : nat) (s : string) : option string :=
  match find (fun r => match r with (_, _, _, l, t) => Nat.eqb l n && String.eqb t s end) binops with
  | Some (name, _, _, _, _) => Some name
  | None => None
  end.

Definition t_parse (G : string -> bool) (ts : list tok) : res :=
  parse_top G t_prefix_of t_postfix_of t_bin_at ts.

Fixpoint nodupb {A} (eqb : A -> A -> bool) (l : list A) : bool :=
  match l with
  | [] => true
  | x :: r => negb (existsb (eqb x) r) && nodupb eqb r
  end.

(* ---- the tables as the proofs see them ---- *)
Definition un_names : list string := map (fun r : string * N * string * bool => let '(n, _, _, _) := r in n) unops.
Definition bin_names : list string := map (fun r : string * N * string * nat * string => let '(n, _, _, _, _) := r in n) binops.
Definition t_uop (o : string) : bool := existsb (String.eqb o) un_names.
Definition t_bop (o : string) : bool := existsb (String.eqb o) bin_names.
(* levels: expr_p3 .. expr_p12 are 3 .. 12, expr_p14 is 13, expr_p15 is 14 *)
Definition t_blv (o : string) : nat := let l := t_bin_level o in if Nat.leb l 12 then l else Nat.pred l.

Fixpoint nodupN (l : list N) : list N :=
  match l with
  | [] => []
  | x :: r => if existsb (N.eqb x) r then nodupN r else x :: nodupN r
  end.
Definition t_precs : list N :=
  nodupN (map snd misc_prec ++ map (fun r : string * N * string * bool => let '(_, p, _, _) := r in p) unops
          ++ map (fun r : string * N * string * nat * string => let '(_, p, _, _, _) := r in p) binops).
(* the level a precedence stands for: the number of distinct precedences below it *)
Definition t_lvN (p : N) : nat := List.length (filter (fun q => N.ltb q p) t_precs).

Definition t_requires_paren := requires_paren t_assoc.
Definition t_side (kind : string) (i : nat) : side := side_at t_sides kind i.
Definition ctx_okb (outer : N) (s : side) (c : nat) : bool :=
  forallb (fun p => Bool.eqb (t_requires_paren p outer s) (negb (Nat.leb (t_lvN p) c))) t_precs.
