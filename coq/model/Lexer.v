(* Lexer.v — executable model of preprocess/src/lexer.rs: token_intermediate and the recognisers it
   chooses from, and TokenStream (spans, synthetic trailing Endline).  No proofs in this file.
   The keyword, symbol and suffix tables are Section variables (regenerated: gen/GenLexer.v). *)
From Coq Require Import List NArith Bool String Ascii Arith.
Import ListNotations.
Local Open Scope string_scope.

Inductive fkind := FNone | FHalf | FFloat | FDouble.

Inductive tok :=
| TEndline | TPhysicalEndline | TWhitespace | TComment
| TId (s : string)
| TKeyword (variant : string)            (* Token::If ... the variant name *)
| TReserved (s : string)
| TInt (variant : string) (v : N)        (* LiteralInt / LiteralIntUnsigned32 / LiteralIntUnsigned64 / LiteralIntSigned64 *)
| TFloat (k : fkind) (text : string)     (* decimal text "digits[.digits][e[+-]digits]"; its value is C10's reference conversion *)
| TInf (k : fkind)
| TString (s : string)
| THeader (s : string)
| TLAngle (followed_by_token : bool)
| TRAngle (followed_by_token : bool)
| TSym (variant : string).

Definition is_ws (t : tok) : bool :=      (* Token::is_whitespace *)
  match t with TEndline | TPhysicalEndline | TWhitespace | TComment => true | _ => false end.

Inductive lerr :=
| UnexpectedBytes | OtherTokenBytes | EndOfStream | FloatInvalidSuffix | IntegerLiteralTooLarge
| StringWrapsLine | StringWrapsFile | StringInvalid | HeaderNameWrapsLine | HeaderNameWrapsFile | HeaderInvalid.

(* Ok: token and number of bytes consumed; Err: reason and offset of the failure point from the token start *)
Inductive lres := LOk (t : tok) (len : nat) | LErr (e : lerr) (off : nat).

Definition code (c : ascii) : N := N_of_ascii c.
Definition is_digit (c : ascii) : bool := (48 <=? code c)%N && (code c <=? 57)%N.
Definition is_octal (c : ascii) : bool := (48 <=? code c)%N && (code c <=? 55)%N.
Definition hex_val (c : ascii) : option N :=
  let n := code c in
  if (48 <=? n)%N && (n <=? 57)%N then Some (n - 48)%N
  else if (65 <=? n)%N && (n <=? 70)%N then Some (n - 55)%N
  else if (97 <=? n)%N && (n <=? 102)%N then Some (n - 87)%N
  else None.
Definition is_alpha_ (c : ascii) : bool :=
  let n := code c in
  ((65 <=? n)%N && (n <=? 90)%N) || ((97 <=? n)%N && (n <=? 122)%N) || (n =? 95)%N.
Definition is_ident_char (c : ascii) : bool := is_alpha_ c || is_digit c.

(* longest prefix whose characters satisfy p: (prefix, rest) *)
Fixpoint span (p : ascii -> bool) (s : string) : string * string :=
  match s with
  | String c r => if p c then let (a, b) := span p r in (String c a, b) else (EmptyString, s)
  | EmptyString => (EmptyString, EmptyString)
  end.

Definition two64 : N := 18446744073709551616%N.

(* digits / digits_hex / digits_octal: checked accumulation, None = does not fit in 64 bits *)
Fixpoint accum (base : N) (dv : ascii -> option N) (s : string) (acc : N) : option N :=
  match s with
  | EmptyString => Some acc
  | String c r =>
      match dv c with
      | Some d => let v := (acc * base + d)%N in if (v <? two64)%N then accum base dv r v else None
      | None => Some acc
      end
  end.
Definition dec_val (c : ascii) : option N := if is_digit c then Some (code c - 48)%N else None.
Definition oct_val (c : ascii) : option N := if is_octal c then Some (code c - 48)%N else None.

Definition starts_with (p s : string) : bool := String.prefix p s.
Fixpoint drop (n : nat) (s : string) : string :=
  match n, s with
  | S k, String _ r => drop k r
  | _, _ => s
  end.
Definition slen := String.length.

Section Lex.
Variable keywords : list (string * string).
Variable reserved_words : list string.
Variable symbols : list (N * string * option string * option string).
Variable int_suffixes : list (list (list N) * string).
Variable float_suffixes : list (list N * string).

(* int_type: first suffix pattern that matches; (IntType, length) *)
Fixpoint match_chars (alts : list (list N)) (s : string) : bool :=
  match alts, s with
  | [], _ => true
  | a :: r, String c t => existsb (N.eqb (code c)) a && match_chars r t
  | _ :: _, EmptyString => false
  end.
Definition int_suffix (s : string) : option (string * nat) :=
  option_map (fun '(alts, k) => (k, List.length alts)) (find (fun '(alts, _) => match_chars alts s) int_suffixes).
Definition float_suffix (s : string) : option (string * nat) :=
  match s with
  | String c _ => option_map (fun '(_, k) => (k, 1%nat)) (find (fun '(cs, _) => existsb (N.eqb (code c)) cs) float_suffixes)
  | EmptyString => None
  end.

Definition i64_max : N := 9223372036854775807%N.

(* make_int_token *)
Definition int_token (suffix : option string) (v : N) : option tok :=
  match suffix with
  | None => Some (TInt "LiteralInt" v)
  | Some k =>
      if String.eqb k "Unsigned32" then Some (TInt "LiteralIntUnsigned32" v)
      else if String.eqb k "Unsigned64" then Some (TInt "LiteralIntUnsigned64" v)
      else if (v <=? i64_max)%N then Some (TInt "LiteralIntSigned64" v) else None
  end.

(* literal_int on input starting with a digit *)
Definition lex_int (s : string) : lres :=
  let go := fun (skip : nat) (base : N) (dv : ascii -> option N) =>
    let body := drop skip s in
    let (ds, rest) := span (fun c => match dv c with Some _ => true | None => false end) body in
    match ds with
    | EmptyString => match body with EmptyString => LErr EndOfStream (slen s) | _ => LErr UnexpectedBytes skip end
    | _ =>
        match accum base dv ds 0%N with
        | None => LErr IntegerLiteralTooLarge skip
        | Some v =>
            let suf := int_suffix rest in
            match int_token (option_map fst suf) v with
            | Some t => LOk t (skip + slen ds + match suf with Some (_, n) => n | None => 0 end)
            | None => LErr IntegerLiteralTooLarge skip
            end
        end
    end in
  if starts_with "0x" s then go 2%nat 16%N hex_val
  else match s with
       | String z (String c _) => if Ascii.eqb z "0" && is_octal c then go 1%nat 8%N oct_val else go 0%nat 10%N dec_val
       | _ => go 0%nat 10%N dec_val
       end.

Definition fkind_of (o : option string) : fkind :=
  match o with
  | None => FNone
  | Some k => if String.eqb k "Half" then FHalf else if String.eqb k "Float" then FFloat else FDouble
  end.

Variable float_is_zero : string -> bool.     (* whether the decimal text converts to 0.0 (C10 reference conversion) *)

(* float_exponent: Some length of "e[+-]digits" when present and the digits fit in 64 bits *)
Definition lex_exponent (s : string) : option nat :=
  match s with
  | String c r =>
      if Ascii.eqb c "e" || Ascii.eqb c "E" then
        let (sg, r1) := match r with
                        | String d r' => if Ascii.eqb d "+" || Ascii.eqb d "-" then (1%nat, r') else (0%nat, r)
                        | EmptyString => (0%nat, r)
                        end in
        let (ds, _) := span is_digit r1 in
        match ds with
        | EmptyString => None
        | _ => match accum 10%N dec_val ds 0%N with Some _ => Some (1 + sg + slen ds)%nat | None => None end
        end
      else None
  | EmptyString => None
  end.

(* literal_float on input starting with a digit *)
Definition lex_float (s : string) : lres :=
  let (whole, r1) := span is_digit s in
  let (has_fraction, mant_len) :=
    match r1 with
    | String d r2 => if Ascii.eqb d "." then let (fr, _) := span is_digit r2 in (true, (slen whole + 1 + slen fr)%nat)
                     else (false, slen whole)
    | EmptyString => (false, slen whole)
    end in
  let r3 := drop mant_len s in
  let exp_len := lex_exponent r3 in
  match has_fraction, exp_len with
  | false, None => LErr OtherTokenBytes 0
  | _, _ =>
      let text_len := (mant_len + match exp_len with Some n => n | None => 0 end)%nat in
      let text := String.substring 0 text_len s in
      let r4 := drop text_len s in
      let inf := starts_with "#INF" r4 in
      if inf && (float_is_zero text || match exp_len with Some _ => true | None => false end)
      then LErr FloatInvalidSuffix text_len
      else
        let after_inf := if inf then (text_len + 4)%nat else text_len in
        let r5 := drop after_inf s in
        let suf := float_suffix r5 in
        let k := fkind_of (option_map fst suf) in
        let total := (after_inf + match suf with Some (_, n) => n | None => 0 end)%nat in
        match drop total s with
        | String c _ =>
            if is_ident_char c then
              (if Ascii.eqb c "x" then LErr OtherTokenBytes 0 else LErr FloatInvalidSuffix text_len)
            else LOk (if inf then TInf k else TFloat k text) total
        | EmptyString => LOk (if inf then TInf k else TFloat k text) total
        end
  end.

Definition lex_word (s : string) : lres :=
  let (w, _) := span is_ident_char s in
  let t := match find (fun '(k, _) => String.eqb k w) keywords with
           | Some (_, v) => TKeyword v
           | None => if existsb (String.eqb w) reserved_words then TReserved w else TId w
           end in
  LOk t (slen w).

(* position of the first occurrence of c *)
Fixpoint index_of (c : ascii) (s : string) : option nat :=
  match s with
  | EmptyString => None
  | String d r => if Ascii.eqb c d then Some 0%nat else option_map S (index_of c r)
  end.
Fixpoint contains (c : ascii) (s : string) : bool :=
  match s with EmptyString => false | String d r => Ascii.eqb c d || contains c r end.
Definition all_ascii (s : string) : bool := forallb (fun c => (code c <? 128)%N) (list_ascii_of_string s).
Variable utf8_ok : string -> bool.           (* std::str::from_utf8 succeeds *)

Definition lex_quoted (close : ascii) (mk : string -> tok) (e_line e_file e_bad : lerr) (s : string) : lres :=
  (* s starts with the opening delimiter *)
  match index_of close (drop 1 s) with
  | None => LErr e_file 0
  | Some pos =>
      let inner := String.substring 1 pos s in
      if negb (utf8_ok inner) then LErr e_bad 0
      else if contains "010"%char inner then LErr e_line 0
      else LOk (mk inner) (pos + 2)
  end.

(* line_comment: returns the consumed length *)
Fixpoint line_comment_len (s : string) : nat :=
  match s with
  | EmptyString => 0
  | String c r =>
      if Ascii.eqb c "010" then 0
      else if Ascii.eqb c "013" && starts_with (String "010" EmptyString) r then 0
      else if Ascii.eqb c "\" then
        match r with
        | String d r' =>
            if Ascii.eqb d "010" then 2 + line_comment_len r'
            else match r' with
                 | String e r'' => if Ascii.eqb d "013" && Ascii.eqb e "010" then 3 + line_comment_len r''
                                   else 1 + line_comment_len r
                 | EmptyString => 1 + line_comment_len r
                 end
        | EmptyString => 1
        end
      else 1 + line_comment_len r
  end.

(* block_comment: length up to and including the closing "*/", or None *)
Fixpoint block_end (s : string) : option nat :=
  match s with
  | String c r =>
      match r with
      | String d _ => if Ascii.eqb c "*" && Ascii.eqb d "/" then Some 2%nat else option_map S (block_end r)
      | EmptyString => None
      end
  | EmptyString => None
  end.

Definition lex_symbol (c : ascii) (r : string) : option (tok * nat) :=
  match find (fun '(b, _, _, _) => N.eqb b (code c)) symbols with
  | None => None
  | Some (_, t1, teq, tdbl) =>
      match r with
      | String d _ =>
          match teq, tdbl with
          | Some t, _ => if Ascii.eqb d "=" then Some (TSym t, 2%nat)
                         else match tdbl with
                              | Some t2 => if Ascii.eqb d c then Some (TSym t2, 2%nat) else Some (TSym t1, 1%nat)
                              | None => Some (TSym t1, 1%nat)
                              end
          | None, Some t2 => if Ascii.eqb d c then Some (TSym t2, 2%nat) else Some (TSym t1, 1%nat)
          | None, None => Some (TSym t1, 1%nat)
          end
      | EmptyString => Some (TSym t1, 1%nat)
      end
  end.

(* token_intermediate *)
Fixpoint tok_at (inc : bool) (s : string) {struct s} : lres :=
  match s with
  | EmptyString => LErr EndOfStream 0
  | String c r =>
      if is_digit c then
        match lex_float s with
        | LErr OtherTokenBytes _ => lex_int s
        | x => x
        end
      else if is_alpha_ c then lex_word s
      else if inc && Ascii.eqb c "<" then lex_quoted ">" THeader HeaderNameWrapsLine HeaderNameWrapsFile HeaderInvalid s
      else if Ascii.eqb c " " || Ascii.eqb c "009" then LOk TWhitespace 1
      else if Ascii.eqb c "010" then LOk TEndline 1
      else if Ascii.eqb c "013" then
        match r with
        | String d _ => if Ascii.eqb d "010" then LOk TEndline 2 else LErr UnexpectedBytes 0
        | EmptyString => LErr UnexpectedBytes 0
        end
      else if Ascii.eqb c "\" then
        match r with
        | String d r' =>
            if Ascii.eqb d "010" then LOk TPhysicalEndline 2
            else match r' with
                 | String e _ => if Ascii.eqb d "013" && Ascii.eqb e "010" then LOk TPhysicalEndline 3 else LErr UnexpectedBytes 0
                 | EmptyString => LErr UnexpectedBytes 0
                 end
        | EmptyString => LErr UnexpectedBytes 0
        end
      else if Ascii.eqb c "/" && starts_with "/" r then LOk TComment (2 + line_comment_len (drop 1 r))
      else if Ascii.eqb c "/" && starts_with "*" r then
        match block_end (drop 1 r) with
        | Some n => LOk TComment (2 + n)
        | None => LErr EndOfStream (slen s)
        end
      else if Ascii.eqb c """" then lex_quoted """" TString StringWrapsLine StringWrapsFile StringInvalid s
      else if Ascii.eqb c "<" then
        LOk (TLAngle (match tok_at false r with LOk t _ => negb (is_ws t) | LErr _ _ => false end)) 1
      else if Ascii.eqb c ">" then
        LOk (TRAngle (match tok_at false r with LOk t _ => negb (is_ws t) | LErr _ _ => false end)) 1
      else match lex_symbol c r with
           | Some (t, n) => LOk t n
           | None => LErr UnexpectedBytes 0
           end
  end.

(* TokenStream::read_to_end: spans are (start, end) offsets into the file; the synthetic final Endline is empty *)
Inductive stream_res := SOk (ts : list (tok * nat * nat)) | SErr (e : lerr) (off : nat).

Fixpoint lex_all (fuel : nat) (s : string) (off : nat) (last_endline : bool) (acc : list (tok * nat * nat)) : stream_res :=
  match fuel with
  | O => SErr OtherTokenBytes off                        (* out of fuel: excluded by lex_all_fuel *)
  | S fuel =>
      match s with
      | EmptyString =>
          if last_endline then SOk (rev acc) else SOk (rev ((TEndline, off, off) :: acc))
      | _ =>
          match tok_at false s with
          | LOk t n =>
              lex_all fuel (drop n s) (off + n) (match t with TEndline => true | _ => false end) ((t, off, off + n) :: acc)
          | LErr e k => SErr e (off + k)
          end
      end
  end.

Definition lex_file (s : string) : stream_res := lex_all (S (slen s)) s 0 true [].

End Lex.
