(* Numbers.v — the reference value of numeric literals: exact integers, and the double nearest to a
   decimal text (Flocq), narrowed once to single precision for the f/h suffixes.  No proofs in this file. *)
From Coq Require Import List ZArith NArith Bool String Ascii.
From Coq Require Import Floats.SpecFloat.
From Flocq Require Import Core IEEE754.BinarySingleNaN.
From RV Require Import Lexer.
Import ListNotations.
Local Open Scope Z_scope.

(* digits as a natural number, most significant first *)
Fixpoint digits_val (s : string) (acc : N) : N :=
  match s with
  | EmptyString => acc
  | String c r => if is_digit c then digits_val r (acc * 10 + (code c - 48))%N else acc
  end.

(* decimal text "ddd[.ddd][e[+-]ddd]" -> (mantissa, decimal exponent) with value = mantissa * 10^exponent *)
Definition parse_decimal (s : string) : N * Z :=
  let (whole, r1) := span is_digit s in
  let (frac, r2) := match r1 with String "." r => span is_digit r | _ => (EmptyString, r1) end in
  let e10 :=
    match r2 with
    | String c r =>
        if (Ascii.eqb c "e" || Ascii.eqb c "E")%bool then
          match r with
          | String "-" r' => - Z.of_N (digits_val r' 0%N)
          | String "+" r' => Z.of_N (digits_val r' 0%N)
          | _ => Z.of_N (digits_val r 0%N)
          end
        else 0
    | EmptyString => 0
    end in
  (digits_val (whole ++ frac) 0%N, e10 - Z.of_nat (String.length frac)).

(* the double nearest (ties to even) to m * 10^e; infinity on overflow *)
Definition dec2f64_core (m : N) (e : Z) : spec_float :=
  match m with
  | N0 => S754_zero false
  | Npos p =>
      if 0 <=? e then
        B2SF (binary_normalize 53 1024 eq_refl eq_refl mode_NE (Zpos p * 10 ^ e) 0 false)
      else
        let '(mz, ez, lz) := SFdiv_core_binary 53 1024 (Zpos p) 0 (10 ^ (- e)) 0 in
        binary_round_aux 53 1024 mode_NE false mz ez lz
  end.

(* number of decimal digits of m (0 for 0), over-approximated by one at most *)
Definition ndigits (m : N) : Z := match m with N0 => 0 | Npos p => Z.log2 (Zpos p) * 30103 / 100000 + 1 end.

(* executable form: exponents far outside the double range are decided without building 10^|e|
   (m * 10^e < 10^(digits+e): below 10^-400 it rounds to zero; m >= 1 and e > 400 overflows).
   Inside -400 <= digits+e and e <= 400 — which contains every literal the property quantifies over —
   this is dec2f64_core itself. *)
Definition dec2f64 (m : N) (e : Z) : spec_float :=
  match m with
  | N0 => S754_zero false
  | _ => if ndigits m + e <? -400 then S754_zero false
         else if 400 <? e then S754_infinity false
         else dec2f64_core m e
  end.

(* `as f32`: one more rounding to nearest even *)
Definition narrow32 (x : spec_float) : spec_float :=
  match x with
  | S754_finite s m e => B2SF (binary_normalize 24 128 eq_refl eq_refl mode_NE (cond_Zopp s (Zpos m)) e s)
  | other => other
  end.

(* IEEE interchange encoding of a spec_float with mw mantissa bits and ew exponent bits *)
Definition bits_of_sf (mw ew : Z) (x : spec_float) : Z :=
  let emin := 3 - 2 ^ (ew - 1) - (mw + 1) in
  let join := fun (s : bool) (m e : Z) => ((if s then 2 ^ ew else 0) + e) * 2 ^ mw + m in
  match x with
  | S754_zero s => join s 0 0
  | S754_infinity s => join s 0 (2 ^ ew - 1)
  | S754_nan => join false (2 ^ (mw - 1)) (2 ^ ew - 1)
  | S754_finite s m e =>
      let m' := Zpos m - 2 ^ mw in
      if 0 <=? m' then join s m' (e - emin + 1) else join s (Zpos m) 0
  end.
Definition bits64 := bits_of_sf 52 11.
Definition bits32 := bits_of_sf 23 8.

Definition float_value (text : string) : spec_float := let (m, e) := parse_decimal text in dec2f64 m e.
Definition float_is_zero (text : string) : bool :=
  match float_value text with S754_zero _ => true | _ => false end.

(* the value carried by a float token: f64 bits for no suffix / l, f32 bits for f / h *)
Definition token_float_bits (k : fkind) (text : string) : Z :=
  match k with
  | FNone | FDouble => bits64 (float_value text)
  | _ => bits32 (narrow32 (float_value text))
  end.
