(* Pipeline.v — executable model of the pipeline loop of rssl::compile (src/compile.rs): no-pipeline mode, the name
   filter, the error exits and the panic on a duplicated name.  The front end and build_pipeline are parameters.
   No proofs in this file. *)
From Coq Require Import List Bool String.
Import ListNotations.

Section Driver.
Variable P : Type.                       (* a pipeline definition of the module *)
Variable pname : P -> string.
Variable R E : Type.                     (* a compiled pipeline, a build error *)
Variable build : option P -> R + E.      (* build_pipeline on a clone of the module with that pipeline selected *)

Inductive outcome :=
| Done (rs : list R)
| BuildError (e : E)
| NotFound (n : string)                  (* "Shader does not contain the pipeline: n" *)
| NoPipelines                            (* "Shader does not contain a single pipeline" *)
| PanicDuplicate (n : string).           (* panic!("Multiple pipelines with the given name") *)

Definition wanted (filter : option string) (p : P) : bool :=
  match filter with Some n => String.eqb (pname p) n | None => true end.

(* the `for pipeline in &ir.pipelines` loop with `?` on each build *)
Fixpoint build_all (ps : list P) (acc : list R) : list R + E :=
  match ps with
  | [] => inl (rev acc)
  | p :: r => match build (Some p) with inl x => build_all r (x :: acc) | inr e => inr e end
  end.

Definition compile (pipes : list P) (filter : option string) (no_pipeline_mode : bool) : outcome :=
  let built :=
    if no_pipeline_mode then (match build None with inl x => inl [x] | inr e => inr e end)
    else build_all (List.filter (wanted filter) pipes) [] in
  match built with
  | inr e => BuildError e
  | inl rs =>
      match filter with
      | Some n =>
          if Nat.ltb 1 (List.length rs) then PanicDuplicate n
          else if Nat.eqb (List.length rs) 0 then NotFound n
          else Done rs
      | None => if Nat.eqb (List.length rs) 0 && negb no_pipeline_mode then NoPipelines else Done rs
      end
  end.
End Driver.
