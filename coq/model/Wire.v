(* Wire.v — line-oriented text format shared by the extracted model drivers and
   the Rust harness.  A case is one line of space-separated words; numbers are
   decimal.  Everything here is plain executable Gallina; nothing in here is
   part of any theorem statement (it is glue for the correspondence run). *)
From Coq Require Import List NArith ZArith Bool String Ascii DecimalString.
Import ListNotations.
Local Open Scope string_scope.

Definition rev_string (cur : list ascii) : string := string_of_list_ascii (rev_append cur []).

(* cur holds the characters of the current field in reverse *)
Fixpoint split_acc (sep : ascii) (s : string) (cur : list ascii) (acc : list string) : list string :=
  match s with
  | EmptyString => rev_append (rev_string cur :: acc) []   (* List.rev is quadratic *)
  | String c r =>
      if Ascii.eqb c sep then split_acc sep r [] (rev_string cur :: acc)
      else split_acc sep r (c :: cur) acc
  end.

(* split on a separator, keeping empty fields *)
Definition split (sep : ascii) (s : string) : list string := split_acc sep s [] [].

(* split on spaces, dropping empty words *)
Definition words (s : string) : list string :=
  filter (fun w => negb (String.eqb w EmptyString)) (split " "%char s).

Definition digit_of (c : ascii) : option N :=
  let n := N_of_ascii c in
  if (48 <=? n)%N && (n <=? 57)%N then Some (n - 48)%N else None.

Fixpoint parse_N_acc (s : string) (acc : N) : option N :=
  match s with
  | EmptyString => Some acc
  | String c r => match digit_of c with
                  | Some d => parse_N_acc r (acc * 10 + d)%N
                  | None => None
                  end
  end.

Definition parse_N (s : string) : option N :=
  match s with EmptyString => None | _ => parse_N_acc s 0%N end.

Definition parse_Z (s : string) : option Z :=
  match s with
  | String "-"%char r => option_map (fun n => Z.opp (Z.of_N n)) (parse_N r)
  | _ => option_map Z.of_N (parse_N s)
  end.

(* "-" for None *)
Definition parse_optN (s : string) : option (option N) :=
  if String.eqb s "-" then Some None else option_map Some (parse_N s).

Definition parse_bool (s : string) : option bool :=
  if String.eqb s "1" then Some true else if String.eqb s "0" then Some false else None.

Definition show_N (n : N) : string := NilZero.string_of_uint (N.to_uint n).
Definition show_Z (z : Z) : string :=
  match z with
  | Zneg p => "-" ++ show_N (Npos p)
  | _ => show_N (Z.to_N z)
  end.
Definition show_bool (b : bool) : string := if b then "1" else "0".
Definition show_optN (o : option N) : string := match o with None => "-" | Some n => show_N n end.

Fixpoint join (sep : string) (l : list string) : string :=
  match l with
  | [] => ""
  | [x] => x
  | x :: r => x ++ sep ++ join sep r
  end.

Definition unwords := join " ".

(* option monad notation for the parsers *)
Definition obind {A B} (o : option A) (f : A -> option B) : option B :=
  match o with Some a => f a | None => None end.
Notation "x <- e ;; k" := (obind e (fun x => k)) (at level 61, e at next level, right associativity).

Fixpoint take_n {A} (n : nat) (l : list A) : option (list A * list A) :=
  match n with
  | O => Some ([], l)
  | S k => match l with
           | [] => None
           | x :: r => match take_n k r with
                       | Some (a, b) => Some (x :: a, b)
                       | None => None
                       end
           end
  end.

Fixpoint omap {A B} (f : A -> option B) (l : list A) : option (list B) :=
  match l with
  | [] => Some []
  | x :: r => match f x, omap f r with
              | Some y, Some ys => Some (y :: ys)
              | _, _ => None
              end
  end.
