(* Driver.v — the preprocessor's file driver with the nesting limit of #include (preprocess/src/preprocess.rs:
   MAX_INCLUDE_DEPTH, FileLoader::include_depth).  Unlike Macro.run it needs no fuel: it is structurally recursive on
   the remaining depth (one level per #include) and, inside a file, on the list of items, so it is total by
   construction whatever the files contain (a file that includes itself, cycles, ...).  No proofs in this file. *)
From Coq Require Import List NArith Bool String.
From RV Require Import Macro.
Import ListNotations.

Section Driver.
Variable paste : mtok -> mtok -> option mtok.
Variable files : string -> option (list item).

Inductive derr := DMacro (e : merr) | DInvalidDefine | DMissingFile | DTooDeep | DFuel | DHang.

Fixpoint run_d (depth : nat) : string -> list item -> pstate -> pstate + derr :=
  fix go (self : string) (its : list item) (st : pstate) {struct its} : pstate + derr :=
    match its with
    | [] => inl st
    | it :: rest =>
        match it with
        | IText ts =>
            match apply_macros paste (ps_macros st) ts with
            | XOk out => go self rest {| ps_macros := ps_macros st; ps_once := ps_once st; ps_out := ps_out st ++ out |}
            | XErr e => inr (DMacro e)
            | XFuel => inr DFuel
            | XHang => inr DHang
            end
        | IDefine cmd =>
            match parse_define cmd with
            | Some m => go self rest {| ps_macros := remove_macro (m_name m) (ps_macros st) ++ [m];
                                       ps_once := ps_once st; ps_out := ps_out st |}
            | None => inr DInvalidDefine
            end
        | IUndef x => go self rest {| ps_macros := remove_macro x (ps_macros st); ps_once := ps_once st; ps_out := ps_out st |}
        | IPragmaOnce => go self rest {| ps_macros := ps_macros st; ps_once := self :: ps_once st; ps_out := ps_out st |}
        | IInclude f =>
            match files f with
            | None => inr DMissingFile
            | Some body =>
                match depth with
                | O => inr DTooDeep          (* include_depth >= MAX_INCLUDE_DEPTH *)
                | S d =>
                    let body' := if existsb (String.eqb f) (ps_once st) then [] else body in
                    match run_d d f body' st with
                    | inl st' => go self rest st'
                    | inr e => inr e
                    end
                end
            end
        end
    end.

(* MAX_INCLUDE_DEPTH *)
Definition max_include_depth : nat := 200.
Definition preprocess_d (entry : string) (its : list item) : pstate + derr :=
  run_d max_include_depth entry its {| ps_macros := []; ps_once := []; ps_out := [] |}.
End Driver.
