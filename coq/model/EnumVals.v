(* EnumVals.v — the values of an enum's enumerators (typer/src/typer/enums.rs parse_rootdefinition_enum, and the
   selection of the underlying type in typer/src/typer/scopes.rs end_enum).  No proofs in this file.
   An enumerator without an initialiser takes the value of its predecessor plus one; the code keeps the predecessor's
   typed constant while the sum fits and moves to an untyped integer when it does not; afterwards the underlying type
   is chosen from the range of all values (with 0) and every value is converted to it. *)
From Coq Require Import List ZArith Bool.
From RV Require Import EvalSem.
Import ListNotations.
Local Open Scope Z_scope.

(* mirror of the `match last_value.0` in parse_rootdefinition_enum; None = the panic arm *)
Definition enum_next (c : const) : option const :=
  match c with
  | VInt KIntLiteral v => Some (VInt KIntLiteral (v + 1))
  | VInt KInt32 v => if in_range KInt32 (v + 1) then Some (VInt KInt32 (v + 1)) else Some (VInt KIntLiteral (v + 1))
  | VInt KUInt32 v => if in_range KUInt32 (v + 1) then Some (VInt KUInt32 (v + 1)) else Some (VInt KIntLiteral (v + 1))
  | VBool b => Some (VInt KIntLiteral ((if b then 1 else 0) + 1))
  | _ => None
  end.

(* the integer an enum value stands for (the match in end_enum); None = its panic arm *)
Definition enum_int (c : const) : option Z :=
  match c with
  | VBool b => Some (if b then 1 else 0)
  | VInt KIntLiteral v | VInt KInt32 v | VInt KUInt32 v | VInt KInt64 v | VInt KUInt64 v => Some v
  | _ => None
  end.

(* the first enumerator is given; n more follow without initialisers *)
Fixpoint enum_fill (c : const) (n : nat) : option (list const) :=
  match n with
  | O => Some [c]
  | S n => match enum_next c with
           | Some c' => option_map (cons c) (enum_fill c' n)
           | None => None
           end
  end.

Fixpoint all_some {A} (l : list (option A)) : option (list A) :=
  match l with
  | [] => Some []
  | Some x :: r => option_map (cons x) (all_some r)
  | None :: _ => None
  end.

(* end_enum: the range of all values and 0 decides between int and uint; None = EnumTypeCanNotBeDeduced *)
Definition enum_type (zs : list Z) : option ckind :=
  let mn := fold_right Z.min 0 zs in
  let mx := fold_right Z.max 0 zs in
  if (lo KInt32 <=? mn) && (mx <=? hi KInt32) then Some KInt32
  else if (lo KUInt32 <=? mn) && (mx <=? hi KUInt32) then Some KUInt32
  else None.

Inductive enum_res := EnumOk (k : ckind) (vs : list Z) | EnumNoType | EnumPanic.

(* what the code computes: `value as i32` / `value as u32` of every value *)
Definition enum_impl (first : const) (n : nat) : enum_res :=
  match enum_fill first n with
  | None => EnumPanic
  | Some cs =>
      match all_some (map enum_int cs) with
      | None => EnumPanic
      | Some zs => match enum_type zs with
                   | Some k => EnumOk k (map (wrap k) zs)
                   | None => EnumNoType
                   end
      end
  end.

(* what the language defines: consecutive integers from the first value, exactly *)
Definition enum_ref (first : const) (n : nat) : enum_res :=
  match enum_int first with
  | None => EnumPanic
  | Some z0 =>
      let zs := map (fun i => z0 + Z.of_nat i) (seq 0 (S n)) in
      match enum_type zs with
      | Some k => EnumOk k zs
      | None => EnumNoType
      end
  end.

(* a first value the type checker can hand over: a bool, an untyped integer, or an int / uint inside its range *)
Definition enum_first_ok (c : const) : bool :=
  match c with
  | VBool _ => true
  | VInt KIntLiteral _ => true
  | VInt KInt32 v => in_range KInt32 v
  | VInt KUInt32 v => in_range KUInt32 v
  | _ => false
  end.
