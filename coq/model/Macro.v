(* Macro.v — executable model of macro definition and expansion in preprocess/src/preprocess.rs
   (Macro::parse, split_macro_args, apply_macros_internal, apply_single_macro, find_single_macro) and of
   the file-level driver for #define / #undef / #include / #pragma once / initial defines.
   Token pasting re-lexes text in the implementation; here it is a parameter `paste`.  No proofs in this file. *)
From Coq Require Import List NArith Bool String Arith.
Import ListNotations.
Local Open Scope list_scope.

Inductive mtok :=
| MId (s : string)
| MLP | MRP | MComma
| MWs                    (* whitespace or comment that does not end a line *)
| MEndl                  (* line end *)
| MLit (s : string)      (* literal, by spelling *)
| MSym (s : string)      (* other punctuation, by spelling (`##` outside macro bodies included) *)
| MConcat                (* `##` in a macro body *)
| MArg (i : nat).        (* parameter reference in a macro body *)

Definition is_ws (t : mtok) : bool := match t with MWs | MEndl => true | _ => false end.
Definition is_ws_inline (t : mtok) : bool := match t with MWs => true | _ => false end.   (* trim_whitespace*: "but not endlines" *)

Fixpoint trim_start (l : list mtok) : list mtok :=
  match l with
  | t :: r => if is_ws_inline t then trim_start r else l
  | [] => []
  end.
Definition trim_end (l : list mtok) : list mtok := rev (trim_start (rev l)).
Definition trim (l : list mtok) : list mtok := trim_end (trim_start l).

Record macro := { m_name : string; m_fn : bool; m_params : nat; m_body : list mtok }.

Inductive merr :=
| InvalidDefine | MacroArgumentsNeverEnd | MacroExpectsDifferentNumberOfArguments
| ConcatMissingLeftToken | ConcatMissingRightToken | ConcatFailed | MacroRequiresArguments.

(* ---------- Macro::parse ---------- *)
Fixpoint split_commas (l cur : list mtok) : list (list mtok) :=   (* cur reversed *)
  match l with
  | [] => [rev cur]
  | MComma :: r => rev cur :: split_commas r []
  | t :: r => split_commas r (t :: cur)
  end.

Fixpoint take_until_rp (l acc : list mtok) : option (list mtok * list mtok) :=   (* first `)` *)
  match l with
  | [] => None
  | MRP :: r => Some (rev acc, r)
  | t :: r => take_until_rp r (t :: acc)
  end.

Fixpoint index_of (x : string) (l : list string) (i : nat) : option nat :=
  match l with
  | [] => None
  | y :: r => if String.eqb x y then Some i else index_of x r (S i)
  end.

(* parameter names: every comma-separated piece must be one identifier; a single empty piece means no parameters *)
Fixpoint param_names (pieces : list (list mtok)) (acc : list string) : option (list string) :=
  match pieces with
  | [] => Some (rev acc)
  | p :: r =>
      match trim p with
      | [MId x] => param_names r (x :: acc)
      | [] => match acc, r with [], [] => Some [] | _, _ => None end
      | _ => None
      end
  end.

Definition body_token (params : list string) (t : mtok) : mtok :=
  match t with
  | MId x => match index_of x params 0 with Some i => MArg i | None => t end
  | MSym "##" => MConcat
  | _ => t
  end.

Definition parse_define (cmd : list mtok) : option macro :=
  match trim_start cmd with
  | MId name :: MLP :: rest =>
      match take_until_rp rest [] with
      | Some (ptoks, body) =>
          match param_names (split_commas ptoks []) [] with
          | Some ps => Some {| m_name := name; m_fn := true; m_params := List.length ps;
                               m_body := map (body_token ps) (trim body) |}
          | None => None
          end
      | None => None
      end
  | MId name :: rest =>
      Some {| m_name := name; m_fn := false; m_params := 0; m_body := map (body_token []) (trim rest) |}
  | _ => None
  end.

(* ---------- split_macro_args: tokens after the macro name -> (rest after `)`, arguments) ---------- *)
Fixpoint split_args_go (l cur : list mtok) (depth : nat) (acc : list (list mtok)) : option (list mtok * list (list mtok)) :=
  match l with
  | [] => None
  | MComma :: r =>
      if Nat.eqb depth 0 then split_args_go r [] 0 (trim (rev cur) :: acc)
      else split_args_go r (MComma :: cur) depth acc
  | MLP :: r => split_args_go r (MLP :: cur) (S depth) acc
  | MRP :: r =>
      match depth with
      | O => Some (r, rev (trim (rev cur) :: acc))
      | S d => split_args_go r (MRP :: cur) d acc
      end
  | t :: r => split_args_go r (t :: cur) depth acc
  end.

Inductive sres := SOk (rest : list mtok) (args : list (list mtok)) | SErr (e : merr).

Fixpoint trim_start_all (l : list mtok) : list mtok :=      (* whitespace, comments and line ends *)
  match l with
  | t :: r => if is_ws t then trim_start_all r else l
  | [] => []
  end.

Definition split_args (after_name : list mtok) : sres :=
  match trim_start_all after_name with
  | MLP :: r => match split_args_go r [] 0 [] with Some (rest, args) => SOk rest args | None => SErr MacroArgumentsNeverEnd end
  | _ => SErr MacroRequiresArguments
  end.

(* ---------- find_single_macro ---------- *)
Inductive found :=
| FUser (mi pos : nat)
| FConcat (lpos rpos : nat)
| FNone
| FErr (e : merr)
| FHang.      (* the `continue` that skips `i += 1` *)

(* position of the first token that is not whitespace (line ends included), counting from `from` *)
Fixpoint first_non_ws_inline (l : list mtok) (from : nat) : nat :=
  match l with
  | t :: r => if is_ws t then first_non_ws_inline r (S from) else from
  | [] => from
  end.

Fixpoint first_non_ws (l : list mtok) (from : nat) : option nat :=
  match l with
  | t :: r => if is_ws t then first_non_ws r (S from) else Some from
  | [] => None
  end.

(* the first macro (in definition order) that may be invoked by the identifier x at position i *)
Fixpoint pick_macro (defs : list macro) (dis : list bool) (mi : nat) (x : string) (after : list mtok) (i next : nat)
                    (lastfn : option nat) : option nat :=
  match defs with
  | [] => None
  | m :: rest =>
      let skip := pick_macro rest dis (S mi) x after i next lastfn in
      if nth mi dis false then skip
      else if (match lastfn with Some k => Nat.eqb k mi | None => false end) && Nat.ltb i next then skip
      else if String.eqb x (m_name m) then
        if m_fn m then
          let ap := first_non_ws_inline after (S i) in
          match nth_error after (ap - S i) with
          | Some MLP => if Nat.ltb ap next then skip else Some mi
          | _ => skip
          end
        else if Nat.ltb i next then skip else Some mi
      else skip
  end.

Fixpoint find_from (defs : list macro) (dis : list bool) (before : list mtok) (l : list mtok) (i next : nat)
                   (lastfn : option nat) : found :=   (* before: tokens left of i, reversed *)
  match l with
  | [] => FNone
  | t :: r =>
      match t with
      | MId x =>
          match pick_macro defs dis 0 x r i next lastfn with
          | Some mi => FUser mi i
          | None => find_from defs dis (t :: before) r (S i) next lastfn
          end
      | MConcat =>
          if Nat.ltb i next then FHang
          else match first_non_ws before 0 with
               | None => FErr ConcatMissingLeftToken
               | Some dl =>
                   match first_non_ws r 0 with
                   | None => FErr ConcatMissingRightToken
                   | Some dr => FConcat (i - dl - 1) (i + dr + 1)
                   end
               end
      | _ => find_from defs dis (t :: before) r (S i) next lastfn
      end
  end.

Definition find (defs : list macro) (dis : list bool) (toks : list mtok) (early next : nat) (lastfn : option nat) : found :=
  find_from defs dis (rev (firstn early toks)) (skipn early toks) early next lastfn.

(* ---------- apply_macros_internal ---------- *)
Inductive xres := XOk (l : list mtok) | XErr (e : merr) | XFuel | XHang.

Fixpoint set_nth (l : list bool) (i : nat) (v : bool) : list bool :=
  match l, i with
  | [], _ => []
  | _ :: r, O => v :: r
  | b :: r, S j => b :: set_nth r j v
  end.

Fixpoint subst (body : list mtok) (args : list (list mtok)) : list mtok :=
  match body with
  | [] => []
  | MArg i :: r => nth i args [] ++ subst r args
  | t :: r => t :: subst r args
  end.

Fixpoint all_ok (l : list xres) (acc : list (list mtok)) : xres + list (list mtok) :=
  match l with
  | [] => inr (rev acc)
  | XOk a :: r => all_ok r (a :: acc)
  | e :: _ => inl e
  end.

Section Expand.
Variable paste : mtok -> mtok -> option mtok.    (* unlex both, concatenate, lex: exactly one token, else ConcatFailed *)
Variable defs : list macro.

(* one iteration of the `while pos.next_pos < tokens.len()` loop of apply_macros_internal (apply_single_macro):
   self = the rest of the loop on a token list, inner mi = apply_macros_internal on a replacement list with macro mi
   disabled as well *)
Definition loop_step (self : list mtok -> nat -> nat -> option nat -> xres) (inner : nat -> list mtok -> xres)
                     (dis : list bool) (toks : list mtok) (next early : nat) (lastfn : option nat) : xres :=
  if Nat.leb (List.length toks) next then XOk toks
  else
    match find defs dis toks early next lastfn with
    | FNone => XOk toks
    | FErr e => XErr e
    | FHang => XHang
    | FUser mi pos =>
        match nth_error defs mi with
        | None => XHang
        | Some m =>
            let after := skipn (S pos) toks in
            let step (rest : list mtok) (args : list (list mtok)) : xres :=
              match all_ok (map (fun a => self a 0 0 None) args) [] with
              | inl e => e
              | inr args' =>
                  match inner mi (subst (m_body m) args') with
                  | XOk out =>
                      self (firstn pos toks ++ out ++ rest) (pos + List.length out) pos (if m_fn m then Some mi else None)
                  | e => e
                  end
              end in
            if m_fn m then
              match split_args after with
              | SErr e => XErr e
              | SOk rest args =>
                  if Nat.eqb (m_params m) 0 then
                    match args with
                    | [a] => if forallb is_ws a then step rest [] else XErr MacroExpectsDifferentNumberOfArguments
                    | _ => XErr MacroExpectsDifferentNumberOfArguments
                    end
                  else if Nat.eqb (List.length args) (m_params m) then step rest args
                  else XErr MacroExpectsDifferentNumberOfArguments
              end
            else step after []
        end
    | FConcat lpos rpos =>
        match nth_error toks lpos, nth_error toks rpos with
        | Some a, Some b =>
            match paste a b with
            | Some t => self (firstn lpos toks ++ t :: skipn (S rpos) toks) lpos lpos None
            | None => XErr ConcatFailed
            end
        | _, _ => XHang
        end
    end.

(* d bounds the nesting of replacement-list rescans, n the work on one token list *)
Fixpoint expand (d : nat) : list bool -> nat -> list mtok -> nat -> nat -> option nat -> xres :=
  match d with
  | O => fun _ _ _ _ _ _ => XFuel
  | S d' => fun dis =>
      (fix loop (n : nat) (toks : list mtok) (next early : nat) (lastfn : option nat) {struct n} : xres :=
         match n with
         | O => XFuel
         | S n' =>
             loop_step (loop n')
                       (fun mi out => expand d' (set_nth dis mi true) (S (List.length out)) out 0 0 None)
                       dis toks next early lastfn
         end)
  end.

Definition apply_macros (toks : list mtok) : xres :=
  expand (S (List.length defs)) (map (fun _ => false) defs) (S (List.length toks)) toks 0 0 None.

End Expand.

(* ---------- the file-level driver ---------- *)
Inductive item :=
| IText (ts : list mtok)          (* a maximal run of text between directives *)
| IDefine (cmd : list mtok)       (* the tokens after `define` *)
| IUndef (x : string)
| IInclude (f : string)
| IPragmaOnce.

Inductive perr := PMacro (e : merr) | PInvalidDefine | PMissingFile | PFuel | PHang.

Record pstate := { ps_macros : list macro; ps_once : list string; ps_out : list mtok }.

Section Driver.
Variable paste : mtok -> mtok -> option mtok.
Variable files : string -> option (list item).

Definition remove_macro (x : string) (ms : list macro) : list macro :=
  filter (fun m => negb (String.eqb (m_name m) x)) ms.

Fixpoint run (fuel : nat) (self : string) (its : list item) (st : pstate) : pstate + perr :=
  match fuel with
  | O => inr PFuel
  | S fuel' =>
      match its with
      | [] => inl st
      | it :: rest =>
          match it with
          | IText ts =>
              match apply_macros paste (ps_macros st) ts with
              | XOk out => run fuel' self rest {| ps_macros := ps_macros st; ps_once := ps_once st; ps_out := ps_out st ++ out |}
              | XErr e => inr (PMacro e)
              | XFuel => inr PFuel
              | XHang => inr PHang
              end
          | IDefine cmd =>
              match parse_define cmd with
              | Some m => run fuel' self rest {| ps_macros := remove_macro (m_name m) (ps_macros st) ++ [m];
                                                 ps_once := ps_once st; ps_out := ps_out st |}
              | None => inr PInvalidDefine
              end
          | IUndef x =>
              run fuel' self rest {| ps_macros := remove_macro x (ps_macros st); ps_once := ps_once st; ps_out := ps_out st |}
          | IPragmaOnce =>
              run fuel' self rest {| ps_macros := ps_macros st; ps_once := self :: ps_once st; ps_out := ps_out st |}
          | IInclude f =>
              match files f with
              | None => inr PMissingFile
              | Some body =>
                  let body' := if existsb (String.eqb f) (ps_once st) then [] else body in
                  match run fuel' f body' st with
                  | inl st' => run fuel' self rest st'
                  | inr e => inr e
                  end
              end
          end
      end
  end.

(* preprocess_initial_file: the initial defines are the #define lines of a synthetic file processed first *)
Definition run_with_defines (fuel : nat) (defines : list item) (entry : string) (its : list item) : pstate + perr :=
  match run fuel "<initial defines>" defines {| ps_macros := []; ps_once := []; ps_out := [] |} with
  | inl st => run fuel entry its st
  | inr e => inr e
  end.

End Driver.
