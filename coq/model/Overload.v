(* Overload.v — executable model of ImplicitConversion::find / get_rank (typer/src/casting.rs)
   for scalar and vector numeric types, and of find_function_type's selection
   (typer/src/typer/expressions.rs).  No proofs in this file. *)
From Coq Require Import List NArith Bool.
Import ListNotations.
Local Open Scope N_scope.

Inductive verdict := Selected (id : N) | Ambiguous | NoMatch.

Section Resolve.
Variable nrank : Type.
Variable order : nrank -> N.                  (* NumericRank::order *)
Variable vrank : Type.
Variable vrank_eqb : vrank -> vrank -> bool.
Variable w2b : list vrank.                    (* VectorRank::worst_to_best *)

Definition cast := (nrank * vrank)%type.      (* ConversionRank *)
Definition cand := (N * list cast)%type.      (* viable overload: function id, one conversion per argument *)

(* candidate_rank.compare(&against_rank) == Worse *)
Definition worse (a b : nrank) : bool := order b <? order a.

(* the zip loop: no argument converts numerically worse *)
Fixpoint not_worse_all (c a : list cast) : bool :=
  match c, a with
  | x :: c', y :: a' => negb (worse (fst x) (fst y)) && not_worse_all c' a'
  | _, _ => true
  end.

Definition wins (cs : list cand) (c : cand) : bool :=
  forallb (fun a => (fst a =? fst c) || not_worse_all (snd c) (snd a)) cs.

Definition winners (cs : list cand) : list cand := filter (wins cs) cs.

Definition count_by_rank (c : list cast) (r : vrank) : N :=
  N.of_nat (List.length (filter (fun x => vrank_eqb (snd x) r) c)).

Definition hist (c : list cast) : list N := map (count_by_rank c) w2b.

(* Vec<usize> `<` *)
Fixpoint lex_lt (a b : list N) : bool :=
  match a, b with
  | [], [] => false
  | [], _ :: _ => true
  | _ :: _, [] => false
  | x :: a', y :: b' => if x <? y then true else if y <? x then false else lex_lt a' b'
  end.

Fixpoint list_eqb (a b : list N) : bool :=
  match a, b with
  | [], [] => true
  | x :: a', y :: b' => (x =? y) && list_eqb a' b'
  | _, _ => false
  end.

Definition best_order (ws : list cand) : list N :=
  match ws with
  | [] => []
  | w :: _ => fold_left (fun b c => if lex_lt (hist (snd c)) b then hist (snd c) else b) ws (hist (snd w))
  end.

Definition finalists (cs : list cand) : list cand :=
  let ws := winners cs in
  filter (fun c => list_eqb (hist (snd c)) (best_order ws)) ws.

Definition resolve (cs : list cand) : verdict :=
  match finalists cs with
  | [] => NoMatch
  | [c] => Selected (fst c)
  | _ => Ambiguous
  end.
End Resolve.

(* ---------- ImplicitConversion::find + get_rank on scalars and vectors ---------- *)
Section Find.
Variable scalar : Type.
Variable scalar_eqb : scalar -> scalar -> bool.
Variable nrank : Type.
Variable nr_exact : nrank.
Variable scalar_rank : scalar -> scalar -> nrank.     (* the (source_scalar, dest_scalar) matrix *)
Variable vrank : Type.
Variable vr_exact vr_expand vr_contract : vrank.

Inductive dim := DScalar | DVec (n : N).

Record ety := mkEty {       (* an expression type: type + value category; only const among the modifiers *)
  e_scalar : scalar;
  e_dim : dim;
  e_lvalue : bool;
  e_const : bool }.

Definition dim_eqb (a b : dim) : bool :=
  match a, b with
  | DScalar, DScalar => true
  | DVec x, DVec y => x =? y
  | _, _ => false
  end.

(* Some vector rank, or None when no dimension cast exists; mirrors the `dimension_cast` match together
   with get_rank's classification of the DimensionCast it produces *)
Definition dim_cast (s d : ety) : option vrank :=
  let same_layer := scalar_eqb (e_scalar s) (e_scalar d) && dim_eqb (e_dim s) (e_dim d) in
  let same_scalar := scalar_eqb (e_scalar s) (e_scalar d) in
  let dl := e_lvalue d in
  if same_layer then Some vr_exact else
  match e_dim d with
  | DScalar =>
      match e_dim s with
      | DScalar => if dl then None else Some vr_exact
      | DVec x1 =>
          if same_scalar && (x1 =? 1) then Some vr_exact         (* vector1 to scalar of the same type *)
          else if dl then None
          else if x1 =? 1 then Some vr_exact                     (* DimensionCast(Vector(1), Scalar) *)
          else Some vr_contract
      end
  | DVec x2 =>
      match e_dim s with
      | DScalar =>
          if same_scalar && (x2 =? 1) then Some vr_exact         (* scalar to vector1 of the same type *)
          else if dl then None
          else if x2 =? 1 then Some vr_exact                     (* DimensionCast(Scalar, Vector(1)) *)
          else Some vr_expand
      | DVec x1 =>
          if dl then None
          else if x1 =? 1 then Some vr_expand                    (* DimensionCast(Vector(1), Vector(_)) *)
          else if x1 =? x2 then Some vr_exact
          else if x2 <? x1 then Some vr_contract
          else None
      end
  end.

Definition find (s d : ety) : option (nrank * vrank) :=
  if negb (e_lvalue s) && e_lvalue d then None else          (* (Rvalue, Lvalue) *)
  match dim_cast s d with
  | None => None
  | Some v =>
      let n := if scalar_eqb (e_scalar s) (e_scalar d) then nr_exact else scalar_rank (e_scalar s) (e_scalar d) in
      (* modifier cast: a const source cannot feed a non-const lvalue destination *)
      if e_lvalue d && e_const s && negb (e_const d) then None
      else Some (n, v)
  end.

(* a parameter: type, out/inout (binds an lvalue), const *)
Record param := mkParam { p_scalar : scalar; p_dim : dim; p_out : bool; p_const : bool }.
Record signature := mkSig { s_id : N; s_params : list param; s_non_default : nat }.

(* strip_param_type: as seen from the signature a parameter type carries no const *)
Definition param_ety (p : param) : ety := mkEty (p_scalar p) (p_dim p) (p_out p) false.

Fixpoint casts_of (ps : list param) (args : list ety) : option (list (nrank * vrank)) :=
  match ps, args with
  | p :: ps', a :: args' =>
      match find a (param_ety p), casts_of ps' args' with
      | Some c, Some r => Some (c :: r)
      | _, _ => None
      end
  | _, _ => Some []         (* zip stops at the shorter list *)
  end.

(* the arity filter and find_overload_casts for non-template functions *)
Definition viable (sigs : list signature) (args : list ety) : list (N * list (nrank * vrank)) :=
  flat_map (fun s =>
    if Nat.leb (List.length args) (List.length (s_params s)) && Nat.leb (s_non_default s) (List.length args) then
      match casts_of (s_params s) args with
      | Some c => [(s_id s, c)]
      | None => []
      end
    else []) sigs.
End Find.

