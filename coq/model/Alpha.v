(* Alpha.v — equality of two IR dumps up to the names of local variables.
   A dump (harness/src/sdump.rs) is the prefix encoding of a function as words; the words that name a local variable
   (declarations, parameters, uses) are marked.  VariableIds are opaque indices into the variable registry: what a
   function computes does not depend on them, only on which occurrences name the same variable.  `pair` walks two
   dumps in step and builds the correspondence of ids; it succeeds exactly when one dump is the other with its locals
   renamed one-to-one.  No proofs in this file. *)
From Coq Require Import List NArith Bool String.
Import ListNotations.

Inductive tok := Id (n : N) | W (s : string).

Definition corr := list (N * N).

Fixpoint lookup_l (r : corr) (a : N) : option N :=
  match r with [] => None | (x, y) :: t => if N.eqb a x then Some y else lookup_l t a end.
Fixpoint lookup_r (r : corr) (b : N) : option N :=
  match r with [] => None | (x, y) :: t => if N.eqb b y then Some x else lookup_r t b end.

(* the first position where the dumps differ, if any *)
Inductive result := Same (r : corr) | Differ (pos : N) (a b : option tok).

Fixpoint pair (r : corr) (pos : N) (l1 l2 : list tok) : result :=
  match l1, l2 with
  | [], [] => Same r
  | W a :: t1, W b :: t2 => if String.eqb a b then pair r (pos + 1) t1 t2 else Differ pos (Some (W a)) (Some (W b))
  | Id a :: t1, Id b :: t2 =>
      match lookup_l r a, lookup_r r b with
      | Some b', Some a' => if N.eqb b b' && N.eqb a a' then pair r (pos + 1) t1 t2 else Differ pos (Some (Id a)) (Some (Id b))
      | None, None => pair ((a, b) :: r) (pos + 1) t1 t2
      | _, _ => Differ pos (Some (Id a)) (Some (Id b))
      end
  | x :: _, y :: _ => Differ pos (Some x) (Some y)
  | x :: _, [] => Differ pos (Some x) None
  | [], y :: _ => Differ pos None (Some y)
  end.

Definition rename (r : corr) (t : tok) : tok :=
  match t with
  | Id a => match lookup_l r a with Some b => Id b | None => Id a end
  | W s => W s
  end.

(* every id of the list is in the domain of the correspondence *)
Definition covered (r : corr) (l : list tok) : Prop :=
  forall a, In (Id a) l -> lookup_l r a <> None.
