(* Cond.v — executable model of conditional compilation in the preprocessor:
   ConditionChain + the gating in preprocess_command (preprocess/src/preprocess.rs) and the
   #if condition parser (preprocess/src/condition_parser.rs).  No proofs in this file. *)
From Coq Require Import List NArith Bool String.
Import ListNotations.
Local Open Scope N_scope.

(* ====================== condition parser ====================== *)

(* tokens after whitespace removal; `<=` / `>=` are the two-token forms with FollowedBy::Token *)
Inductive ctok :=
| KNum (n : N)            (* LiteralInt / LiteralIntUnsigned32 *)
| KTrue | KFalse
| KId (s : string)
| KLP | KRP
| KNot
| KOr | KAnd | KEq | KNe
| KLt | KGt               (* `<` / `>` not directly followed by `=` *)
| KLe | KGe               (* `<` `=` / `>` `=` adjacent *)
| KOther.                 (* any other token *)

Inductive binop := BOr | BAnd | BEq | BNe | BLt | BLe | BGt | BGe.

Definition b2n (b : bool) : N := if b then 1 else 0.

(* BinOp::apply *)
Definition apply (op : binop) (l r : N) : N :=
  match op with
  | BAnd => b2n (negb (l =? 0) && negb (r =? 0))
  | BOr => b2n (negb (l =? 0) || negb (r =? 0))
  | BLt => b2n (l <? r)
  | BLe => b2n (l <=? r)
  | BGt => b2n (r <? l)
  | BGe => b2n (r <=? l)
  | BEq => b2n (l =? r)
  | BNe => b2n (negb (l =? r))
  end.

Inductive presult := POk (v : N) (rest : list ctok) | PErr | PFuel.

Definition op12 (ts : list ctok) : option (binop * list ctok) :=
  match ts with KOr :: r => Some (BOr, r) | _ => None end.
Definition op11 (ts : list ctok) : option (binop * list ctok) :=
  match ts with KAnd :: r => Some (BAnd, r) | _ => None end.
Definition op7 (ts : list ctok) : option (binop * list ctok) :=
  match ts with KEq :: r => Some (BEq, r) | KNe :: r => Some (BNe, r) | _ => None end.
Definition op6 (ts : list ctok) : option (binop * list ctok) :=
  match ts with
  | KLe :: r => Some (BLe, r) | KGe :: r => Some (BGe, r)
  | KLt :: r => Some (BLt, r) | KGt :: r => Some (BGt, r)
  | _ => None
  end.

Section Level.
Variable op_fn : list ctok -> option (binop * list ctok).
Variable expr_fn : list ctok -> presult.

(* the `while let Ok((rest, op)) = operator_fn(input)` loop, folded left (combine_rights) *)
Fixpoint rights (n : nat) (acc : N) (ts : list ctok) : presult :=
  match n with
  | O => PFuel
  | S n =>
      match op_fn ts with
      | None => POk acc ts
      | Some (op, rest) =>
          match expr_fn rest with
          | POk v rest' => rights n (apply op acc v) rest'
          | e => e
          end
      end
  end.

(* parse_binary_operations *)
Definition level (ts : list ctok) : presult :=
  match expr_fn ts with
  | POk v rest => rights (S (List.length rest)) v rest
  | e => e
  end.
End Level.

Section Leaf.
Variable p12 : list ctok -> presult.    (* the recursive call for parentheses *)

Definition leaf (ts : list ctok) : presult :=
  match ts with
  | KFalse :: r => POk 0 r
  | KTrue :: r => POk 1 r
  | KNum v :: r => POk v r
  | KLP :: r =>
      match p12 r with
      | POk v (KRP :: r') => POk v r'
      | POk _ _ => PErr
      | e => e
      end
  | KId _ :: r => POk 0 r
  | _ => PErr
  end.

Fixpoint p2 (ts : list ctok) : presult :=
  match ts with
  | KNot :: r =>
      match p2 r with
      | POk v r' => POk (b2n (v =? 0)) r'
      | e => e
      end
  | _ => leaf ts
  end.
End Leaf.

Fixpoint p12 (fuel : nat) (ts : list ctok) : presult :=
  match fuel with
  | O => PFuel
  | S f => level op12 (level op11 (level op7 (level op6 (p2 (p12 f))))) ts
  end.

(* condition_parser::parse on an already macro-substituted token list: None = FailedToParseIfCondition *)
Definition cond_parse (ts : list ctok) : option bool :=
  match p12 (S (List.length ts)) ts with
  | POk v [] => Some (negb (v =? 0))
  | _ => None
  end.

(* reference: C's #if arithmetic over unsigned 64-bit values for the supported operators *)
Inductive cexpr :=
| ENum (n : N) | ETrue | EFalse | EId (s : string)
| ENot (e : cexpr)
| EBin (op : binop) (l r : cexpr).

Fixpoint ceval (e : cexpr) : N :=
  match e with
  | ENum n => n
  | ETrue => 1
  | EFalse => 0
  | EId _ => 0                      (* identifiers left after macro substitution are 0 *)
  | ENot e => b2n (ceval e =? 0)
  | EBin op l r => apply op (ceval l) (ceval r)
  end.

(* binding strength: rank 1 binds tightest among the binary operators; ! and atoms have rank 0 *)
Definition rank (op : binop) : nat :=
  match op with BOr => 4 | BAnd => 3 | BEq | BNe => 2 | _ => 1 end.
Definition erank (e : cexpr) : nat :=
  match e with EBin op _ _ => rank op | _ => 0 end.
Definition optok (op : binop) : ctok :=
  match op with
  | BOr => KOr | BAnd => KAnd | BEq => KEq | BNe => KNe | BLt => KLt | BLe => KLe | BGt => KGt | BGe => KGe
  end.

(* print with the minimal parentheses for left-associative operators: a sub-expression is
   parenthesised exactly when it binds less tightly than its context allows *)
Fixpoint raw (e : cexpr) : list ctok :=
  let pr := fun (j : nat) (x : cexpr) =>
    if Nat.leb (erank x) j then raw x else KLP :: raw x ++ [KRP] in
  match e with
  | ENum n => [KNum n]
  | ETrue => [KTrue]
  | EFalse => [KFalse]
  | EId s => [KId s]
  | ENot x => KNot :: pr 0%nat x
  | EBin op l r => pr (rank op) l ++ optok op :: pr (Nat.pred (rank op)) r
  end.
Definition pr (j : nat) (x : cexpr) : list ctok :=
  if Nat.leb (erank x) j then raw x else KLP :: raw x ++ [KRP].

(* ====================== macro environment as seen by conditions ====================== *)

(* object-like macros whose body is one integer literal (Some v) or empty (None) *)
Definition env := list (string * option N).

Fixpoint lookup (e : env) (x : string) : option (option N) :=
  match e with
  | [] => None
  | (y, v) :: r => if String.eqb x y then Some v else lookup r x
  end.
Definition defined (e : env) (x : string) : bool := match lookup e x with Some _ => true | None => false end.
Definition remove (e : env) (x : string) : env := filter (fun '(y, _) => negb (String.eqb x y)) e.
Definition define (e : env) (x : string) (v : option N) : env := remove e x ++ [(x, v)].

(* apply_macros(command, macros, apply_defined = true) restricted to such macros.
   None = an error other than FailedToParseIfCondition (defined without a name) *)
Fixpoint subst (e : env) (ts : list ctok) : option (list ctok) :=
  match ts with
  | [] => Some []
  | KId d :: r =>
      if String.eqb d "defined" then
        match r with
        | KId x :: r' => option_map (cons (KNum (b2n (defined e x)))) (subst e r')
        | KLP :: KId x :: KRP :: r' => option_map (cons (KNum (b2n (defined e x)))) (subst e r')
        | _ => None
        end
      else
        match lookup e d with
        | Some (Some v) => option_map (cons (KNum v)) (subst e r)
        | Some None => subst e r
        | None => option_map (cons (KId d)) (subst e r)
        end
  | t :: r => option_map (cons t) (subst e r)
  end.

Inductive cerr := EParse | EMacro.

Definition eval_cond (e : env) (ts : list ctok) : bool + cerr :=
  match subst e ts with
  | None => inr EMacro
  | Some ts' => match cond_parse ts' with Some b => inl b | None => inr EParse end
  end.

(* ====================== directive lines ====================== *)

Inductive cstate := Enabled | DisabledInner | DisabledOuter.

Definition cstate_eqb (a b : cstate) : bool :=
  match a, b with
  | Enabled, Enabled | DisabledInner, DisabledInner | DisabledOuter, DisabledOuter => true
  | _, _ => false
  end.

Definition is_active (stk : list cstate) : bool := forallb (cstate_eqb Enabled) stk.

Inductive otok := OText (n : N) | OId (s : string) | ONum (n : N).

Inductive line :=
| LText (n : N)                         (* a line of ordinary text (identifier x<n>) *)
| LUse (x : string)                     (* a line consisting of the identifier x (a macro use if x is defined) *)
| LDefine (x : string) (v : option N)
| LUndef (x : string)
| LIf (c : list ctok)
| LIfdef (x : string)
| LIfndef (x : string)
| LElif (c : list ctok)
| LElse
| LEndif.

Inductive perr :=
| ElseNotMatched | EndIfNotMatched | ConditionChainNotFinished
| FailedToParseIfCondition | MacroError.

Definition cerr_to_perr (c : cerr) : perr :=
  match c with EParse => FailedToParseIfCondition | EMacro => MacroError end.

Record pstate := mkP { p_stack : list cstate; p_env : env; p_out : list otok }.

Section Run.
Variable switch : cstate -> bool -> cstate.                    (* ConditionChain::switch, regenerated table *)
Variable evalc : env -> list ctok -> bool + cerr.              (* macro substitution + condition parser *)

Definition use_out (e : env) (x : string) : list otok :=
  match lookup e x with
  | Some (Some v) => [ONum v]
  | Some None => []
  | None => [OId x]
  end.

(* one logical line: preprocess_command, or flush_normal for text *)
Definition step (st : pstate) (l : line) : pstate + perr :=
  let stk := p_stack st in
  let skip := negb (is_active stk) in
  match l with
  | LText n => inl (if skip then st else mkP stk (p_env st) (p_out st ++ [OText n]))
  | LUse x => inl (if skip then st else mkP stk (p_env st) (p_out st ++ use_out (p_env st) x))
  | LDefine x v => inl (if skip then st else mkP stk (define (p_env st) x v) (p_out st))
  | LUndef x => inl (if skip then st else mkP stk (remove (p_env st) x) (p_out st))
  | LIfdef x =>
      inl (mkP ((if skip then DisabledInner else if defined (p_env st) x then Enabled else DisabledInner) :: stk)
               (p_env st) (p_out st))
  | LIfndef x =>
      inl (mkP ((if skip then DisabledInner else if defined (p_env st) x then DisabledInner else Enabled) :: stk)
               (p_env st) (p_out st))
  | LIf c =>
      if skip then inl (mkP (DisabledInner :: stk) (p_env st) (p_out st))
      else match evalc (p_env st) c with
           | inl b => inl (mkP ((if b then Enabled else DisabledInner) :: stk) (p_env st) (p_out st))
           | inr e => inr (cerr_to_perr e)
           end
  | LElif c =>
      match stk with
      | [] => inr ElseNotMatched
      | top :: r =>
          (* is_waiting_for_condition: the condition is evaluated only where it can select a group *)
          if cstate_eqb DisabledInner top && is_active r then
            match evalc (p_env st) c with
            | inr e => inr (cerr_to_perr e)
            | inl b => inl (mkP (switch top b :: r) (p_env st) (p_out st))
            end
          else inl (mkP (switch top false :: r) (p_env st) (p_out st))
      end
  | LElse =>
      match stk with
      | top :: r => inl (mkP (switch top true :: r) (p_env st) (p_out st))
      | [] => inr ElseNotMatched
      end
  | LEndif =>
      match stk with
      | _ :: r => inl (mkP r (p_env st) (p_out st))
      | [] => inr EndIfNotMatched
      end
  end.

Fixpoint run (st : pstate) (ls : list line) : pstate + perr :=
  match ls with
  | [] => inl st
  | l :: r => match step st l with inl st' => run st' r | inr e => inr e end
  end.

(* preprocess_initial_file: run, then the chain must be empty *)
Definition run_file (e0 : env) (ls : list line) : (env * list otok) + perr :=
  match run (mkP [] e0 []) ls with
  | inr e => inr e
  | inl st => match p_stack st with [] => inl (p_env st, p_out st) | _ => inr ConditionChainNotFinished end
  end.

(* ---------- reference: C's conditional groups over a well-nested tree ---------- *)
Inductive guard := GIf (c : list ctok) | GIfdef (x : string) | GIfndef (x : string).

Inductive item :=
| ISimple (l : line)                              (* LText / LUse / LDefine / LUndef only *)
| ICond (g : guard) (body : items) (rest : tail)
with items := INil | ICons (i : item) (r : items)
with tail :=
| TEnd                                            (* #endif *)
| TElif (c : list ctok) (body : items) (rest : tail)
| TElse (body : items).                           (* #else ... #endif *)

Definition guard_line (g : guard) : line :=
  match g with GIf c => LIf c | GIfdef x => LIfdef x | GIfndef x => LIfndef x end.

Fixpoint flatten_item (i : item) : list line :=
  match i with
  | ISimple l => [l]
  | ICond g body rest => guard_line g :: flatten_items body ++ flatten_tail rest
  end
with flatten_items (its : items) : list line :=
  match its with
  | INil => []
  | ICons i r => flatten_item i ++ flatten_items r
  end
with flatten_tail (t : tail) : list line :=
  match t with
  | TEnd => [LEndif]
  | TElif c body rest => LElif c :: flatten_items body ++ flatten_tail rest
  | TElse body => LElse :: flatten_items body ++ [LEndif]
  end.

Definition is_simple (l : line) : bool :=
  match l with LText _ | LUse _ | LDefine _ _ | LUndef _ => true | _ => false end.

Definition exec_simple (e : env) (l : line) : env * list otok :=
  match l with
  | LText n => (e, [OText n])
  | LUse x => (e, use_out e x)
  | LDefine x v => (define e x v, [])
  | LUndef x => (remove e x, [])
  | _ => (e, [])
  end.

Variable evalb : env -> list ctok -> bool.      (* value of a well-formed condition *)

Definition guard_true (e : env) (g : guard) : bool :=
  match g with
  | GIf c => evalb e c
  | GIfdef x => defined e x
  | GIfndef x => negb (defined e x)
  end.

(* first true branch, else the #else group, else nothing; unselected groups are not even looked at *)
Fixpoint sem_item (e : env) (i : item) : env * list otok :=
  match i with
  | ISimple l => exec_simple e l
  | ICond g body rest => if guard_true e g then sem_items e body else sem_tail e rest
  end
with sem_items (e : env) (its : items) : env * list otok :=
  match its with
  | INil => (e, [])
  | ICons i r => let (e1, o1) := sem_item e i in let (e2, o2) := sem_items e1 r in (e2, o1 ++ o2)
  end
with sem_tail (e : env) (t : tail) : env * list otok :=
  match t with
  | TEnd => (e, [])
  | TElif c body rest => if evalb e c then sem_items e body else sem_tail e rest
  | TElse body => sem_items e body
  end.

End Run.

(* reference nesting check for arbitrary line sequences: which of the three rejections applies *)
Fixpoint scan (depth : nat) (ls : list line) : option perr :=
  match ls with
  | [] => match depth with O => None | _ => Some ConditionChainNotFinished end
  | l :: r =>
      match l with
      | LIf _ | LIfdef _ | LIfndef _ => scan (S depth) r
      | LElif _ | LElse => match depth with O => Some ElseNotMatched | _ => scan depth r end
      | LEndif => match depth with O => Some EndIfNotMatched | S d => scan d r end
      | _ => scan depth r
      end
  end.
