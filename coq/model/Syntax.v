(* Syntax.v — executable model of expression printing (formatter/src/formatter.rs:
   format_subexpression, get_expression_precedence, get_precedence_associativity) and of the
   expression parser's level structure (parser/src/parser/expressions.rs: expr_leaf, expr_p1 ..
   expr_p15), the parser's ambiguity between casts and parenthesised names being decided by the
   set of type names, as the type checker decides it.  No proofs in this file. *)
From Coq Require Import List NArith Bool String Ascii.
Import ListNotations.
Local Open Scope string_scope.
Local Open Scope list_scope.

Inductive tok :=
| TId (s : string)                 (* identifier (or type name) *)
| TLit (intu : bool) (s : string)  (* literal with its spelling; intu: an IntUntyped literal *)
| TSym (s : string).               (* punctuation, by spelling *)

Inductive item := I (t : tok) | Sp.     (* printed text: tokens and single spaces *)

Inductive expr :=
| EId (s : string)
| ELit (intu : bool) (s : string)
| EUn (o : string) (e : expr)           (* UnaryOp by name *)
| EBin (o : string) (a b : expr)        (* BinOp by name *)
| ETern (c a b : expr)
| ESub (a i : expr)
| EMem (a : expr) (m : string)
| ECall (f : expr) (args : list expr)
| ECast (t : string) (e : expr).

Inductive side := SLeft | SRight | SMiddle | SCommaList.
Inductive assoc := L2R | R2L | ANone.

Definition tok_eqb (a b : tok) : bool :=
  match a, b with
  | TId x, TId y => String.eqb x y
  | TLit i x, TLit j y => Bool.eqb i j && String.eqb x y
  | TSym x, TSym y => String.eqb x y
  | _, _ => false
  end.

Definition spelling (t : tok) : string := match t with TId s | TLit _ s | TSym s => s end.

Fixpoint render (l : list item) : string :=
  match l with
  | [] => ""
  | I t :: r => String.append (spelling t) (render r)
  | Sp :: r => String.append " " (render r)
  end.

Fixpoint toks (l : list item) : list tok :=
  match l with
  | [] => []
  | I t :: r => t :: toks r
  | Sp :: r => toks r
  end.

Definition first_char (l : list item) : option ascii :=
  match l with
  | I t :: _ => match spelling t with String c _ => Some c | EmptyString => None end
  | Sp :: _ => Some " "%char
  | [] => None
  end.

Fixpoint last_char (s : string) : option ascii :=
  match s with
  | EmptyString => None
  | String c EmptyString => Some c
  | String _ r => last_char r
  end.

(* ====================== printer ====================== *)
Section Printer.
Variable un_prec : string -> N.
Variable un_sp : string -> string.
Variable un_post : string -> bool.
Variable bin_prec : string -> N.
Variable bin_sp : string -> string.
Variable bin_tight : string -> bool.      (* no space before the operator (Sequence) *)
Variable p_leaf p_tern p_sub p_mem p_call p_cast : N.
Variable call_obj_outer call_arg_outer : N.
Variable assoc_of : N -> assoc.
Variable sep_chars : list ascii.          (* + - & *)
Variable sides : string -> list side.     (* per node kind, the side of each nested call *)

Definition prec (e : expr) : N :=
  match e with
  | EId _ | ELit _ _ => p_leaf
  | EUn o _ => un_prec o
  | EBin o _ _ => bin_prec o
  | ETern _ _ _ => p_tern
  | ESub _ _ => p_sub
  | EMem _ _ => p_mem
  | ECall _ _ => p_call
  | ECast _ _ => p_cast
  end.

Definition requires_paren (p outer : N) (s : side) : bool :=
  match (p ?= outer)%N with
  | Gt => true
  | Lt => false
  | Eq => negb (match s, assoc_of p with
                | SLeft, L2R => true
                | SRight, R2L => true
                | SMiddle, _ => true
                | _, _ => false
                end)
  end.

Definition side_at (kind : string) (i : nat) : side := nth i (sides kind) SCommaList.

Definition sym (s : string) : item := I (TSym s).

Definition ascii_in (c : ascii) (l : list ascii) : bool := existsb (Ascii.eqb c) l.

(* prefix operator followed by its operand: a space keeps equal operator characters apart *)
Definition glue_prefix (op : string) (operand : list item) : list item :=
  match last_char op, first_char operand with
  | Some a, Some b => if Ascii.eqb a b && ascii_in a sep_chars then sym op :: Sp :: operand else sym op :: operand
  | _, _ => sym op :: operand
  end.

Fixpoint comma_list (l : list (list item)) : list item :=
  match l with
  | [] => []
  | [x] => x
  | x :: r => x ++ [sym ","; Sp] ++ comma_list r
  end.

Fixpoint fmt (e : expr) (outer : N) (s : side) {struct e} : list item :=
  let p := prec e in
  let body :=
    match e with
    | EId x => [I (TId x)]
    | ELit i x => [I (TLit i x)]
    | EUn o a =>
        if un_post o then fmt a p (side_at "UnaryOperation" 0) ++ [sym (un_sp o)]
        else glue_prefix (un_sp o) (fmt a p (side_at "UnaryOperation" 1))
    | EBin o a b =>
        fmt a p (side_at "BinaryOperation" 0) ++ (if bin_tight o then [] else [Sp]) ++ [sym (bin_sp o); Sp]
          ++ fmt b p (side_at "BinaryOperation" 1)
    | ETern c a b =>
        fmt c p (side_at "TernaryConditional" 0) ++ [Sp; sym "?"; Sp] ++ fmt a p (side_at "TernaryConditional" 1)
          ++ [Sp; sym ":"; Sp] ++ fmt b p (side_at "TernaryConditional" 2)
    | ESub a i => fmt a p (side_at "ArraySubscript" 0) ++ [sym "["] ++ fmt i p (side_at "ArraySubscript" 1) ++ [sym "]"]
    | EMem a m =>
        let inner := fmt a p (side_at "Member" 0) in
        (match a with ELit true _ => [sym "("] ++ inner ++ [sym ")"] | _ => inner end) ++ [sym "."; I (TId m)]
    | ECall f args =>
        fmt f call_obj_outer (side_at "Call" 0) ++ [sym "("]
          ++ comma_list (map (fun a => fmt a call_arg_outer (side_at "Call" 1)) args) ++ [sym ")"]
    | ECast t a => [sym "("; I (TId t); sym ")"] ++ fmt a p (side_at "Cast" 0)
    end in
  if requires_paren p outer s then [sym "("] ++ body ++ [sym ")"] else body.

End Printer.

(* ====================== parser ====================== *)
Inductive res :=
| Ok (e : expr) (rest : list tok)
| Err            (* the text is not an expression *)
| Fuel           (* the model ran out of fuel: never a verdict *)
| Unm.           (* `<` ... `> (`: the reading as explicit template arguments is not modelled *)

Inductive ares := AOk (l : list expr) (rest : list tok) | AErr | AFuel | AUnm.

Fixpoint gt_paren (ts : list tok) : bool :=
  match ts with
  | TSym a :: ((TSym b :: _) as r) => (String.eqb a ">" && String.eqb b "(") || gt_paren r
  | _ :: r => gt_paren r
  | [] => false
  end.

Section Parser.
Variable G : string -> bool.                               (* the names that are types *)
Variable prefix_of : string -> option string.              (* unaryop_prefix *)
Variable postfix_of : string -> option string.             (* expr_p1_increment / _decrement *)
Variable bin_at : nat -> string -> option string.          (* expr_pN's parse_op, N = 3..12, 14, 15 *)

Section Levels.
Variable E : list tok -> res.    (* expr_p15 with Terminator::Standard, one nesting level down *)
Variable A : list tok -> res.    (* expr_p15 with Terminator::Sequence (no top-level commas), one nesting level down *)

(* the arguments of a call after the first: `, a` ... `)` *)
Fixpoint more_args (n : nat) (ts : list tok) : ares :=
  match n with
  | O => AFuel
  | S n' =>
      match ts with
      | TSym s :: r =>
          if String.eqb s ")" then AOk [] r
          else if String.eqb s "," then
            match A r with
            | Ok a r' => match more_args n' r' with AOk l r'' => AOk (a :: l) r'' | x => x end
            | Err => AErr
            | Fuel => AFuel
            | Unm => AUnm
            end
          else AErr
      | _ => AErr
      end
  end.

Definition first_arg (ts : list tok) : ares :=
  match A ts with
  | Ok a r1 => match more_args (S (List.length r1)) r1 with AOk l r2 => AOk (a :: l) r2 | x => x end
  | Err => AErr
  | Fuel => AFuel
  | Unm => AUnm
  end.

(* what follows the `(` of a call *)
Definition call_args (ts : list tok) : ares :=
  match ts with
  | TSym c :: r' => if String.eqb c ")" then AOk [] r' else first_arg ts
  | _ => first_arg ts
  end.

(* right_side_ops: the postfix loop of expr_p1 *)
Fixpoint post (n : nat) (e : expr) (ts : list tok) : res :=
  match n with
  | O => Fuel
  | S n' =>
      match ts with
      | TSym s :: r =>
          match postfix_of s with
          | Some o => post n' (EUn o e) r
          | None =>
              if String.eqb s "." then
                match r with TId m :: r' => post n' (EMem e m) r' | _ => Err end
              else if String.eqb s "[" then
                match A r with
                | Ok i (TSym c :: r') => if String.eqb c "]" then post n' (ESub e i) r' else Err
                | Ok _ _ => Err
                | x => x
                end
              else if String.eqb s "(" then
                match call_args r with
                | AOk l r2 => post n' (ECall e l) r2
                | AErr => Err
                | AFuel => Fuel
                | AUnm => Unm
                end
              else if String.eqb s "<" then (if gt_paren r then Unm else Ok e ts)
              else Ok e ts
          end
      | _ => Ok e ts
      end
  end.

(* expr_leaf *)
Definition leaf (ts : list tok) : res :=
  match ts with
  | TId x :: r => Ok (EId x) r
  | TLit i x :: r => Ok (ELit i x) r
  | TSym s :: r =>
      if String.eqb s "(" then
        match E r with
        | Ok e (TSym c :: r') => if String.eqb c ")" then Ok e r' else Err
        | Ok _ _ => Err
        | x => x
        end
      else Err
  | [] => Err
  end.

(* expr_p1 *)
Definition p1 (ts : list tok) : res :=
  match leaf ts with
  | Ok e r => post (S (List.length r)) e r
  | x => x
  end.

(* expr_p2: prefix operators, casts (when the parenthesised name is a type), else expr_p1 *)
Fixpoint p2 (n : nat) (ts : list tok) : res :=
  match n with
  | O => Fuel
  | S n' =>
      match ts with
      | TSym s :: r =>
          match prefix_of s with
          | Some o => match p2 n' r with Ok e r' => Ok (EUn o e) r' | x => x end
          | None =>
              match r with
              | TId t :: TSym c :: r2 =>
                  if String.eqb s "(" && String.eqb c ")" && G t then
                    match p2 n' r2 with Ok e r' => Ok (ECast t e) r' | x => x end
                  else p1 ts
              | _ => p1 ts
              end
          end
      | _ => p1 ts
      end
  end.

Section Level.
Variable op_fn : string -> option string.
Variable expr_fn : list tok -> res.

(* parse_binary_operations: operand, then (operator operand)*, folded to the left *)
Fixpoint rights (n : nat) (acc : expr) (ts : list tok) : res :=
  match n with
  | O => Fuel
  | S n' =>
      match ts with
      | TSym s :: r =>
          match op_fn s with
          | Some o => match expr_fn r with Ok b r' => rights n' (EBin o acc b) r' | x => x end
          | None => Ok acc ts
          end
      | _ => Ok acc ts
      end
  end.

Definition level (ts : list tok) : res :=
  match expr_fn ts with
  | Ok a r => rights (S (List.length r)) a r
  | x => x
  end.
End Level.

(* expr_p14 with expr_p13 inside: conditional, then an optional assignment operator and its right side *)
Section Assign.
Variable p12 : list tok -> res.

(* after expr_p12 has read c: `? a : b` if it parses (else c alone), then `op rhs` if it parses *)
Definition tail14 (rec : list tok -> res) (c : expr) (r : list tok) : res :=
  let main :=
    match r with
    | TSym q :: r0 =>
        if String.eqb q "?" then
          match rec r0 with
          | Ok a (TSym c' :: r1) =>
              if String.eqb c' ":" then
                match rec r1 with Ok b r2 => Ok (ETern c a b) r2 | Err => Ok c r | x => x end
              else Ok c r
          | Ok _ _ => Ok c r
          | Err => Ok c r
          | x => x
          end
        else Ok c r
    | _ => Ok c r
    end in
  match main with
  | Ok m (TSym s :: r') =>
      match bin_at 14 s with
      | Some o => match rec r' with Ok b r'' => Ok (EBin o m b) r'' | Err => main | x => x end
      | None => main
      end
  | x => x
  end.

Fixpoint p14 (n : nat) (ts : list tok) : res :=
  match n with
  | O => Fuel
  | S n' => match p12 ts with Ok c r => tail14 (p14 n') c r | x => x end
  end.
End Assign.

(* levels: 2 = expr_p2, 3..12 = expr_p3..expr_p12, 13 = expr_p14, 14 = expr_p15 *)
Fixpoint Ylev (l : nat) (ts : list tok) : res :=
  match l with
  | O => p2 (S (List.length ts)) ts
  | S l' =>
      if Nat.leb l 10 then level (bin_at (l + 2)) (Ylev l') ts
      else if Nat.eqb l 11 then p14 (Ylev l') (S (List.length ts)) ts
      else level (bin_at 15) (Ylev l') ts
  end.

End Levels.

(* nesting depth f: parentheses, subscripts and call arguments are parsed one level down *)
Fixpoint Y (f : nat) (l : nat) (ts : list tok) : res :=
  match f with
  | O => Fuel
  | S f' => Ylev (Y f' 12) (Y f' 11) l ts
  end.

Definition parse_top (ts : list tok) : res := Y (S (List.length ts)) 12 ts.

End Parser.
