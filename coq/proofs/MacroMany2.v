(* MacroMany2.v — any number of macro uses in one token list, object-like and function-like mixed: each is replaced by its
   replacement list (with the arguments substituted), in order; the text between them stays.  Replacement lists and
   arguments name no macro. *)
From Coq Require Import List NArith Bool String Arith Lia.
From RV Require Import Macro MacroProofs MacroSubst MacroChain.
From RV Require Import MacroMany MacroFnNested.
Import ListNotations.
Local Open Scope list_scope.

Section Many2.
Variable paste : mtok -> mtok -> option mtok.
Variable defs : list macro.
Notation plain := (plain defs).
Notation simple := (simple defs).

Inductive muse :=
| UObj (p : list mtok) (mi : nat) (m : macro)
| UFn (p : list mtok) (mi : nat) (m : macro) (args : list (list mtok)).

Fixpoint min (us : list muse) : list mtok :=
  match us with
  | [] => []
  | UObj p _ m :: r => p ++ MId (m_name m) :: min r
  | UFn p _ m args :: r => p ++ MId (m_name m) :: MLP :: commas args ++ MRP :: min r
  end.
Fixpoint mout (us : list muse) : list mtok :=
  match us with
  | [] => []
  | UObj p _ m :: r => p ++ m_body m ++ mout r
  | UFn p _ m args :: r => p ++ subst (m_body m) (map trim args) ++ mout r
  end.

Definition muse_ok (dis : list bool) (u : muse) : Prop :=
  match u with
  | UObj p mi m =>
      nth_error defs mi = Some m /\ m_fn m = false /\ nth mi dis false = false /\
      (forall j m', j < mi -> nth_error defs j = Some m' -> String.eqb (m_name m) (m_name m') = false) /\
      plain p /\ plain (m_body m)
  | UFn p mi m args =>
      nth_error defs mi = Some m /\ m_fn m = true /\ nth mi dis false = false /\
      (forall j m', j < mi -> nth_error defs j = Some m' -> String.eqb (m_name m) (m_name m') = false) /\
      plain p /\ forallb (bodyb defs) (m_body m) = true /\
      args <> [] /\ List.length args = m_params m /\ Forall simple args
  end.

Lemma pick_first_fn_at dis x post i next lastfn : next <= i -> forall ds mi0 k m,
  nth_error ds k = Some m -> m_name m = x -> m_fn m = true -> nth (mi0 + k) dis false = false ->
  (forall j m', j < k -> nth_error ds j = Some m' -> String.eqb x (m_name m') = false) ->
  pick_macro ds dis mi0 x (MLP :: post) i next lastfn = Some (mi0 + k).
Proof.
  intros Hle. assert (Hlt : Nat.ltb i next = false) by (apply Nat.ltb_ge; exact Hle).
  assert (Hlt2 : Nat.ltb (S i) next = false) by (apply Nat.ltb_ge; lia).
  induction ds as [|m0 r IH]; intros mi0 k m Hn Hx Hf Hd Hfirst; [destruct k; discriminate|].
  cbn [pick_macro]. rewrite Hlt, andb_false_r.
  destruct k as [|k].
  - cbn in Hn. inversion Hn; subst m0. rewrite Nat.add_0_r in *. rewrite Hd, Hx, String.eqb_refl, Hf.
    cbn [first_non_ws_inline is_ws]. rewrite Nat.sub_diag. cbn [nth_error]. rewrite Hlt2. reflexivity.
  - rewrite (Hfirst 0 m0 ltac:(lia) eq_refl).
    replace (mi0 + S k) with (S mi0 + k) in * by lia.
    rewrite (IH (S mi0) k m Hn Hx Hf Hd).
    + destruct (nth mi0 dis false); reflexivity.
    + intros j m' Hj Hn'. apply (Hfirst (S j) m'); [lia | exact Hn'].
Qed.

Lemma scan_uses d dis post : plain post ->
  forall us done n next early lastfn,
    plain done -> next <= List.length done -> early <= List.length done -> List.length us < n ->
    Forall (muse_ok dis) us ->
    expand paste defs (S (S d)) dis n (done ++ min us ++ post) next early lastfn =
    XOk (done ++ mout us ++ post).
Proof.
  intros Hpost. induction us as [|u r IH]; intros done n next early lastfn Hdone Hnext Hearly Hn Hok.
  - destruct n as [|n]; [cbn in Hn; lia|]. cbn [min mout app].
    apply expand_plain; [apply plain_app; assumption | rewrite app_length; lia].
  - destruct n as [|n]; [cbn in Hn; lia|]. cbn [List.length] in Hn.
    inversion Hok as [|? ? Hu Hr]; subst.
    destruct u as [p mi m|p mi m args].
    + (* an object-like use *)
      destruct Hu as (Hnth & Hf & Hd & Hfirst & Hp & Hb).
      cbn [min mout].
      set (rest := min r ++ post).
      set (toks := done ++ (p ++ MId (m_name m) :: min r) ++ post).
      assert (Htoks : toks = (done ++ p) ++ MId (m_name m) :: rest).
      { unfold toks, rest. rewrite <- !app_assoc. cbn [app]. reflexivity. }
      assert (Hlen : List.length toks = List.length done + List.length p + S (List.length rest)).
      { rewrite Htoks, !app_length. cbn [List.length]. lia. }
      rewrite expand_eq. unfold loop_step.
      destruct (Nat.leb_spec (List.length toks) next) as [Hz|_]; [lia|].
      unfold find.
      assert (Hsk : skipn early toks = (skipn early done ++ p) ++ MId (m_name m) :: rest).
      { rewrite Htoks, <- app_assoc. rewrite (skipn_app_le early done) by exact Hearly. rewrite <- app_assoc. reflexivity. }
      rewrite Hsk.
      rewrite find_from_skip by (apply plain_app; [apply (plain_skipn defs); exact Hdone | exact Hp]).
      assert (Hpos : early + List.length (skipn early done ++ p) = List.length done + List.length p).
      { rewrite app_length, skipn_length. lia. }
      rewrite Hpos. cbn [find_from].
      rewrite (pick_first_at dis (m_name m) rest (List.length done + List.length p) next lastfn ltac:(lia) defs 0 mi m Hnth eq_refl Hf Hd Hfirst).
      cbn [Nat.add]. rewrite Hnth, Hf. cbn [map all_ok rev].
      rewrite (subst_plain defs _ Hb).
      rewrite (expand_plain paste defs d _ _ _ 0 0 None Hb ltac:(lia)).
      assert (Hfn : firstn (List.length done + List.length p) toks = done ++ p).
      { rewrite Htoks. replace (List.length done + List.length p) with (List.length (done ++ p)) by (rewrite app_length; reflexivity).
        apply firstn_app_length_eq. }
      assert (Hsk2 : skipn (S (List.length done + List.length p)) toks = rest).
      { rewrite Htoks. replace (S (List.length done + List.length p)) with (List.length ((done ++ p) ++ [MId (m_name m)]))
          by (rewrite !app_length; cbn; lia).
        replace ((done ++ p) ++ MId (m_name m) :: rest) with (((done ++ p) ++ [MId (m_name m)]) ++ rest)
          by (rewrite <- !app_assoc; reflexivity).
        apply skipn_app_length_eq. }
      rewrite Hfn, Hsk2. unfold rest.
      replace ((done ++ p) ++ m_body m ++ min r ++ post) with ((done ++ p ++ m_body m) ++ min r ++ post)
        by (rewrite <- !app_assoc; reflexivity).
      rewrite (IH (done ++ p ++ m_body m) n _ _ None).
      * rewrite <- !app_assoc. reflexivity.
      * apply plain_app; [exact Hdone | apply plain_app; [exact Hp | exact Hb]].
      * rewrite !app_length. lia.
      * rewrite !app_length. lia.
      * lia.
      * exact Hr.
    + (* a function-like use *)
      destruct Hu as (Hnth & Hf & Hd & Hfirst & Hp & Hb & Hne & Hal & Hs).
      cbn [min mout].
      set (rest := min r ++ post).
      set (call := MLP :: commas args ++ MRP :: rest).
      set (toks := done ++ (p ++ MId (m_name m) :: MLP :: commas args ++ MRP :: min r) ++ post).
      assert (Htoks : toks = (done ++ p) ++ MId (m_name m) :: call).
      { unfold toks, call, rest. rewrite <- !app_assoc. cbn [app]. rewrite <- !app_assoc. reflexivity. }
      assert (Hlen : List.length toks = List.length done + List.length p + S (List.length call)).
      { rewrite Htoks, !app_length. cbn [List.length]. lia. }
      rewrite expand_eq. unfold loop_step.
      destruct (Nat.leb_spec (List.length toks) next) as [Hz|_]; [lia|].
      unfold find.
      assert (Hsk : skipn early toks = (skipn early done ++ p) ++ MId (m_name m) :: call).
      { rewrite Htoks, <- app_assoc. rewrite (skipn_app_le early done) by exact Hearly. rewrite <- app_assoc. reflexivity. }
      rewrite Hsk.
      rewrite find_from_skip by (apply plain_app; [apply (plain_skipn defs); exact Hdone | exact Hp]).
      assert (Hpos : early + List.length (skipn early done ++ p) = List.length done + List.length p).
      { rewrite app_length, skipn_length. lia. }
      rewrite Hpos. cbn [find_from]. unfold call at 1.
      rewrite (pick_first_fn_at dis (m_name m) _ (List.length done + List.length p) next lastfn ltac:(lia) defs 0 mi m Hnth eq_refl Hf Hd Hfirst).
      cbn [Nat.add]. rewrite Hnth, Hf.
      assert (Hfn : firstn (List.length done + List.length p) toks = done ++ p).
      { rewrite Htoks. replace (List.length done + List.length p) with (List.length (done ++ p)) by (rewrite app_length; reflexivity).
        apply firstn_app_length_eq. }
      assert (Hsk2 : skipn (S (List.length done + List.length p)) toks = call).
      { rewrite Htoks. replace (S (List.length done + List.length p)) with (List.length ((done ++ p) ++ [MId (m_name m)]))
          by (rewrite !app_length; cbn; lia).
        replace ((done ++ p) ++ MId (m_name m) :: call) with (((done ++ p) ++ [MId (m_name m)]) ++ call)
          by (rewrite <- !app_assoc; reflexivity).
        apply skipn_app_length_eq. }
      rewrite Hsk2, Hfn. unfold call at 1. unfold split_args. cbn [trim_start_all is_ws].
      rewrite (split_go_commas defs args rest [] Hne Hs). cbn [rev app].
      assert (Hp0 : Nat.eqb (m_params m) 0 = false).
      { apply Nat.eqb_neq. rewrite <- Hal. destruct args; [congruence | cbn; lia]. }
      rewrite Hp0, map_length, Hal, Nat.eqb_refl.
      destruct n as [|n']; [lia|].
      assert (Hargs : map (fun a => expand paste defs (S (S d)) dis (S n') a 0 0 None) (map trim args) = map XOk (map trim args)).
      { apply map_ext_in. intros a Ha. apply expand_plain; [|lia].
        apply in_map_iff in Ha as (a0 & <- & Ha0). apply plain_trim, simple_plain.
        rewrite Forall_forall in Hs. apply Hs, Ha0. }
      rewrite Hargs, all_ok_oks. cbn [rev app].
      assert (Hsub : plain (subst (m_body m) (map trim args))).
      { apply subst_is_plain; [exact Hb|]. rewrite Forall_forall. intros a Ha.
        apply in_map_iff in Ha as (a0 & <- & Ha0). apply plain_trim, simple_plain.
        rewrite Forall_forall in Hs. apply Hs, Ha0. }
      rewrite (expand_plain paste defs d _ _ _ 0 0 None Hsub ltac:(lia)).
      unfold rest.
      replace ((done ++ p) ++ subst (m_body m) (map trim args) ++ min r ++ post)
        with ((done ++ p ++ subst (m_body m) (map trim args)) ++ min r ++ post)
        by (rewrite <- !app_assoc; reflexivity).
      rewrite (IH (done ++ p ++ subst (m_body m) (map trim args)) (S n') _ _ (Some mi)).
      * rewrite <- !app_assoc. reflexivity.
      * apply plain_app; [exact Hdone | apply plain_app; [exact Hp | exact Hsub]].
      * rewrite !app_length. lia.
      * rewrite !app_length. lia.
      * lia.
      * exact Hr.
Qed.

Theorem every_use_is_replaced us post :
  Forall (muse_ok (map (fun _ => false) defs)) us -> plain post ->
  apply_macros paste defs (min us ++ post) = XOk (mout us ++ post).
Proof.
  intros Hok Hpost. unfold apply_macros.
  destruct us as [|u r].
  - cbn [min mout app]. apply expand_plain; [exact Hpost | lia].
  - assert (Hnd : exists nd, List.length defs = S nd).
    { inversion Hok as [|? ? Hu _]; subst. destruct u as [p mi m|p mi m args]; destruct Hu as (Hn & _);
        (destruct defs; [destruct mi; discriminate | eexists; reflexivity]). }
    destruct Hnd as [nd Hnd]. rewrite Hnd.
    apply (scan_uses nd _ post Hpost (u :: r) [] _ 0 0 None); try (cbn; lia); try reflexivity; try exact Hok.
    assert (H : forall us, List.length us <= List.length (min us)).
    { induction us as [|[p mi m|p mi m args] r' IH]; [reflexivity| |]; cbn [min List.length]; rewrite app_length; cbn [List.length].
      - lia.
      - rewrite app_length. cbn [List.length]. lia. }
    rewrite app_length. specialize (H (u :: r)). lia.
Qed.

End Many2.
