(* PermProofs.v — the results of the hash-order walks do not depend on the order of the walk. *)
From Coq Require Import List NArith Bool Lia Arith Permutation Sorting.Sorted.
From RV Require Import Perm.
Import ListNotations.

(* ================= collect, then sort ================= *)
Section SortProofs.
Variable A : Type.
Variable leb : A -> A -> bool.
Hypothesis leb_total : forall x y, leb x y = true \/ leb y x = true.
Hypothesis leb_trans : forall x y z, leb x y = true -> leb y z = true -> leb x z = true.

Definition le (x y : A) : Prop := leb x y = true.

Lemma insert_perm x l : Permutation (insert leb x l) (x :: l).
Proof.
  induction l as [|y r IH]; cbn [insert]; [apply Permutation_refl|].
  destruct (leb x y); [apply Permutation_refl|].
  etransitivity; [apply perm_skip, IH | apply perm_swap].
Qed.

Lemma isort_perm l : Permutation (isort leb l) l.
Proof.
  induction l as [|x r IH]; cbn [isort fold_right]; [constructor|].
  etransitivity; [apply insert_perm | apply perm_skip, IH].
Qed.

Lemma insert_sorted x l : StronglySorted le l -> StronglySorted le (insert leb x l).
Proof.
  induction 1 as [|y r Hs IH Hall]; cbn [insert]; [repeat constructor|].
  destruct (leb x y) eqn:E.
  - constructor; [constructor; assumption|]. constructor; [exact E|].
    rewrite Forall_forall in *. intros z Hz. apply (leb_trans x y z E). apply Hall, Hz.
  - constructor; [exact IH|].
    assert (Hyx : leb y x = true) by (destruct (leb_total x y); congruence).
    rewrite Forall_forall in *. intros z Hz.
    apply (Permutation_in _ (insert_perm x r)) in Hz. destruct Hz as [<-|Hz]; [exact Hyx | apply Hall, Hz].
Qed.

Lemma isort_sorted l : StronglySorted le (isort leb l).
Proof. induction l as [|x r IH]; cbn [isort fold_right]; [constructor | apply insert_sorted, IH]. Qed.

(* two sorted arrangements of the same elements are the same list, when elements that compare equal are equal *)
Lemma sorted_perm_eq : forall l l',
  (forall x y, In x l -> In y l -> leb x y = true -> leb y x = true -> x = y) ->
  StronglySorted le l -> StronglySorted le l' -> Permutation l l' -> l = l'.
Proof.
  induction l as [|a r IH]; intros l' Hanti Hs Hs' Hp.
  - apply Permutation_nil in Hp. subst. reflexivity.
  - destruct l' as [|b r']; [apply Permutation_sym, Permutation_nil in Hp; discriminate|].
    inversion Hs as [|? ? Hsr Har]; subst. inversion Hs' as [|? ? Hsr' Hbr']; subst.
    assert (Hab : a = b).
    { assert (Hb : In b (a :: r)) by (apply (Permutation_in _ (Permutation_sym Hp)); left; reflexivity).
      assert (Ha : In a (b :: r')) by (apply (Permutation_in _ Hp); left; reflexivity).
      destruct Hb as [->|Hb]; [reflexivity|]. destruct Ha as [->|Ha]; [reflexivity|].
      rewrite Forall_forall in Har, Hbr'.
      apply Hanti; [left; reflexivity | right; exact Hb | apply Har, Hb | apply Hbr', Ha]. }
    subst b. f_equal. apply IH; try assumption.
    + intros x y Hx Hy. apply Hanti; right; assumption.
    + apply (Permutation_cons_inv Hp).
Qed.

(* Vec::from_iter(hash container) followed by sort: the order of the walk does not matter *)
Theorem sort_order_irrelevant l l' :
  (forall x y, In x l -> In y l -> leb x y = true -> leb y x = true -> x = y) ->
  Permutation l l' -> isort leb l = isort leb l'.
Proof.
  intros Hanti Hp. apply sorted_perm_eq; try apply isort_sorted.
  - intros x y Hx Hy. apply Hanti; apply (Permutation_in _ (isort_perm l)); assumption.
  - etransitivity; [apply isort_perm|]. etransitivity; [exact Hp|]. apply Permutation_sym, isort_perm.
Qed.

End SortProofs.

(* sort_by a key: distinct keys are enough *)
Section SortBy.
Variable A : Type.
Variable key : A -> N.

Definition key_leb (x y : A) : bool := (key x <=? key y)%N.

Lemma key_injective_on l x y : NoDup (map key l) -> In x l -> In y l -> key x = key y -> x = y.
Proof.
  induction l as [|a r IH]; intros Hnd Hx Hy Hk; [destruct Hx|].
  cbn [map] in Hnd. inversion Hnd as [|? ? Hnotin Hnd']; subst.
  destruct Hx as [->|Hx], Hy as [->|Hy]; try reflexivity.
  - exfalso. apply Hnotin. rewrite Hk. apply in_map, Hy.
  - exfalso. apply Hnotin. rewrite <- Hk. apply in_map, Hx.
  - apply IH; assumption.
Qed.

Theorem sort_by_key_order_irrelevant l l' :
  NoDup (map key l) -> Permutation l l' -> isort key_leb l = isort key_leb l'.
Proof.
  intros Hnd Hp. apply sort_order_irrelevant; try assumption.
  - intros x y. unfold key_leb. destruct (N.leb_spec (key x) (key y)); [left; reflexivity|].
    right. apply N.leb_le. lia.
  - intros x y z. unfold key_leb. rewrite !N.leb_le. lia.
  - intros x y Hx Hy H1 H2. unfold key_leb in *. apply N.leb_le in H1, H2.
    apply (key_injective_on l); try assumption. lia.
Qed.
End SortBy.

(* the derived order on (set, size) pairs *)
Theorem pair_sort_order_irrelevant (l l' : list (N * N)) :
  Permutation l l' -> isort pair_leb l = isort pair_leb l'.
Proof.
  apply sort_order_irrelevant.
  - intros [a b] [c d]. unfold pair_leb. cbn [fst snd].
    destruct (N.ltb_spec a c); [left; reflexivity|]. destruct (N.ltb_spec c a); [right; reflexivity|].
    assert (a = c) by lia. subst. rewrite N.eqb_refl. cbn. destruct (N.leb_spec b d); [left; reflexivity|].
    right. apply N.leb_le. lia.
  - intros [a b] [c d] [e f]. unfold pair_leb. cbn [fst snd]. rewrite !orb_true_iff, !andb_true_iff, !N.ltb_lt, !N.eqb_eq, !N.leb_le. lia.
  - intros [a b] [c d] _ _. unfold pair_leb. cbn [fst snd]. rewrite !orb_true_iff, !andb_true_iff, !N.ltb_lt, !N.eqb_eq, !N.leb_le.
    intros H1 H2. f_equal; lia.
Qed.

(* ================= the usage fixpoint ================= *)
Definition sub (a b : list key) : Prop := forall x, In x a -> In x b.
Definition seteq (a b : list key) : Prop := sub a b /\ sub b a.

Lemma mem_in x l : mem x l = true <-> In x l.
Proof.
  unfold mem. rewrite existsb_exists. split.
  - intros (y & Hy & E). apply N.eqb_eq in E. subst. exact Hy.
  - intros H. exists x. split; [exact H | apply N.eqb_refl].
Qed.

Lemma extend_in add : forall cur x, In x (extend cur add) <-> In x cur \/ In x add.
Proof.
  induction add as [|a r IH]; intros cur x; cbn [extend]; [cbn; tauto|].
  destruct (mem a cur) eqn:E.
  - rewrite IH. apply mem_in in E. cbn [In]. split; [tauto|]. intros [H|[<-|H]]; auto.
  - rewrite IH, in_app_iff. cbn [In]. tauto.
Qed.

Lemma extend_len add : forall cur, List.length cur <= List.length (extend cur add).
Proof.
  induction add as [|a r IH]; intros cur; cbn [extend]; [lia|].
  destruct (mem a cur); [apply IH|]. etransitivity; [|apply IH]. rewrite app_length. cbn. lia.
Qed.

Lemma extend_same add : forall cur, List.length (extend cur add) = List.length cur -> sub add cur.
Proof.
  induction add as [|a r IH]; intros cur H x Hx; [destruct Hx|]. cbn [extend] in H.
  destruct (mem a cur) eqn:E.
  - destruct Hx as [<-|Hx]; [apply mem_in, E | apply (IH cur H), Hx].
  - exfalso. pose proof (extend_len r (cur ++ [a])) as L. rewrite app_length in L. cbn in L. lia.
Qed.

Section Fix.
Variable s0 : state.

(* everything reachable from k through the initial usage sets *)
Inductive reach (k : key) : key -> Prop :=
| reach_direct x : In x (get s0 k) -> reach k x
| reach_step o x : reach k o -> In x (get s0 o) -> reach k x.

Definition Inv (s : state) : Prop :=
  forall k, sub (get s0 k) (get s k) /\ (forall x, In x (get s k) -> reach k x).

Definition closed_at (s : state) (k : key) : Prop := forall o, In o (get s k) -> sub (get s o) (get s k).

Lemma get_set s k v k' :
  get (set s k v) k' = if N.eqb k' k && mem k (map fst s) then v else get s k'.
Proof.
  induction s as [|[a w] r IH]; cbn [set get map fst mem existsb].
  - rewrite andb_false_r. reflexivity.
  - destruct (N.eqb k a) eqn:Eka.
    + apply N.eqb_eq in Eka. subst a. cbn [get]. destruct (N.eqb k' k) eqn:E; cbn; reflexivity.
    + cbn [get]. destruct (N.eqb k' a) eqn:Ek'a.
      * apply N.eqb_eq in Ek'a. subst a. destruct (N.eqb k' k) eqn:E; [|reflexivity].
        apply N.eqb_eq in E. subst. rewrite N.eqb_refl in Eka. discriminate.
      * rewrite IH. unfold mem. reflexivity.
Qed.

Lemma get_nokey s k : mem k (map fst s) = false -> get s k = [].
Proof.
  induction s as [|[a w] r IH]; cbn [map fst mem existsb get]; [reflexivity|].
  intros H. apply orb_false_iff in H. destruct H as [H1 H2]. rewrite H1. apply IH. exact H2.
Qed.

Lemma fold_extend_in s l : forall cur x,
  In x (fold_left (fun acc o => extend acc (get s o)) l cur) <-> In x cur \/ exists o, In o l /\ In x (get s o).
Proof.
  induction l as [|a r IH]; intros cur x; cbn [fold_left].
  - split; [auto|]. intros [H|(o & [] & _)]. exact H.
  - rewrite IH, extend_in. split.
    + intros [[H|H]|(o & Ho & Hx)]; [left; exact H | right; exists a; split; [left; reflexivity | exact H] | right; exists o; split; [right; exact Ho | exact Hx]].
    + intros [H|(o & [<-|Ho] & Hx)]; [left; left; exact H | left; right; exact Hx | right; exists o; split; assumption].
Qed.

Lemma fold_extend_len s l : forall cur, List.length cur <= List.length (fold_left (fun acc o => extend acc (get s o)) l cur).
Proof.
  induction l as [|a r IH]; intros cur; cbn [fold_left]; [lia|]. etransitivity; [apply (extend_len (get s a))|apply IH].
Qed.

Lemma fold_extend_same s l : forall cur,
  List.length (fold_left (fun acc o => extend acc (get s o)) l cur) = List.length cur ->
  forall o, In o l -> sub (get s o) cur.
Proof.
  induction l as [|a r IH]; intros cur H o Ho; [destruct Ho|]. cbn [fold_left] in H.
  pose proof (extend_len (get s a) cur) as L1. pose proof (fold_extend_len s r (extend cur (get s a))) as L2.
  assert (E1 : List.length (extend cur (get s a)) = List.length cur) by lia.
  destruct Ho as [<-|Ho]; [apply extend_same, E1|].
  intros x Hx. pose proof (IH (extend cur (get s a)) ltac:(lia) o Ho x Hx) as Hin.
  apply extend_in in Hin. destruct Hin as [Hin|Hin]; [exact Hin | apply (extend_same _ _ E1), Hin].
Qed.

Lemma visit_spec s k s' m : Inv s -> visit s k = (s', m) ->
  Inv s' /\ (m = false -> s' = s /\ closed_at s k).
Proof.
  intros HI Hv. unfold visit in Hv.
  set (cur := get s k) in *. set (new := fold_left _ cur cur) in *.
  destruct (Nat.ltb_spec (List.length cur) (List.length new)) as [Hlt|Hge]; inversion Hv; subst s' m; clear Hv.
  - split; [|discriminate]. intros k'. rewrite get_set.
    destruct (N.eqb k' k && mem k (map fst s)) eqn:E; [|apply HI].
    apply andb_true_iff in E. destruct E as [E _]. apply N.eqb_eq in E. subst k'.
    destruct (HI k) as [H1 H2]. split.
    + intros x Hx. apply fold_extend_in. left. apply H1, Hx.
    + intros x Hx. apply fold_extend_in in Hx. destruct Hx as [Hx|(o & Ho & Hx)]; [apply H2, Hx|].
      (* x is used by o, and o is reachable from k *)
      destruct (HI o) as [_ H2o]. specialize (H2o x Hx). specialize (H2 o Ho).
      clear -H2 H2o. induction H2o as [x Hx|o' x Hr IH Hx].
      * eapply reach_step; [exact H2 | exact Hx].
      * eapply reach_step; [exact IH | exact Hx].
  - split; [exact HI|]. intros _. split; [reflexivity|].
    pose proof (fold_extend_len s cur cur) as L. fold new in L.
    intros o Ho. apply (fold_extend_same s cur cur ltac:(fold new; lia) o Ho).
Qed.

Lemma pass_spec ks : forall s m s' m', Inv s -> pass ks s m = (s', m') ->
  Inv s' /\ (m' = false -> m = false /\ s' = s /\ forall k, In k ks -> closed_at s k).
Proof.
  induction ks as [|k r IH]; intros s m s' m' HI Hp; cbn [pass] in Hp.
  - inversion Hp; subst. split; [exact HI|]. intros ->. repeat split. intros k [].
  - destruct (visit s k) as [s1 m1] eqn:Hv. destruct (visit_spec s k s1 m1 HI Hv) as [HI1 Hm1].
    destruct (IH _ _ _ _ HI1 Hp) as [HI' Hm']. split; [exact HI'|].
    intros ->. destruct (Hm' eq_refl) as (Hor & -> & Hcl). apply orb_false_iff in Hor. destruct Hor as [-> ->].
    destruct (Hm1 eq_refl) as [-> Hck]. repeat split.
    intros k' [<-|Hk']; [exact Hck | apply Hcl, Hk'].
Qed.

Lemma recurse_spec ks : forall fuel s s', Inv s -> recurse fuel ks s = Some s' ->
  Inv s' /\ forall k, In k ks -> closed_at s' k.
Proof.
  induction fuel as [|f IH]; intros s s' HI H; [discriminate|]. cbn [recurse] in H.
  destruct (pass ks s false) as [s1 m] eqn:Hp. destruct (pass_spec ks s false s1 m HI Hp) as [HI1 Hm].
  destruct m.
  - apply (IH s1 s' HI1 H).
  - inversion H; subst s'. destruct (Hm eq_refl) as (_ & -> & Hcl). split; assumption.
Qed.

Lemma Inv_init : Inv s0.
Proof. intros k. split; [intros x Hx; exact Hx | intros x Hx; apply reach_direct, Hx]. Qed.

(* whatever the order of the keys, the fixpoint holds exactly the symbols reachable through the initial usage sets *)
Theorem recurse_is_reachability fuel ks s k :
  recurse fuel ks s0 = Some s -> In k ks -> forall x, In x (get s k) <-> reach k x.
Proof.
  intros H Hk x. destruct (recurse_spec ks fuel s0 s Inv_init H) as [HI Hcl]. split.
  - apply (proj2 (HI k)).
  - intros Hr. induction Hr as [x Hx|o x Hr IH Hx].
    + apply (proj1 (HI k)), Hx.
    + apply (Hcl k Hk o IH). apply (proj1 (HI o)), Hx.
Qed.

Theorem recurse_order_irrelevant fuel fuel' ks ks' s s' k :
  recurse fuel ks s0 = Some s -> recurse fuel' ks' s0 = Some s' -> In k ks -> In k ks' ->
  seteq (get s k) (get s' k).
Proof.
  intros H H' Hk Hk'. split; intros x Hx.
  - apply (recurse_is_reachability fuel' ks' s' k H' Hk'). apply (recurse_is_reachability fuel ks s k H Hk). exact Hx.
  - apply (recurse_is_reachability fuel ks s k H Hk). apply (recurse_is_reachability fuel' ks' s' k H' Hk'). exact Hx.
Qed.

End Fix.
