(* OverloadProofs.v — structural theorems about overload selection (model of
   find_function_type), for any rank tables satisfying the stated obligations. *)
From Coq Require Import List NArith Bool Lia Permutation.
From RV Require Import Overload.
Import ListNotations.
Local Open Scope N_scope.

(* ---------- lexicographic order on lists of N ---------- *)
Lemma lex_lt_irrefl a : lex_lt a a = false.
Proof. induction a as [|x a IH]; cbn; [reflexivity|]. rewrite N.ltb_irrefl. exact IH. Qed.

Lemma lex_lt_trans a : forall b c, lex_lt a b = true -> lex_lt b c = true -> lex_lt a c = true.
Proof.
  induction a as [|x a IH]; intros [|y b] [|z c] H1 H2; cbn in *; try discriminate; try reflexivity.
  destruct (N.ltb_spec x y), (N.ltb_spec y x), (N.ltb_spec y z), (N.ltb_spec z y),
           (N.ltb_spec x z), (N.ltb_spec z x); try discriminate; try reflexivity; try lia.
  eapply IH; eassumption.
Qed.

Lemma lex_lt_total a : forall b, List.length a = List.length b ->
  lex_lt a b = false -> lex_lt b a = false -> a = b.
Proof.
  induction a as [|x a IH]; intros [|y b] L H1 H2; cbn in *; try discriminate; [reflexivity|].
  destruct (N.ltb_spec x y), (N.ltb_spec y x); try discriminate; try lia.
  assert (x = y) by lia. subst. f_equal. apply IH; [lia | assumption | assumption].
Qed.

Lemma list_eqb_eq a : forall b, list_eqb a b = true <-> a = b.
Proof.
  induction a as [|x a IH]; intros [|y b]; cbn; split; intros H; try discriminate; try reflexivity.
  - apply andb_true_iff in H as [H1 H2]. apply N.eqb_eq in H1. apply IH in H2. subst. reflexivity.
  - inversion H; subst. rewrite N.eqb_refl. cbn. apply IH. reflexivity.
Qed.

(* ---------- generic list facts ---------- *)
Lemma forallb_perm {A} (f : A -> bool) l l' : Permutation l l' -> forallb f l = forallb f l'.
Proof.
  induction 1 as [|x l l' P IH|x y l|l l' l'' P1 IH1 P2 IH2]; cbn.
  - reflexivity.
  - rewrite IH. reflexivity.
  - destruct (f x), (f y); reflexivity.
  - congruence.
Qed.

Lemma filter_perm {A} (f : A -> bool) l l' : Permutation l l' -> Permutation (filter f l) (filter f l').
Proof.
  induction 1 as [|x l l' P IH|x y l|l l' l'' P1 IH1 P2 IH2]; cbn.
  - constructor.
  - destruct (f x); [constructor|]; assumption.
  - destruct (f x), (f y); try reflexivity. apply perm_swap.
  - etransitivity; eassumption.
Qed.

Lemma filter_unique {A} (p : A -> bool) (l : list A) (c : A) :
  NoDup l -> In c l -> p c = true -> (forall d, In d l -> d <> c -> p d = false) -> filter p l = [c].
Proof.
  induction l as [|x l IH]; intros Hnd Hin Hc Hd; [destruct Hin|].
  inversion Hnd as [|? ? Hnot Hnd']; subst. cbn [filter]. destruct Hin as [->|Hin].
  - rewrite Hc. f_equal.
    assert (E : forall y, In y l -> p y = false).
    { intros y Hy. apply Hd; [right; exact Hy|]. intros ->. contradiction. }
    clear -E. induction l as [|y l IH]; [reflexivity|]. cbn. rewrite (E y (or_introl eq_refl)).
    apply IH. intros z Hz. apply E. right. exact Hz.
  - assert (x <> c) by (intros ->; contradiction).
    rewrite (Hd x (or_introl eq_refl) H). apply IH; try assumption.
    intros d Hdl Hne. apply Hd; [right; exact Hdl | exact Hne].
Qed.

Section Proofs.
Variable nrank : Type.
Variable order : nrank -> N.
Variable vrank : Type.
Variable vrank_eqb : vrank -> vrank -> bool.
Variable w2b : list vrank.
Hypothesis vrank_eqb_spec : forall a b, vrank_eqb a b = true <-> a = b.

Notation cast := (cast nrank vrank).
Notation cand := (cand nrank vrank).
Notation worse := (worse nrank order).
Notation not_worse_all := (not_worse_all nrank order vrank).
Notation wins := (wins nrank order vrank).
Notation winners := (winners nrank order vrank).
Notation hist := (hist nrank vrank vrank_eqb w2b).
Notation best_order := (best_order nrank vrank vrank_eqb w2b).
Notation finalists := (finalists nrank order vrank vrank_eqb w2b).
Notation resolve := (resolve nrank order vrank vrank_eqb w2b).

Lemma hist_length c : List.length (hist c) = List.length w2b.
Proof. unfold Overload.hist. apply map_length. Qed.

(* ---------- the minimum histogram ---------- *)
Definition lmin (b h : list N) : list N := if lex_lt h b then h else b.

Lemma lex_trichotomy a b : List.length a = List.length b -> lex_lt a b = false -> a = b \/ lex_lt b a = true.
Proof.
  intros L H. destruct (lex_lt b a) eqn:E; [right; reflexivity | left; apply lex_lt_total; assumption].
Qed.

Lemma fold_min_spec (ws : list cand) : forall b0, List.length b0 = List.length w2b ->
  let r := fold_left (fun b c => lmin b (hist (snd c))) ws b0 in
  (r = b0 \/ In r (map (fun c => hist (snd c)) ws)) /\
  lex_lt b0 r = false /\
  (forall c, In c ws -> lex_lt (hist (snd c)) r = false).
Proof.
  induction ws as [|w ws IH]; intros b0 Lb; cbn [fold_left map].
  - repeat split; [left; reflexivity | apply lex_lt_irrefl | intros c []].
  - assert (Lm : List.length (lmin b0 (hist (snd w))) = List.length w2b).
    { unfold lmin. destruct (lex_lt _ _); [apply hist_length | exact Lb]. }
    specialize (IH (lmin b0 (hist (snd w))) Lm). cbn zeta in IH. destruct IH as (I1 & I2 & I3).
    set (r := fold_left (fun b c => lmin b (hist (snd c))) ws (lmin b0 (hist (snd w)))) in *.
    assert (Lr : List.length r = List.length w2b).
    { destruct I1 as [->|I1]; [exact Lm|]. apply in_map_iff in I1 as (c & <- & _). apply hist_length. }
    unfold lmin in *.
    destruct (lex_lt (hist (snd w)) b0) eqn:E.
    + repeat split.
      * right. destruct I1 as [->|I1]; [left; reflexivity | right; exact I1].
      * destruct (lex_lt b0 r) eqn:F; [|reflexivity].
        rewrite (lex_lt_trans _ _ _ E F) in I2. discriminate.
      * intros c [<-|Hc]; [exact I2 | apply I3; exact Hc].
    + repeat split.
      * destruct I1 as [->|I1]; [left; reflexivity | right; right; exact I1].
      * exact I2.
      * intros c [<-|Hc]; [|apply I3; exact Hc].
        destruct (lex_lt (hist (snd w)) r) eqn:F; [|reflexivity].
        assert (T : b0 = r \/ lex_lt r b0 = true) by (apply lex_trichotomy; [congruence | exact I2]).
        destruct T as [Eq|G]; [rewrite <- Eq in F; congruence|].
        rewrite (lex_lt_trans _ _ _ F G) in E. discriminate.
Qed.

Lemma best_order_spec (ws : list cand) : ws <> [] ->
  In (best_order ws) (map (fun c => hist (snd c)) ws) /\
  (forall c, In c ws -> lex_lt (hist (snd c)) (best_order ws) = false).
Proof.
  destruct ws as [|w ws]; [congruence|]. intros _. unfold Overload.best_order.
  destruct (fold_min_spec (w :: ws) (hist (snd w)) (hist_length _)) as (I1 & I2 & I3).
  cbn zeta in *. fold (lmin) in *.
  split; [|exact I3].
  destruct I1 as [E|I1]; [|exact I1]. unfold lmin in E. rewrite E. left. reflexivity.
Qed.

Lemma best_order_unique (ws : list cand) (h : list N) : ws <> [] ->
  In h (map (fun c => hist (snd c)) ws) ->
  (forall c, In c ws -> lex_lt (hist (snd c)) h = false) ->
  h = best_order ws.
Proof.
  intros Hne Hin Hmin. destruct (best_order_spec ws Hne) as (Bin & Bmin).
  apply in_map_iff in Hin as (c & <- & Hc). apply in_map_iff in Bin as (b & Eb & Hb).
  apply lex_lt_total.
  - rewrite <- Eb, !hist_length. reflexivity.
  - apply Bmin. exact Hc.
  - rewrite <- Eb. apply Hmin. exact Hb.
Qed.

Lemma best_order_perm ws ws' : Permutation ws ws' -> best_order ws = best_order ws'.
Proof.
  intros P. destruct ws as [|w ws].
  - apply Permutation_nil in P. subst. reflexivity.
  - assert (N1 : w :: ws <> []) by congruence.
    assert (N2 : ws' <> []). { intros ->. apply Permutation_sym, Permutation_nil in P. congruence. }
    destruct (best_order_spec (w :: ws) N1) as (Bin & Bmin).
    apply best_order_unique; [exact N2 | |].
    + apply (Permutation_in _ (Permutation_map _ P)). exact Bin.
    + intros c Hc. apply Bmin. apply (Permutation_in _ (Permutation_sym P)). exact Hc.
Qed.

(* ---------- T1: the verdict does not depend on declaration order ---------- *)
Lemma wins_perm cs cs' c : Permutation cs cs' -> wins cs c = wins cs' c.
Proof. intros P. unfold Overload.wins. apply forallb_perm. exact P. Qed.

Lemma winners_perm cs cs' : Permutation cs cs' -> Permutation (winners cs) (winners cs').
Proof.
  intros P. unfold Overload.winners.
  rewrite (filter_ext (wins cs) (wins cs')) by (intros c; apply wins_perm; exact P).
  apply filter_perm. exact P.
Qed.

Lemma finalists_perm cs cs' : Permutation cs cs' -> Permutation (finalists cs) (finalists cs').
Proof.
  intros P. unfold Overload.finalists. cbn zeta.
  assert (W := winners_perm cs cs' P). rewrite (best_order_perm _ _ W).
  apply filter_perm. exact W.
Qed.

Theorem resolve_perm cs cs' : Permutation cs cs' -> resolve cs = resolve cs'.
Proof.
  intros P. unfold Overload.resolve. assert (F := finalists_perm cs cs' P).
  destruct (finalists cs) as [|c [|c2 l]].
  - apply Permutation_nil in F. rewrite F. reflexivity.
  - apply Permutation_length_1_inv in F. rewrite F. reflexivity.
  - assert (L := Permutation_length F). destruct (finalists cs') as [|d [|d2 l']]; cbn in L; try discriminate.
    reflexivity.
Qed.

(* ---------- pointwise reading of the zip loop ---------- *)
Definition nle (c a : list cast) : Prop := Forall2 (fun x y => order (fst x) <= order (fst y)) c a.

Lemma nwa_iff c : forall a, List.length c = List.length a -> (not_worse_all c a = true <-> nle c a).
Proof.
  induction c as [|x c IH]; intros [|y a] L; cbn in L; try discriminate; cbn [Overload.not_worse_all].
  - split; [constructor | reflexivity].
  - unfold Overload.worse. rewrite andb_true_iff, negb_true_iff, N.ltb_ge, IH by lia. split.
    + intros [H1 H2]. constructor; assumption.
    + intros H. inversion H; subst. split; assumption.
Qed.

Lemma winners_in cs c : In c (winners cs) <-> In c cs /\ wins cs c = true.
Proof. unfold Overload.winners. apply filter_In. Qed.

Lemma wins_against cs c a : wins cs c = true -> In a cs -> fst a <> fst c -> not_worse_all (snd c) (snd a) = true.
Proof.
  unfold Overload.wins. rewrite forallb_forall. intros H Ha Hne. specialize (H a Ha).
  apply orb_true_iff in H as [H|H]; [apply N.eqb_eq in H; contradiction | exact H].
Qed.

Lemma nodup_fst_inj (cs : list cand) a b : NoDup (map fst cs) -> In a cs -> In b cs -> fst a = fst b -> a = b.
Proof.
  induction cs as [|x cs IH]; intros Hnd Ha Hb E; [destruct Ha|].
  cbn in Hnd. inversion Hnd as [|? ? Hnot Hnd']; subst.
  destruct Ha as [<-|Ha], Hb as [<-|Hb]; try reflexivity.
  - exfalso. apply Hnot. rewrite E. apply in_map. exact Hb.
  - exfalso. apply Hnot. rewrite <- E. apply in_map. exact Ha.
  - apply IH; assumption.
Qed.

Lemma nodup_of_fst (cs : list cand) : NoDup (map fst cs) -> NoDup cs.
Proof.
  induction cs as [|x cs IH]; intros H; [constructor|]. cbn in H. inversion H; subst.
  constructor; [|apply IH; assumption]. intros Hin. apply H2. apply in_map. exact Hin.
Qed.

(* ---------- three vector ranks, worst first ---------- *)
Variable nr_exact : nrank.
Hypothesis order_exact_min : forall r, order nr_exact <= order r.
Variable vorder : vrank -> N.            (* 0 = same dimension, 1 = expand, 2 = contract *)
Variables r0 r1 r2 : vrank.
Hypothesis w2b_eq : w2b = [r2; r1; r0].
Hypothesis vorder_vals : vorder r0 = 0 /\ vorder r1 = 1 /\ vorder r2 = 2.
Hypothesis vrank_cases : forall r, r = r0 \/ r = r1 \/ r = r2.

Definition cnt (l : list cast) (r : vrank) : nat := List.length (filter (fun x => vrank_eqb (snd x) r) l).

Lemma hist3 l : hist l = [N.of_nat (cnt l r2); N.of_nat (cnt l r1); N.of_nat (cnt l r0)].
Proof. unfold Overload.hist, Overload.count_by_rank. rewrite w2b_eq. reflexivity. Qed.

Lemma veqb_refl r : vrank_eqb r r = true.
Proof. apply vrank_eqb_spec. reflexivity. Qed.
Lemma veqb_neq a b : a <> b -> vrank_eqb a b = false.
Proof. intros H. destruct (vrank_eqb a b) eqn:E; [apply vrank_eqb_spec in E; contradiction | reflexivity]. Qed.

Lemma r_distinct : r0 <> r1 /\ r0 <> r2 /\ r1 <> r2.
Proof.
  destruct vorder_vals as (V0 & V1 & V2). repeat split; intros E; rewrite E in *; congruence.
Qed.

Lemma cnt_cons x l r : cnt (x :: l) r = ((if vrank_eqb (snd x) r then 1 else 0) + cnt l r)%nat.
Proof. unfold cnt. cbn [filter]. destruct (vrank_eqb (snd x) r); reflexivity. Qed.

Fixpoint vsum (l : list cast) : N := match l with [] => 0 | x :: r => vorder (snd x) + vsum r end.

Lemma vsum_cnt l : vsum l = 2 * N.of_nat (cnt l r2) + N.of_nat (cnt l r1).
Proof.
  destruct vorder_vals as (V0 & V1 & V2). destruct r_distinct as (D01 & D02 & D12).
  induction l as [|x l IH]; [reflexivity|]. cbn [vsum]. rewrite !cnt_cons, IH.
  destruct (vrank_cases (snd x)) as [E|[E|E]]; rewrite E.
  - rewrite V0, (veqb_neq r0 r2 D02), (veqb_neq r0 r1 D01). lia.
  - rewrite V1, (veqb_neq r1 r2 D12), veqb_refl. lia.
  - rewrite V2, veqb_refl, (veqb_neq r2 r1 (not_eq_sym D12)). lia.
Qed.

Definition vle (d c : list cast) : Prop := Forall2 (fun x y => vorder (snd x) <= vorder (snd y)) d c.

Lemma cumulative d c : vle d c ->
  (cnt d r2 <= cnt c r2)%nat /\ (cnt d r2 + cnt d r1 <= cnt c r2 + cnt c r1)%nat /\ vsum d <= vsum c.
Proof.
  destruct vorder_vals as (V0 & V1 & V2). destruct r_distinct as (D01 & D02 & D12).
  induction 1 as [|x y d c Hxy Hf IH]; [cbn; lia|].
  destruct IH as (I1 & I2 & I3). cbn [vsum]. rewrite !cnt_cons.
  destruct (vrank_cases (snd x)) as [Ex|[Ex|Ex]], (vrank_cases (snd y)) as [Ey|[Ey|Ey]];
    rewrite Ex, Ey in *; rewrite ?V0, ?V1, ?V2 in *;
    rewrite ?veqb_refl, ?(veqb_neq r0 r2 D02), ?(veqb_neq r0 r1 D01), ?(veqb_neq r1 r2 D12),
            ?(veqb_neq r2 r1 (not_eq_sym D12)), ?(veqb_neq r1 r0 (not_eq_sym D01)), ?(veqb_neq r2 r0 (not_eq_sym D02));
    lia.
Qed.

Lemma vsum_le d c : vle d c -> vsum d <= vsum c.
Proof. induction 1 as [|x y d c Hxy Hf IH]; cbn [vsum]; lia. Qed.

Lemma vsum_strict d c : vle d c ->
  (exists i x y, nth_error d i = Some x /\ nth_error c i = Some y /\ vorder (snd x) < vorder (snd y)) ->
  vsum d < vsum c.
Proof.
  induction 1 as [|x y d c Hxy Hf IH]; intros (i & a & b & Ha & Hb & Hlt).
  - destruct i; discriminate.
  - cbn [vsum]. destruct i as [|i]; cbn in Ha, Hb.
    + inversion Ha; inversion Hb; subst. assert (H := vsum_le d c Hf). lia.
    + assert (vsum d < vsum c) by (apply IH; exists i, a, b; auto). lia.
Qed.

Lemma improve_lowers_hist d c : vle d c ->
  (exists i x y, nth_error d i = Some x /\ nth_error c i = Some y /\ vorder (snd x) < vorder (snd y)) ->
  lex_lt (hist d) (hist c) = true.
Proof.
  intros Hle Hst. assert (C := cumulative d c Hle). assert (S := vsum_strict d c Hle Hst).
  rewrite !vsum_cnt in S. destruct C as (C1 & C2 & _). rewrite !hist3. cbn [lex_lt].
  destruct (N.ltb_spec (N.of_nat (cnt d r2)) (N.of_nat (cnt c r2))); [reflexivity|].
  destruct (N.ltb_spec (N.of_nat (cnt c r2)) (N.of_nat (cnt d r2))); [lia|].
  destruct (N.ltb_spec (N.of_nat (cnt d r1)) (N.of_nat (cnt c r1))); [reflexivity|].
  lia.
Qed.

(* ---------- T3: a finalist is never dominated by a viable candidate ---------- *)
Definition cle (x y : cast) : Prop :=
  order (fst x) < order (fst y) \/ (order (fst x) = order (fst y) /\ vorder (snd x) <= vorder (snd y)).
Definition clt (x y : cast) : Prop :=
  order (fst x) < order (fst y) \/ (order (fst x) = order (fst y) /\ vorder (snd x) < vorder (snd y)).
(* d converts no argument worse than c and at least one argument better *)
Definition dominates (d c : list cast) : Prop :=
  Forall2 cle d c /\ exists i x y, nth_error d i = Some x /\ nth_error c i = Some y /\ clt x y.

Lemma forall2_nth {A B} (R : A -> B -> Prop) l l' i x y :
  Forall2 R l l' -> nth_error l i = Some x -> nth_error l' i = Some y -> R x y.
Proof.
  intros H. revert i. induction H as [|a b l l' Hab Hf IH]; intros [|i] Hx Hy; cbn in *; try discriminate.
  - inversion Hx; inversion Hy; subst. exact Hab.
  - eapply IH; eassumption.
Qed.

Lemma forall2_and {A B} (R S : A -> B -> Prop) l l' :
  Forall2 R l l' -> Forall2 S l l' -> Forall2 (fun x y => R x y /\ S x y) l l'.
Proof. induction 1; intros H2; inversion H2; subst; constructor; auto. Qed.

Lemma forall2_flip {A B} (R : A -> B -> Prop) l l' : Forall2 R l l' -> Forall2 (fun y x => R x y) l' l.
Proof. induction 1; constructor; auto. Qed.

Lemma forall2_impl {A B} (R S : A -> B -> Prop) l l' :
  (forall x y, R x y -> S x y) -> Forall2 R l l' -> Forall2 S l l'.
Proof. intros H. induction 1; constructor; auto. Qed.

Lemma forall2_trans_le (c d a : list cast) :
  Forall2 (fun x y => order (fst x) = order (fst y)) d c -> nle c a -> nle d a.
Proof.
  intros H. revert a. induction H as [|x y d c Hxy Hf IH]; intros a Ha; inversion Ha; subst; constructor.
  - lia.
  - apply IH. assumption.
Qed.

Theorem finalist_not_dominated cs n c :
  NoDup (map fst cs) -> (forall d, In d cs -> List.length (snd d) = n) ->
  In c (finalists cs) -> forall d, In d cs -> ~ dominates (snd d) (snd c).
Proof.
  intros Hnd Hlen Hc d Hd [Hle (j & xj & yj & Hxj & Hyj & Hlt)].
  unfold Overload.finalists in Hc. cbn zeta in Hc. apply filter_In in Hc as [Hw Hbest].
  apply list_eqb_eq in Hbest. apply winners_in in Hw as [Hcin Hwins].
  destruct (N.eq_dec (fst d) (fst c)) as [E|Hne].
  - (* the candidate itself *)
    assert (d = c) by (eapply nodup_fst_inj; eassumption). subst d.
    rewrite Hxj in Hyj. inversion Hyj; subst. destruct Hlt as [H|[_ H]]; lia.
  - assert (Lc := Hlen c Hcin). assert (Ld := Hlen d Hd).
    (* c is numerically no worse than d, d is no worse than c: equal numeric order everywhere *)
    assert (Ncd : nle (snd c) (snd d)).
    { apply nwa_iff; [lia|]. apply (wins_against cs c d Hwins Hd Hne). }
    assert (Eq : Forall2 (fun x y => order (fst x) = order (fst y)) (snd d) (snd c)).
    { eapply forall2_impl; [|apply (forall2_and _ _ _ _ Hle (forall2_flip _ _ _ Ncd))].
      intros x y [[H|[H _]] H']; lia. }
    assert (Vle : vle (snd d) (snd c)).
    { eapply forall2_impl; [|apply (forall2_and _ _ _ _ Hle Eq)].
      intros x y [[H|[_ H]] H']; [lia | exact H]. }
    assert (Vst : exists i x y, nth_error (snd d) i = Some x /\ nth_error (snd c) i = Some y /\ vorder (snd x) < vorder (snd y)).
    { exists j, xj, yj. repeat split; try assumption.
      assert (H := forall2_nth _ _ _ _ _ _ Eq Hxj Hyj). cbn in H. destruct Hlt as [H'|[_ H']]; [lia | exact H']. }
    (* d also survives the numeric tournament *)
    assert (Hdw : In d (winners cs)).
    { apply winners_in. split; [exact Hd|]. unfold Overload.wins. apply forallb_forall. intros a Ha.
      destruct (N.eqb_spec (fst a) (fst d)) as [|Had]; [reflexivity|]. cbn [orb].
      apply nwa_iff; [rewrite (Hlen a Ha); lia|].
      destruct (N.eq_dec (fst a) (fst c)) as [Eac|Nac].
      - assert (a = c) by (eapply nodup_fst_inj; eassumption). subst a.
        eapply forall2_impl; [|exact Eq]. intros x y H; cbn in H; lia.
      - eapply forall2_trans_le; [exact Eq|].
        apply nwa_iff; [rewrite (Hlen a Ha); lia|]. apply (wins_against cs c a Hwins Ha Nac). }
    (* and has a strictly smaller histogram than the minimum *)
    assert (Hlt' := improve_lowers_hist _ _ Vle Vst).
    assert (Hne' : winners cs <> []) by (intros E; rewrite E in Hdw; destruct Hdw).
    destruct (best_order_spec (winners cs) Hne') as (_ & Bmin).
    specialize (Bmin d Hdw). rewrite <- Hbest in Bmin. congruence.
Qed.

Lemma resolve_selected cs i : resolve cs = Selected i -> exists c, finalists cs = [c] /\ fst c = i.
Proof.
  unfold Overload.resolve. destruct (finalists cs) as [|c [|c2 l]]; try discriminate.
  intros H; inversion H; subst. exists c. split; reflexivity.
Qed.

(* ---------- T2: a candidate that needs no conversion at all is selected ---------- *)
Definition exact_cast (x : cast) : Prop := order (fst x) = order nr_exact /\ snd x = r0.

Lemma nwa_exact c : Forall exact_cast c -> forall a, not_worse_all c a = true.
Proof.
  induction 1 as [|x c Hx Hf IH]; intros [|y a]; cbn [Overload.not_worse_all]; try reflexivity.
  rewrite IH, andb_true_r. unfold Overload.worse. destruct Hx as [Hx _].
  apply negb_true_iff, N.ltb_ge. rewrite Hx. apply order_exact_min.
Qed.

Lemma cnt_exact c : Forall exact_cast c -> cnt c r2 = 0%nat /\ cnt c r1 = 0%nat.
Proof.
  destruct r_distinct as (D01 & D02 & D12).
  induction 1 as [|x c [_ Hx] Hf IH]; [split; reflexivity|]. rewrite !cnt_cons, Hx.
  rewrite (veqb_neq r0 r2 D02), (veqb_neq r0 r1 D01). exact IH.
Qed.

Lemma cnt_inexact d :
  Forall (fun x => order (fst x) = order nr_exact) d -> Exists (fun x => ~ exact_cast x) d ->
  (0 < cnt d r2 + cnt d r1)%nat.
Proof.
  destruct r_distinct as (D01 & D02 & D12).
  intros Ho. induction 1 as [x d Hx|x d He IH]; inversion Ho; subst; rewrite !cnt_cons.
  - destruct (vrank_cases (snd x)) as [E|[E|E]].
    + exfalso. apply Hx. split; assumption.
    + rewrite E, veqb_refl. lia.
    + rewrite E, veqb_refl. lia.
  - assert (H := IH H2). lia.
Qed.

Lemma nle_exact_order dd cc :
  nle dd cc -> Forall exact_cast cc -> Forall (fun x => order (fst x) = order nr_exact) dd.
Proof.
  unfold nle. induction 1 as [|x y dd' cc' Hxy Hf IH]; intros Hex; [constructor|].
  inversion Hex as [|? ? [Hy _] Hex']; subst. constructor; [|apply IH; exact Hex'].
  assert (H := order_exact_min (fst x)). lia.
Qed.

Theorem exact_wins cs n c :
  NoDup (map fst cs) -> (forall d, In d cs -> List.length (snd d) = n) -> In c cs ->
  Forall exact_cast (snd c) ->
  (forall d, In d cs -> fst d <> fst c -> Exists (fun x => ~ exact_cast x) (snd d)) ->
  resolve cs = Selected (fst c).
Proof.
  intros Hnd Hlen Hc Hex Hothers.
  assert (Hcw : In c (winners cs)).
  { apply winners_in. split; [exact Hc|]. unfold Overload.wins. apply forallb_forall. intros a _.
    rewrite (nwa_exact _ Hex). apply orb_true_r. }
  assert (Hlt : forall d, In d (winners cs) -> fst d <> fst c -> lex_lt (hist (snd c)) (hist (snd d)) = true).
  { intros d Hdw Hne. apply winners_in in Hdw as [Hd Hwd].
    assert (Ndc : nle (snd d) (snd c)).
    { apply nwa_iff; [rewrite (Hlen d Hd), (Hlen c Hc); reflexivity|].
      apply (wins_against cs d c Hwd Hc). congruence. }
    assert (Ho : Forall (fun x => order (fst x) = order nr_exact) (snd d)).
    { eapply nle_exact_order; eassumption. }
    assert (P := cnt_inexact _ Ho (Hothers d Hd Hne)). destruct (cnt_exact _ Hex) as [Z2 Z1].
    rewrite !hist3, Z2, Z1. cbn [lex_lt].
    destruct (N.ltb_spec (N.of_nat 0) (N.of_nat (cnt (snd d) r2))); [reflexivity|].
    destruct (N.ltb_spec (N.of_nat (cnt (snd d) r2)) (N.of_nat 0)); [lia|].
    destruct (N.ltb_spec (N.of_nat 0) (N.of_nat (cnt (snd d) r1))); [reflexivity|]. lia. }
  assert (Hne : winners cs <> []) by (intros E; rewrite E in Hcw; destruct Hcw).
  assert (Hbest : hist (snd c) = best_order (winners cs)).
  { apply best_order_unique; [exact Hne | apply in_map_iff; exists c; auto |].
    intros w Hw. destruct (N.eq_dec (fst w) (fst c)) as [E|Nwc].
    - assert (w = c). { apply winners_in in Hw as [Hw _]. eapply nodup_fst_inj; eassumption. }
      subst. apply lex_lt_irrefl.
    - specialize (Hlt w Hw Nwc). destruct (lex_lt (hist (snd w)) (hist (snd c))) eqn:F; [|reflexivity].
      assert (X := lex_lt_trans _ _ _ Hlt F).
      rewrite lex_lt_irrefl in X. discriminate. }
  unfold Overload.resolve, Overload.finalists. cbn zeta.
  rewrite (filter_unique _ (winners cs) c); [reflexivity | | exact Hcw | |].
  - unfold Overload.winners. apply NoDup_filter. apply nodup_of_fst. exact Hnd.
  - apply list_eqb_eq. exact Hbest.
  - intros d Hdw Hdc. destruct (list_eqb (hist (snd d)) (best_order (winners cs))) eqn:E; [|reflexivity].
    apply list_eqb_eq in E. rewrite <- Hbest in E.
    assert (fst d <> fst c).
    { intros Efst. apply Hdc. apply winners_in in Hdw as [Hd _]. eapply nodup_fst_inj; eassumption. }
    specialize (Hlt d Hdw H). rewrite E, lex_lt_irrefl in Hlt. discriminate.
Qed.

End Proofs.
